"""Accumulation idioms over the entries of a mapping, recognised on terms (shared by C04 and C20):
`D[K] = D.get(K, 0) + X` / `D[K] += X` inside a loop, and paths into the (key, [unit, exp]) entries of
`<map>.items()` / `.values()`."""
import ast

from .srcmodel import own_statements


def entry_path(t):
    """t taken out of an entry of `<map>.items()` / `.values()` -> (map term, path inside the (key, [unit, exp]) entry)."""
    path = []
    while t[0] == "sub" and t[2][0] == "const" and isinstance(t[2][1], int):
        path.insert(0, t[2][1])
        t = t[1]
    if t[0] != "elem":
        return None, None
    it = t[1]
    while it[0] == "call" and it[1] in (("name", "list"), ("name", "tuple"), ("name", "iter")) and len(it[2]) == 1:
        it = it[2][0]  # a snapshot of the view iterates the same entries
    if it[0] == "call" and it[1][0] == "attr" and it[1][2] in ("items", "values") and not it[2]:
        if it[1][2] == "values":
            path.insert(0, 1)
        return it[1][1], tuple(path)
    return None, None


def accumulations(m, fn, res):
    """Statements `D[K] = D.get(K, 0) + X` / `D[K] += X` inside a loop -> [{st, dict, key, added, loop, conditional}]."""
    out = []
    for st in own_statements(fn.node):
        tgt = None
        if isinstance(st, ast.Assign) and len(st.targets) == 1 and isinstance(st.targets[0], ast.Subscript):
            tgt = st.targets[0]
        elif isinstance(st, ast.AugAssign) and isinstance(st.target, ast.Subscript) and isinstance(st.op, ast.Add):
            tgt = st.target
        if tgt is None or not isinstance(tgt.value, ast.Name):
            continue
        loop, conditional, p = None, False, getattr(st, "_parent", None)
        while p is not None and p is not fn.node:
            if isinstance(p, (ast.If, ast.Try, ast.While)):
                conditional = True
            if isinstance(p, ast.For):
                loop = p
                break
            p = getattr(p, "_parent", None)
        if loop is None:
            continue
        K = res.term(tgt.slice)
        if isinstance(st, ast.AugAssign):
            added = res.term(st.value)
        else:
            v = res.term(st.value)
            if not (v[0] == "op" and v[1] == "Add" and len(v[2]) == 2):
                continue

            def is_get(x):
                return x[0] == "call" and x[1][0] == "attr" and x[1][2] == "get" and len(x[2]) == 2 and x[2][0] == K and x[2][1] == ("const", 0)

            a_, b_ = v[2]
            added = b_ if is_get(a_) else a_ if is_get(b_) else None
            if added is None:
                continue
        out.append({"st": st, "dict": tgt.value, "key": K, "added": added, "loop": loop, "conditional": conditional})
    return out


def appends(m, fn, res):
    """Statements `L.append(X)` inside a loop -> [{st, list (Name node), elt (term of X), loop, conditional}]."""
    out = []
    for st in own_statements(fn.node):
        if not (isinstance(st, ast.Expr) and isinstance(st.value, ast.Call) and isinstance(st.value.func, ast.Attribute) and st.value.func.attr == "append"
                and isinstance(st.value.func.value, ast.Name) and len(st.value.args) == 1 and not st.value.keywords):
            continue
        loop, conditional, p = None, False, getattr(st, "_parent", None)
        while p is not None and p is not fn.node:
            if isinstance(p, (ast.If, ast.Try, ast.While)):
                conditional = True
            if isinstance(p, ast.For):
                loop = p
                break
            p = getattr(p, "_parent", None)
        if loop is None:
            continue
        out.append({"st": st, "list": st.value.func.value, "elt": res.term(st.value.args[0]), "loop": loop, "conditional": conditional})
    return out
