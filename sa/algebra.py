"""A8: exact algebra over the *syntax* of conversion formulas.

Polynomials in several symbols with Fraction coefficients (dict monomial -> coeff) and rational
functions as (numerator, denominator).  Built from expression ASTs; numeric literals are taken
from their source *text* (exact decimal -> Fraction), never from the float value.
"""
import ast
from fractions import Fraction

from .report import AnalysisError


class Num:
    """An exact number folded from literal text: value, whether any float literal took part,
    the number of significant digits written (None = exact: integer or power of ten)."""

    __slots__ = ("value", "is_float", "text", "halfulp")

    def __init__(self, value, is_float=False, text=None, halfulp=Fraction(0)):
        self.value = Fraction(value)
        self.is_float = is_float
        self.text = text
        self.halfulp = halfulp  # relative half unit in the last written digit (0 = exact)

    def __repr__(self):
        return "Num(%s)" % (self.text if self.text is not None else self.value)


def literal_num(text, value):
    """Exact Fraction of a numeric literal from its text; relative half-ulp of the written digits."""
    t = text.replace("_", "").strip()
    if isinstance(value, bool) or not isinstance(value, (int, float)):
        raise AnalysisError("not a numeric literal: %r" % (text,))
    try:
        frac = Fraction(t)
    except (ValueError, ZeroDivisionError):
        # hex / odd spellings: fall back to the exact binary value
        frac = Fraction(value)
        return Num(frac, isinstance(value, float), text, Fraction(0))
    if isinstance(value, int):
        return Num(frac, False, text, Fraction(0))
    mant = t.lower().split("e")[0].lstrip("+-")
    digits = mant.replace(".", "").lstrip("0")
    stripped = digits.rstrip("0")
    # a power of ten or a short exact-looking decimal (1.0, 0.001, 100.0) is taken as exact
    if stripped in ("", "1"):
        return Num(frac, True, text, Fraction(0))
    ndig = len(digits) if "." in mant else len(stripped)
    # half a unit in the last written digit, relative to the value
    if "." in mant:
        frac_digits = len(mant.split(".")[1])
    else:
        frac_digits = 0
    exp = 0
    if "e" in t.lower():
        exp = int(t.lower().split("e")[1])
    half = Fraction(1, 2) * Fraction(10) ** (exp - frac_digits)
    rel = abs(half / frac) if frac != 0 else Fraction(0)
    return Num(frac, True, text, rel)


def fold(node, line_text):
    """Constant-fold a numeric expression made of literals and + - * / ** and unary minus.
    `line_text(node)` returns the source text of a Constant node."""
    if isinstance(node, ast.Constant):
        if isinstance(node.value, bool) or not isinstance(node.value, (int, float)):
            raise AnalysisError("non-numeric constant in numeric expression: %r" % (node.value,))
        return literal_num(line_text(node), node.value)
    if isinstance(node, ast.UnaryOp) and isinstance(node.op, (ast.USub, ast.UAdd)):
        v = fold(node.operand, line_text)
        if isinstance(node.op, ast.USub):
            return Num(-v.value, v.is_float, None if v.text is None else "-" + v.text, v.halfulp)
        return v
    if isinstance(node, ast.BinOp):
        l = fold(node.left, line_text)
        r = fold(node.right, line_text)
        isf = l.is_float or r.is_float or isinstance(node.op, ast.Div)
        hu = l.halfulp + r.halfulp
        if isinstance(node.op, ast.Add):
            v = l.value + r.value
        elif isinstance(node.op, ast.Sub):
            v = l.value - r.value
        elif isinstance(node.op, ast.Mult):
            v = l.value * r.value
        elif isinstance(node.op, ast.Div):
            if r.value == 0:
                raise AnalysisError("division by zero in literal expression")
            v = l.value / r.value
        elif isinstance(node.op, ast.Pow):
            if r.value.denominator != 1 or abs(r.value) > 64:
                raise AnalysisError("unsupported literal power")
            v = l.value ** int(r.value)
            hu = l.halfulp * abs(int(r.value))
        else:
            raise AnalysisError("unsupported literal operator %s" % type(node.op).__name__)
        return Num(v, isf, None, hu)
    raise AnalysisError("not a literal numeric expression: %s" % ast.dump(node)[:80])


# ---------------------------------------------------------------------- polynomials
class Poly:
    __slots__ = ("t",)

    def __init__(self, terms=None):
        self.t = {m: c for m, c in (terms or {}).items() if c != 0}

    @staticmethod
    def const(c):
        return Poly({(): Fraction(c)})

    @staticmethod
    def var(name):
        return Poly({((name, 1),): Fraction(1)})

    def __add__(self, o):
        t = dict(self.t)
        for m, c in o.t.items():
            t[m] = t.get(m, 0) + c
        return Poly(t)

    def __neg__(self):
        return Poly({m: -c for m, c in self.t.items()})

    def __sub__(self, o):
        return self + (-o)

    def __mul__(self, o):
        t = {}
        for m1, c1 in self.t.items():
            for m2, c2 in o.t.items():
                d = dict(m1)
                for v, e in m2:
                    d[v] = d.get(v, 0) + e
                m = tuple(sorted((v, e) for v, e in d.items() if e))
                t[m] = t.get(m, 0) + c1 * c2
        return Poly(t)

    def __eq__(self, o):
        return isinstance(o, Poly) and self.t == o.t

    def __hash__(self):
        return hash(frozenset(self.t.items()))

    def is_zero(self):
        return not self.t

    def is_const(self):
        return all(m == () for m in self.t)

    def const_value(self):
        return self.t.get((), Fraction(0))

    def degree(self, var):
        d = 0
        for m in self.t:
            for v, e in m:
                if v == var:
                    d = max(d, e)
        return d

    def coeff(self, var, k):
        """Coefficient polynomial of var**k."""
        t = {}
        for m, c in self.t.items():
            e = dict(m).get(var, 0)
            if e == k:
                m2 = tuple((v, x) for v, x in m if v != var)
                t[m2] = t.get(m2, 0) + c
        return Poly(t)

    def subst(self, var, num, den):
        """Substitute var := num/den; returns (numerator poly, power of den to divide by)."""
        k = self.degree(var)
        out = Poly()
        for i in range(k + 1):
            ci = self.coeff(var, i)
            term = ci
            for _ in range(i):
                term = term * num
            for _ in range(k - i):
                term = term * den
            out = out + term
        return out, k

    def __repr__(self):
        if not self.t:
            return "0"
        parts = []
        for m, c in sorted(self.t.items()):
            s = "*".join(v if e == 1 else "%s^%d" % (v, e) for v, e in m)
            parts.append(("%s*%s" % (c, s)) if s and c != 1 else (s or str(c)))
        return " + ".join(parts)


class Rat:
    """Rational function num/den (not normalised; compared by cross-multiplication)."""

    __slots__ = ("n", "d")

    def __init__(self, n, d=None):
        self.n = n
        self.d = d if d is not None else Poly.const(1)

    def __add__(self, o):
        return Rat(self.n * o.d + o.n * self.d, self.d * o.d)

    def __sub__(self, o):
        return Rat(self.n * o.d - o.n * self.d, self.d * o.d)

    def __mul__(self, o):
        return Rat(self.n * o.n, self.d * o.d)

    def __truediv__(self, o):
        if o.n.is_zero():
            raise AnalysisError("division by the zero polynomial in a conversion formula")
        return Rat(self.n * o.d, self.d * o.n)

    def __neg__(self):
        return Rat(-self.n, self.d)

    def same(self, o):
        return (self.n * o.d - o.n * self.d).is_zero()

    def compose(self, var, inner):
        """self(var := inner)."""
        n, kn = self.n.subst(var, inner.n, inner.d)
        d, kd = self.d.subst(var, inner.n, inner.d)
        # n / inner.d^kn  over  d / inner.d^kd
        num, den = n, d
        for _ in range(kd):
            num = num * inner.d
        for _ in range(kn):
            den = den * inner.d
        return Rat(num, den)

    def __repr__(self):
        return "(%r)/(%r)" % (self.n, self.d)


def expr_to_rat(node, env, line_text=None):
    """Expression AST -> Rat.  `env` maps names to Rat (symbols or constants).
    Accepts + - * / unary minus, integer ** on the whole, float(x)/abs-free arithmetic only."""
    if isinstance(node, ast.Constant):
        if isinstance(node.value, bool) or not isinstance(node.value, (int, float)):
            raise AnalysisError("non-numeric constant in formula")
        if line_text is not None:
            return Rat(Poly.const(literal_num(line_text(node), node.value).value))
        return Rat(Poly.const(Fraction(repr(node.value))))
    if isinstance(node, ast.Name):
        if node.id not in env:
            raise AnalysisError("free name %r in conversion formula" % node.id)
        return env[node.id]
    if isinstance(node, ast.UnaryOp) and isinstance(node.op, ast.USub):
        return -expr_to_rat(node.operand, env, line_text)
    if isinstance(node, ast.UnaryOp) and isinstance(node.op, ast.UAdd):
        return expr_to_rat(node.operand, env, line_text)
    if isinstance(node, ast.BinOp):
        l = expr_to_rat(node.left, env, line_text)
        if isinstance(node.op, ast.Pow):
            r = expr_to_rat(node.right, env, line_text)
            if not (r.n.is_const() and r.d.is_const()):
                raise AnalysisError("non-constant exponent in conversion formula")
            e = r.n.const_value() / r.d.const_value()
            if e.denominator != 1 or not (0 <= e <= 8):
                raise AnalysisError("unsupported exponent in conversion formula")
            out = Rat(Poly.const(1))
            for _ in range(int(e)):
                out = out * l
            return out
        r = expr_to_rat(node.right, env, line_text)
        if isinstance(node.op, ast.Add):
            return l + r
        if isinstance(node.op, ast.Sub):
            return l - r
        if isinstance(node.op, ast.Mult):
            return l * r
        if isinstance(node.op, ast.Div):
            return l / r
        raise AnalysisError("unsupported operator %s in conversion formula" % type(node.op).__name__)
    if isinstance(node, ast.Call) and isinstance(node.func, ast.Name) and node.func.id == "float" and len(node.args) == 1:
        return expr_to_rat(node.args[0], env, line_text)
    raise AnalysisError("unsupported construct in conversion formula: %s" % type(node).__name__)


def mobius_of(rat, var="x"):
    """If rat == (A + B*var)/(C + D*var) with constant A..D, return (A, B, C, D) as Fractions."""
    if rat.n.degree(var) > 1 or rat.d.degree(var) > 1:
        return None
    parts = []
    for p in (rat.n, rat.d):
        c0, c1 = p.coeff(var, 0), p.coeff(var, 1)
        if not (c0.is_const() and c1.is_const()):
            return None
        parts += [c0.const_value(), c1.const_value()]
    return tuple(parts)
