"""Function and method names of the library as of the tree the rules were written against.
A private helper whose name is not in this set was introduced later: term normalisation treats a call
of it as transparent (its return expression is substituted), so that extracting a block into a new
helper does not change what the rules see.  Regenerate with tools/gen_anchors.py only when rules are
re-validated against a new baseline."""

KNOWN_FUNCTIONS = frozenset(['AddCategory', 'AddUnit', 'AddUnitBase', 'AddUnitSystem', 'AlmostEqual', 'ChangeScalars', 'ChangingIndex', 'CheckCategoryUnit', 'CheckDefaultUnitDatabase', 'CheckFormatString', 'CheckQuantityType', 'CheckQuantityTypeUnit', 'CheckType', 'CheckValidity', 'CheckValue', 'CheckValueForCategory', 'CheckValues', 'Clear', 'Convert', 'ConvertFractionScalar', 'ConvertFractionValue', 'ConvertNumpyArray', 'ConvertScalarToCurrent', 'ConvertScalarValue', 'ConvertToCurrent', 'Copy', 'CreateAreaQuantityFromLengthQuantity', 'CreateCopy', 'CreateCopyInstance', 'CreateDefaultSingleton', 'CreateDerived', 'CreateEmpty', 'CreateEmptyArray', 'CreateEmptyScalar', 'CreateFromFloat', 'CreateFromString', 'CreateScalarCheckErrorMsg', 'CreateScalarCheckWarningMsg', 'CreateUnknwonwReadOnlyQuantity', 'CreateVolumeQuantityFromLengthQuantity', 'CreateWithQuantity', 'Divide', 'FillSimple', 'FillUnitDatabaseWithPosc', 'FindNumerator', 'FindSimilarUnitMatches', 'FindUnitCase', 'FixUnitIfIsLegacy', 'FloatFromString', 'FloorDivide', 'FormatFloat', 'FromScalars', 'GetAbstractValue', 'GetBaseUnit', 'GetCaption', 'GetCategory', 'GetCategoryDefaultUnit', 'GetCategoryInfo', 'GetCategoryQuantityType', 'GetCategoryToUnitAndExps', 'GetCategoryToUnitAndExpsCopy', 'GetComposingCategories', 'GetComposingUnits', 'GetComposingUnitsJoiningExponents', 'GetCurrent', 'GetDefaultCategory', 'GetDefaultUnit', 'GetDefaultValue', 'GetDimension', 'GetDomain', 'GetFormatted', 'GetFormattedSuffix', 'GetFormattedSuffixFormat', 'GetFormattedValue', 'GetFormattedValueFormat', 'GetFraction', 'GetFractionalPart', 'GetId', 'GetImage', 'GetInfo', 'GetInfos', 'GetLength', 'GetLocalizedFraction', 'GetLocalizedString', 'GetMaxNumerator', 'GetNaN', 'GetNewId', 'GetNumber', 'GetQuantity', 'GetQuantityDefaultUnit', 'GetQuantityType', 'GetQuantityTypes', 'GetUnit', 'GetUnitCaption', 'GetUnitDatabase', 'GetUnitHtmlRepresentation', 'GetUnitName', 'GetUnitNames', 'GetUnitSystemById', 'GetUnitSystemTemplate', 'GetUnitSystems', 'GetUnits', 'GetUnitsMapping', 'GetUnknownCaption', 'GetUnknownQuantity', 'GetValidUnits', 'GetValue', 'GetValueAndUnit', 'GetValues', 'HasCategory', 'IndexAsScalar', 'IsDerived', 'IsListOfTuples', 'IsNumber', 'IsNumpy', 'IsReadOnly', 'IsTuple', 'IsValid', 'IsValidCategory', 'IterCategories', 'MakeBaseToCustomary', 'MakeCopy', 'MakeCustomaryToBase', 'MakeLambda', 'MakeTuple', 'MatchFractionPart', 'Multiply', 'ObtainQuantity', 'Register', 'RegisterAdditionalConversionType', 'RegisterFractionScalarConversion', 'RegisterNumpyConversion', 'RemoveCategory', 'RemoveUnitSystem', 'ResetInstance', 'SetCaption', 'SetCurrent', 'SetDefaultUnit', 'SetDefaultUnitSystemClass', 'SetDomain', 'SetFormattedSuffixFormat', 'SetFormattedValueFormat', 'SetFraction', 'SetImage', 'SetNumber', 'SetReadOnly', 'SetTemplateUnitSystemByUnitsMapping', 'SetUnknownCaption', 'SetValues', 'Subtract', 'Sum', 'TryToGetUnitInfoFromUnit', 'UpdateObjects', 'ValidateValues', '_CategoryUnitChange', '_CheckImageAndDomainLength', '_CheckUnitSystemMapping', '_ConvertWithExp', '_CreateDerived', '_CreateUnitsWithJoinedExponentsString', '_DoOperation', '_DoOperationResultingInNewQuantity', '_DoOperationWithSameQuantity', '_DoValidateValues', '_GetComparison', '_GetDefaultValue', '_GetKnownNumberTypes', '_InternalCreateWithQuantity', '_MakeStr', '_MatchQuantities', '_ObtainReduced', '_OnRefKilled', '_RaiseValueError', '_ScalarCheckMsgPredicate', '__FormatFractionToString', '__FormatToString', '__abs__', '__add__', '__copy__', '__deepcopy__', '__eq__', '__float__', '__floordiv__', '__ge__', '__getitem__', '__gt__', '__hash__', '__init__', '__iter__', '__le__', '__len__', '__lt__', '__mod__', '__mul__', '__ne__', '__neg__', '__new__', '__old_cmp__', '__pow__', '__radd__', '__rdiv__', '__reduce__', '__repr__', '__rfloordiv__', '__rmod__', '__rmul__', '__rsub__', '__rtruediv__', '__setitem__', '__str__', '__sub__', '__truediv__', 'classify', 'copy', 'get_denominator', 'get_numerator', 'identity', 'inv', 'reduce', 'ret', 'set_denominator', 'set_numerator'])

# private functions of the baseline: 'path:class:name' -> parameter names (used to recognise a pure rename)
PRIVATE_SIGNATURES = {'src/barril/_util/types_.py::_GetKnownNumberTypes': [],
 'src/barril/curve/curve.py:Curve:_CheckImageAndDomainLength': ['self', 'image', 'domain'],
 'src/barril/units/_abstractvaluewithquantity.py:AbstractValueWithQuantityObject:_GetDefaultValue': ['self', 'category_info', 'unit'],
 'src/barril/units/_abstractvaluewithquantity.py:AbstractValueWithQuantityObject:_InternalCreateWithQuantity': ['self', 'quantity', 'value', 'unit_database'],
 'src/barril/units/_array.py:Array:_DoOperation': ['self', 'p1', 'p2', 'operation'],
 'src/barril/units/_array.py:Array:_DoValidateValues': ['self', 'values', 'quantity'],
 'src/barril/units/_array.py:Array:_GetDefaultValue': ['self', 'category_info', 'unit'],
 'src/barril/units/_array.py:Array:_InternalCreateWithQuantity': ['self', 'quantity', 'values', 'unit_database', 'value'],
 'src/barril/units/_fixedarray.py:FixedArray:_GetDefaultValue': ['self', 'category_info', 'unit'],
 'src/barril/units/_fixedarray.py:FixedArray:_InternalCreateWithQuantity': ['self', 'quantity', 'values', 'unit_database', 'dimension', 'value'],
 'src/barril/units/_fraction_scalar.py:FractionScalar:_GetDefaultValue': ['self', 'category_info', 'unit'],
 'src/barril/units/_fraction_scalar.py:FractionScalar:_InternalCreateWithQuantity': ['self', 'quantity', 'value', 'unit_database'],
 'src/barril/units/_quantity.py::_ObtainReduced': ['state'],
 'src/barril/units/_quantity.py:Quantity:_CreateDerived': ['cls', 'category_to_unit_and_exps', 'validate_category_and_units', 'unknown_unit_caption'],
 'src/barril/units/_quantity.py:Quantity:_CreateUnitsWithJoinedExponentsString': ['self'],
 'src/barril/units/_quantity.py:Quantity:_DoOperation': ['self', 'q1', 'q2', 'operation'],
 'src/barril/units/_quantity.py:Quantity:_GetComparison': ['cls', 'operator', 'use_literals'],
 'src/barril/units/_quantity.py:Quantity:_MakeStr': ['self', 'repr_and_exp'],
 'src/barril/units/_quantity.py:Quantity:_RaiseValueError': ['self', 'value', 'operator', 'limit_value', 'use_literals'],
 'src/barril/units/_scalar.py:Scalar:_DoOperation': ['self', 'p1', 'p2', 'operation', 'callback_operation'],
 'src/barril/units/_scalar.py:Scalar:_GetDefaultValue': ['self', 'category_info', 'unit'],
 'src/barril/units/_scalar.py:Scalar:_InternalCreateWithQuantity': ['self', 'quantity', 'value', 'unit_database'],
 'src/barril/units/scalar_validation/scalar_min_max_validator.py:ScalarMinMaxValidator:_ScalarCheckMsgPredicate': ['cls', 'scalar'],
 'src/barril/units/unit_database.py:UnitDatabase:_ConvertWithExp': ['self', 'quantity_type', 'from_unit_exps', 'to_unit_exps', 'value'],
 'src/barril/units/unit_database.py:UnitDatabase:_DoOperationResultingInNewQuantity': ['self',
                                                                                       'quantity1',
                                                                                       'quantity2',
                                                                                       'value1',
                                                                                       'value2',
                                                                                       'operation_exp',
                                                                                       'operation'],
 'src/barril/units/unit_database.py:UnitDatabase:_DoOperationWithSameQuantity': ['self', 'quantity1', 'quantity2', 'value1', 'value2', 'operation'],
 'src/barril/units/unit_database.py:UnitDatabase:_MatchQuantities': ['self', 'category_to_unit_and_exp1', 'category_to_unit_and_exp2', 'value1', 'value2'],
 'src/barril/units/unit_system_manager.py:UnitSystemManager:_CategoryUnitChange': ['self', 'category', 'unit'],
 'src/barril/units/unit_system_manager.py:UnitSystemManager:_CheckUnitSystemMapping': ['self', 'units_mapping', 'required_categories'],
 'src/barril/units/unit_system_manager.py:_IdentityWrap:_OnRefKilled': ['self', 'ref']}
