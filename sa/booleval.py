"""Truth-table evaluation of small boolean functions: a function whose result depends only on a
handful of boolean *atoms* (attribute flags, isinstance tests) is evaluated symbolically for every
assignment of the atoms - from its syntax (if/elif/else, return, and/or/not, conditional expressions,
locals bound to such expressions).  Nothing of the library is executed; an expression that is not a
boolean combination of atoms makes the evaluation give up (Unknown).
"""
import ast

from .flatten import _clone
import copy
import itertools


class Unknown(Exception):
    pass


class AstVal:
    """An expression kept symbolic (an operand such as `self.p1`): only atoms can look at it."""

    def __init__(self, expr):
        self.expr = expr


class _Subst(ast.NodeTransformer):
    def __init__(self, env):
        self.env = env

    def visit_Name(self, node):
        v = self.env.get(node.id)
        if isinstance(v, AstVal):
            return _clone(v.expr)
        return node


def _value(e, env, atom_of, asg):
    """Value of e, or the expression itself (symbolic) when it is not a boolean/int/list combination of atoms."""
    if getattr(atom_of, "auto", False) and isinstance(e, (ast.Attribute, ast.Subscript)):
        # (discovered atoms: a bare operand in element position stays symbolic; it becomes a leaf test only where
        # it is used as a condition)
        return AstVal(_Subst(env).visit(_clone(e)))
    if getattr(atom_of, "auto", False) and isinstance(e, ast.Name) and isinstance(env.get(e.id), AstVal):
        return env[e.id]
    try:
        return _eval(e, env, atom_of, asg)
    except Unknown:
        return AstVal(_Subst(env).visit(_clone(e)))


def _eval(e, env, atom_of, asg):
    if any(isinstance(v, AstVal) for v in env.values()) and any(isinstance(x, ast.Name) and isinstance(env.get(x.id), AstVal) for x in ast.walk(e)):
        k = atom_of(_Subst(env).visit(_clone(e)))  # (symbolic operands substituted first: the atom is about them)
    else:
        k = atom_of(e)
    if k is not None:
        return asg[k]
    if isinstance(e, ast.Constant) and isinstance(e.value, (bool, int)):
        return e.value
    if isinstance(e, ast.Name) and e.id in env:
        if isinstance(env[e.id], AstVal):
            if getattr(atom_of, "auto", False):
                return _eval(env[e.id].expr, {}, atom_of, asg)  # a symbolic operand used as a condition
            raise Unknown(ast.unparse(e))
        return env[e.id]
    if isinstance(e, ast.BoolOp):
        if isinstance(e.op, ast.And):
            r = True
            for v in e.values:
                r = _eval(v, env, atom_of, asg)
                if not r:
                    return r
            return r
        r = False
        for v in e.values:
            r = _eval(v, env, atom_of, asg)
            if r:
                return r
        return r
    if isinstance(e, ast.UnaryOp) and isinstance(e.op, ast.Not):
        return not _eval(e.operand, env, atom_of, asg)
    if isinstance(e, ast.IfExp):
        return _eval(e.body if _eval(e.test, env, atom_of, asg) else e.orelse, env, atom_of, asg)
    if isinstance(e, (ast.List, ast.Tuple)):
        return [_value(x, env, atom_of, asg) for x in e.elts]
    if isinstance(e, ast.Compare) and len(e.ops) == 1 and isinstance(e.ops[0], (ast.Is, ast.IsNot)):
        # `flag is True` / `flag is False` for an atom known to hold a real bool (atom_of.boolean): its truth value / the negation
        for x, c in ((e.left, e.comparators[0]), (e.comparators[0], e.left)):
            if isinstance(c, ast.Constant) and isinstance(c.value, bool):
                k = atom_of(x)
                if k is not None and k in getattr(atom_of, "boolean", ()):
                    return (asg[k] == c.value) == isinstance(e.ops[0], ast.Is)
    if isinstance(e, ast.Compare) and len(e.ops) == 1:
        l, r = _eval(e.left, env, atom_of, asg), _eval(e.comparators[0], env, atom_of, asg)
        if all(isinstance(x, (bool, int)) for x in (l, r)):
            op = e.ops[0]
            table = {ast.Gt: l > r, ast.GtE: l >= r, ast.Lt: l < r, ast.LtE: l <= r, ast.Eq: l == r, ast.NotEq: l != r}
            if type(op) in table:
                return table[type(op)]
    if isinstance(e, ast.Call) and isinstance(e.func, ast.Name) and not e.keywords:
        f = e.func.id
        if f == "len" and len(e.args) == 1:
            v = _eval(e.args[0], env, atom_of, asg)
            if isinstance(v, list):
                return len(v)
        if f == "bool" and len(e.args) == 1:
            return bool(_eval(e.args[0], env, atom_of, asg))
        if f in ("tuple", "list") and len(e.args) <= 1:
            if not e.args:
                return []
            v = _eval(e.args[0], env, atom_of, asg)
            if isinstance(v, list):
                return list(v)
        if f in ("all", "any") and len(e.args) == 1:
            seq = _eval(e.args[0], env, atom_of, asg)
            if isinstance(seq, list) and all(isinstance(x, (bool, int)) for x in seq):
                return all(seq) if f == "all" else any(seq)
    if isinstance(e, (ast.GeneratorExp, ast.ListComp)) and len(e.generators) == 1:
        g = e.generators[0]
        seq = _eval(g.iter, env, atom_of, asg)
        if isinstance(seq, list):
            outs = []
            for item in seq:
                env2 = dict(env)
                _bind(g.target, item, env2)
                if all(_eval(c, env2, atom_of, asg) for c in g.ifs):
                    outs.append(_value(e.elt, env2, atom_of, asg))
            return outs
    raise Unknown(ast.unparse(e))


def _bind(target, item, env):
    if isinstance(target, ast.Name):
        env[target.id] = item
    elif isinstance(target, (ast.Tuple, ast.List)) and isinstance(item, list) and len(item) == len(target.elts):
        for t, x in zip(target.elts, item):
            _bind(t, x, env)
    else:
        raise Unknown("binding of %s" % ast.unparse(target))


class _Return(Exception):
    def __init__(self, v):
        self.v = v


def _run(body, env, atom_of, asg):
    for st in body:
        if isinstance(st, ast.Expr) and isinstance(st.value, ast.Constant):
            continue
        if isinstance(st, ast.Return):
            raise _Return(_eval(st.value, env, atom_of, asg) if st.value is not None else None)
        if isinstance(st, ast.If):
            _run(st.body if _eval(st.test, env, atom_of, asg) else st.orelse, env, atom_of, asg)
            continue
        if isinstance(st, ast.Assign) and len(st.targets) == 1:
            t = st.targets[0]
            if isinstance(t, ast.Name):
                env[t.id] = _value(st.value, env, atom_of, asg)
                continue
            if isinstance(t, ast.Tuple) and isinstance(st.value, ast.Tuple) and len(t.elts) == len(st.value.elts) and all(isinstance(x, ast.Name) for x in t.elts):
                vals = [_eval(v, env, atom_of, asg) for v in st.value.elts]
                for x, v in zip(t.elts, vals):
                    env[x.id] = v
                continue
        if isinstance(st, ast.AnnAssign) and isinstance(st.target, ast.Name) and st.value is not None:
            env[st.target.id] = _eval(st.value, env, atom_of, asg)
            continue
        if isinstance(st, ast.AugAssign) and isinstance(st.target, ast.Name) and isinstance(st.op, ast.Add) and isinstance(env.get(st.target.id), int):
            env[st.target.id] = env[st.target.id] + _eval(st.value, env, atom_of, asg)
            continue
        if isinstance(st, ast.Expr) and isinstance(st.value, ast.Call) and isinstance(st.value.func, ast.Attribute) and st.value.func.attr == "append" \
                and isinstance(st.value.func.value, ast.Name) and isinstance(env.get(st.value.func.value.id), list) and len(st.value.args) == 1:
            env[st.value.func.value.id].append(_value(st.value.args[0], env, atom_of, asg))
            continue
        if isinstance(st, ast.For) and not st.orelse:
            seq = _eval(st.iter, env, atom_of, asg)
            if isinstance(seq, list):
                for item in list(seq):
                    _bind(st.target, item, env)
                    _run(st.body, env, atom_of, asg)
                continue
        if isinstance(st, ast.Pass):
            continue
        raise Unknown("statement %s" % type(st).__name__)
    return None


def truth_table(fn_node, atoms, atom_of):
    """{assignment tuple (in the order of `atoms`): returned boolean}"""
    out = {}
    for vals in itertools.product([False, True], repeat=len(atoms)):
        asg = dict(zip(atoms, vals))
        try:
            _run(fn_node.body, {}, atom_of, asg)
            r = None
        except _Return as rr:
            r = rr.v
        out[vals] = bool(r)
    return out


NOT_LEAVES = (ast.BoolOp, ast.UnaryOp, ast.IfExp, ast.Constant, ast.List, ast.Tuple, ast.GeneratorExp, ast.ListComp, ast.Name, ast.NamedExpr)
STRUCTURAL_CALLS = ("any", "all", "bool", "len", "tuple", "list")


def truth_table_auto(fn_node, max_atoms=10):
    """(atoms, {assignment tuple: returned boolean}) where the atoms are discovered: every sub-expression that is
    not boolean structure (and/or/not, conditional expressions, any/all over literal sequences, locals) is a leaf
    test, named by its text after substitution of symbolic operands.  Raises Unknown when the function is not a
    boolean combination of such leaves, or has more than max_atoms of them."""
    atoms = []
    for _round in range(max_atoms + 2):
        new = []

        def atom_of(e):
            if isinstance(e, NOT_LEAVES):
                return None
            if isinstance(e, ast.Call) and isinstance(e.func, ast.Name) and e.func.id in STRUCTURAL_CALLS:
                return None
            if isinstance(e, ast.Compare) and len(e.ops) == 1 and any(isinstance(x, ast.Call) and isinstance(x.func, ast.Name) and x.func.id == "len" for x in (e.left, e.comparators[0])) \
                    and any(isinstance(x, ast.Constant) for x in (e.left, e.comparators[0])):
                return None  # a length compared with a constant is structure, not a leaf
            k = ast.unparse(e).replace(" ", "")
            if k in atoms:
                return k
            if k not in new:
                new.append(k)
            return "*new*"

        atom_of.auto = True
        out = {}
        for vals in itertools.product([False, True], repeat=len(atoms)):
            asg = dict(zip(atoms, vals))
            asg["*new*"] = False
            try:
                _run(fn_node.body, {}, atom_of, asg)
                r = None
            except _Return as rr:
                r = rr.v
            out[vals] = bool(r)
        if not new:
            return atoms, out
        atoms += new
        if len(atoms) > max_atoms:
            raise Unknown("more than %d leaf tests" % max_atoms)
    raise Unknown("leaf discovery did not converge")
