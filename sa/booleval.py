"""Truth-table evaluation of small boolean functions: a function whose result depends only on a
handful of boolean *atoms* (attribute flags, isinstance tests) is evaluated symbolically for every
assignment of the atoms - from its syntax (if/elif/else, return, and/or/not, conditional expressions,
locals bound to such expressions).  Nothing of the library is executed; an expression that is not a
boolean combination of atoms makes the evaluation give up (Unknown).
"""
import ast
import itertools


class Unknown(Exception):
    pass


def _eval(e, env, atom_of, asg):
    k = atom_of(e)
    if k is not None:
        return asg[k]
    if isinstance(e, ast.Constant) and isinstance(e.value, bool):
        return e.value
    if isinstance(e, ast.Name) and e.id in env:
        return env[e.id]
    if isinstance(e, ast.BoolOp):
        if isinstance(e.op, ast.And):
            r = True
            for v in e.values:
                r = _eval(v, env, atom_of, asg)
                if not r:
                    return r
            return r
        r = False
        for v in e.values:
            r = _eval(v, env, atom_of, asg)
            if r:
                return r
        return r
    if isinstance(e, ast.UnaryOp) and isinstance(e.op, ast.Not):
        return not _eval(e.operand, env, atom_of, asg)
    if isinstance(e, ast.IfExp):
        return _eval(e.body if _eval(e.test, env, atom_of, asg) else e.orelse, env, atom_of, asg)
    raise Unknown(ast.unparse(e))


class _Return(Exception):
    def __init__(self, v):
        self.v = v


def _run(body, env, atom_of, asg):
    for st in body:
        if isinstance(st, ast.Expr) and isinstance(st.value, ast.Constant):
            continue
        if isinstance(st, ast.Return):
            raise _Return(_eval(st.value, env, atom_of, asg) if st.value is not None else None)
        if isinstance(st, ast.If):
            _run(st.body if _eval(st.test, env, atom_of, asg) else st.orelse, env, atom_of, asg)
            continue
        if isinstance(st, ast.Assign) and len(st.targets) == 1:
            t = st.targets[0]
            if isinstance(t, ast.Name):
                env[t.id] = _eval(st.value, env, atom_of, asg)
                continue
            if isinstance(t, ast.Tuple) and isinstance(st.value, ast.Tuple) and len(t.elts) == len(st.value.elts) and all(isinstance(x, ast.Name) for x in t.elts):
                vals = [_eval(v, env, atom_of, asg) for v in st.value.elts]
                for x, v in zip(t.elts, vals):
                    env[x.id] = v
                continue
        if isinstance(st, ast.Pass):
            continue
        raise Unknown("statement %s" % type(st).__name__)
    return None


def truth_table(fn_node, atoms, atom_of):
    """{assignment tuple (in the order of `atoms`): returned boolean}"""
    out = {}
    for vals in itertools.product([False, True], repeat=len(atoms)):
        asg = dict(zip(atoms, vals))
        try:
            _run(fn_node.body, {}, atom_of, asg)
            r = None
        except _Return as rr:
            r = rr.v
        out[vals] = bool(r)
    return out
