"""A2 statement-level control-flow graph with labelled edges and the few path queries the rules use.

Nodes: ENTRY, EXIT (normal return / fall off the end), RAISE (leaves by exception), and one node per
simple statement or branch condition.  Conditions made of `and` / `or` / `not` are split into one
node per leaf so that every leaf gets its own true/false edges (guard facts).  Edge labels:
  'T' / 'F'  outcome of a test or "loop has another item" / "loop exhausted"
  'exc'      exception edge into a handler (only from statements inside a try body)
  None       plain sequencing
"""
import ast
import collections

from .report import AnalysisError

SIMPLE = (
    ast.Assign, ast.AugAssign, ast.AnnAssign, ast.Expr, ast.Delete, ast.Pass, ast.Import,
    ast.ImportFrom, ast.Global, ast.Nonlocal, ast.FunctionDef, ast.AsyncFunctionDef, ast.ClassDef,
)


class CFG:
    def __init__(self, fn_node):
        self.fn_node = fn_node
        self.kind = {}
        self.ast = {}
        self.succ = collections.defaultdict(list)  # id -> [(id, label)]
        self.pred = collections.defaultdict(list)
        self._n = 0
        self.ENTRY = self._new("ENTRY", None)
        self.EXIT = self._new("EXIT", None)
        self.RAISE = self._new("RAISE", None)
        self._loops = []  # (header id, break exits list)
        self._handlers = []  # stack of lists of handler node ids
        self._finally = []
        self.by_ast = {}  # id(ast stmt or test leaf) -> node id
        ends = self._block(fn_node.body, [(self.ENTRY, None)])
        for e in ends:
            self._edge(e, self.EXIT)

    # ------------------------------------------------------------------ construction
    def _new(self, kind, node):
        self._n += 1
        self.kind[self._n] = kind
        self.ast[self._n] = node
        if node is not None:
            self.by_ast.setdefault(id(node), self._n)
        return self._n

    def _edge(self, src, dst):
        a, label = src
        if (dst, label) not in self.succ[a]:
            self.succ[a].append((dst, label))
            self.pred[dst].append((a, label))

    def _link(self, preds, n):
        for p in preds:
            self._edge(p, n)

    def _exc_targets(self):
        return self._handlers[-1] if self._handlers else [self.RAISE]

    def _may_raise(self, nid, *exprs, explicit=False):
        """Exception edges.  Inside a try body every statement that evaluates a call, subscript or
        attribute may jump to each handler.  Outside a try only explicit raise/assert get an edge."""
        if explicit:
            for t in self._exc_targets():
                self._edge((nid, "exc"), t)
            if self._handlers:
                # a typed handler may not match: the exception can also propagate outwards
                self._edge((nid, "exc"), self.RAISE)
            return
        if self._handlers:
            for e in exprs:
                if e is None:
                    continue
                if any(isinstance(x, (ast.Call, ast.Subscript, ast.Attribute, ast.BinOp, ast.Compare)) for x in ast.walk(e)):
                    for t in self._handlers[-1]:
                        self._edge((nid, "exc"), t)
                    break

    def _block(self, body, preds):
        cur = list(preds)
        for st in body:
            cur = self._stmt(st, cur)
        return cur

    def _test(self, expr, preds, owner):
        """Split a condition into leaf test nodes.  Returns (true_exits, false_exits)."""
        if isinstance(expr, ast.BoolOp):
            if isinstance(expr.op, ast.And):
                cur = preds
                falses = []
                for v in expr.values:
                    t, f = self._test(v, cur, owner)
                    falses += f
                    cur = t
                return cur, falses
            else:
                cur = preds
                trues = []
                for v in expr.values:
                    t, f = self._test(v, cur, owner)
                    trues += t
                    cur = f
                return trues, cur
        if isinstance(expr, ast.UnaryOp) and isinstance(expr.op, ast.Not):
            t, f = self._test(expr.operand, preds, owner)
            return f, t
        n = self._new("test", expr)
        expr._owner = owner
        self._link(preds, n)
        self._may_raise(n, expr)
        return [(n, "T")], [(n, "F")]

    def _stmt(self, st, preds):
        if isinstance(st, SIMPLE):
            n = self._new("stmt", st)
            self._link(preds, n)
            if not isinstance(st, (ast.FunctionDef, ast.AsyncFunctionDef, ast.ClassDef)):
                self._may_raise(n, st)
            return [(n, None)]
        if isinstance(st, ast.If):
            self.by_ast.setdefault(id(st), self._n + 1)
            t, f = self._test(st.test, preds, st)
            a = self._block(st.body, t)
            b = self._block(st.orelse, f) if st.orelse else f
            return a + b
        if isinstance(st, (ast.For, ast.AsyncFor)):
            h = self._new("loop", st)
            self._link(preds, h)
            self._may_raise(h, st.iter)
            brk = []
            self._loops.append((h, brk))
            body_end = self._block(st.body, [(h, "T")])
            self._loops.pop()
            self._link(body_end, h)
            out = self._block(st.orelse, [(h, "F")]) if st.orelse else [(h, "F")]
            return out + brk
        if isinstance(st, ast.While):
            # header node to give `continue` a target; then the test leaves
            h = self._new("while", st)
            self._link(preds, h)
            t, f = self._test(st.test, [(h, None)], st)
            brk = []
            self._loops.append((h, brk))
            body_end = self._block(st.body, t)
            self._loops.pop()
            self._link(body_end, h)
            out = self._block(st.orelse, f) if st.orelse else f
            return out + brk
        if isinstance(st, ast.Break):
            n = self._new("break", st)
            self._link(preds, n)
            if not self._loops:
                raise AnalysisError("break outside loop")
            self._loops[-1][1].append((n, None))
            return []
        if isinstance(st, ast.Continue):
            n = self._new("continue", st)
            self._link(preds, n)
            self._edge((n, None), self._loops[-1][0])
            return []
        if isinstance(st, ast.Return):
            if isinstance(st.value, ast.IfExp):
                # `return A if C else B` is the same as `if C: return A` / `else: return B`:
                # split it so that facts about C are available at each returned value
                self.by_ast.setdefault(id(st), self._n + 1)
                return self._return_ifexp(st, st.value, preds)
            n = self._new("return", st)
            self._link(preds, n)
            self._may_raise(n, st.value)
            self._edge((n, None), self.EXIT)
            return []
        if isinstance(st, ast.Raise):
            n = self._new("raise", st)
            self._link(preds, n)
            self._may_raise(n, explicit=True)
            return []
        if isinstance(st, ast.Assert):
            n = self._new("assert", st)
            self._link(preds, n)
            self._may_raise(n, explicit=True)
            return [(n, None)]
        if isinstance(st, (ast.Try,)) or st.__class__.__name__ == "TryStar":
            hs = [self._new("except", h) for h in st.handlers]
            self._handlers.append(hs)
            body_end = self._block(st.body, preds)
            self._handlers.pop()
            outs = self._block(st.orelse, body_end) if st.orelse else list(body_end)
            for h, hn in zip(st.handlers, hs):
                outs += self._block(h.body, [(hn, None)])
            if st.finalbody:
                outs = self._block(st.finalbody, outs)
            return outs
        if isinstance(st, (ast.With, ast.AsyncWith)):
            n = self._new("with", st)
            self._link(preds, n)
            self._may_raise(n, *[i.context_expr for i in st.items])
            return self._block(st.body, [(n, None)])
        raise AnalysisError("CFG: statement kind not modelled: %s (line %s)" % (type(st).__name__, getattr(st, "lineno", "?")))

    def _return_ifexp(self, st, e, preds):
        t, f = self._test(e.test, preds, st)
        for val, ps in ((e.body, t), (e.orelse, f)):
            if isinstance(val, ast.IfExp):
                self._return_ifexp(st, val, ps)
                continue
            syn = ast.Return(value=val)
            ast.copy_location(syn, val)
            syn._parent = getattr(st, "_parent", None)
            syn._synthetic_of = st
            n = self._new("return", syn)
            self.by_ast.setdefault(id(val), n)
            self._link(ps, n)
            self._may_raise(n, val)
            self._edge((n, None), self.EXIT)
        return []

    # ------------------------------------------------------------------ queries
    def nodes(self, kind=None, pred=None):
        for n, k in self.kind.items():
            if kind is not None and k != kind and (not isinstance(kind, tuple) or k not in kind):
                continue
            if pred is not None and (self.ast[n] is None or not pred(self.ast[n])):
                continue
            yield n

    def node_of(self, ast_node):
        """CFG node of a statement or test leaf; for an expression, the node of its enclosing
        statement / leaf."""
        x = ast_node
        while x is not None:
            if id(x) in self.by_ast:
                return self.by_ast[id(x)]
            x = getattr(x, "_parent", None)
        raise AnalysisError("CFG: no node for AST at line %s" % getattr(ast_node, "lineno", "?"))

    def reach(self, src, avoid=(), avoid_edges=(), start_edges=None):
        """Nodes reachable from src (excluding src unless on a cycle), never entering `avoid`
        nodes and never taking `avoid_edges` (set of (a, b, label))."""
        seen = set()
        todo = [src]
        first = True
        while todo:
            x = todo.pop()
            for (y, lab) in self.succ[x]:
                if first and start_edges is not None and lab not in start_edges:
                    continue
                if y in seen or y in avoid or (x, y, lab) in avoid_edges:
                    continue
                seen.add(y)
                todo.append(y)
            first = False
        return seen

    def dominated_by_node(self, target, matcher):
        """Every path ENTRY -> target passes a node n with matcher(kind, ast) true."""
        avoid = {n for n in self.kind if self.ast[n] is not None and matcher(self.kind[n], self.ast[n])}
        if target in avoid:
            return True
        return target not in self.reach(self.ENTRY, avoid) and target != self.ENTRY

    def dominating_edges(self, target):
        """Set of (test node, label) such that every path ENTRY -> target takes that labelled
        edge out of the test node.  (Graphs are tiny; brute force per labelled edge.)"""
        out = set()
        base = self.reach(self.ENTRY) | {self.ENTRY}
        if target not in base:
            return out
        for a in list(self.kind):
            if self.kind[a] not in ("test", "loop"):
                continue
            for (b, lab) in self.succ[a]:
                if lab not in ("T", "F"):
                    continue
                # remove all edges out of `a` with this label; is target still reachable?
                avoid_e = {(a, b2, l2) for (b2, l2) in self.succ[a] if l2 == lab}
                if target == a:
                    continue
                r = self.reach(self.ENTRY, avoid_edges=avoid_e)
                if target not in r:
                    out.add((a, lab))
        return out

    def facts_at(self, target):
        """Dominating test outcomes at target as (leaf expr ast, bool)."""
        return [(self.ast[a], lab == "T") for (a, lab) in self.dominating_edges(target) if self.kind[a] == "test"]

    def paths_from_avoiding(self, src, matcher):
        """Nodes reachable from src without passing a node matching matcher."""
        avoid = {n for n in self.kind if self.ast[n] is not None and matcher(self.kind[n], self.ast[n])}
        return self.reach(src, avoid)

    def must_raise_from(self, edges):
        """From the given start edges [(node, label)], every path ends in RAISE (never EXIT)
        and does not loop forever silently: EXIT unreachable and RAISE reachable."""
        seen = set()
        todo = []
        for (a, lab) in edges:
            for (b, l2) in self.succ[a]:
                if l2 == lab:
                    todo.append(b)
        while todo:
            x = todo.pop()
            if x in seen:
                continue
            seen.add(x)
            for (y, lab) in self.succ[x]:
                todo.append(y)
        return self.EXIT not in seen and self.RAISE in seen

    def exit_requires_edge(self, nid, label):
        """Every path ENTRY -> EXIT (normal return / fall off the end) takes the `label` edge out of
        test node `nid`."""
        avoid_e = {(nid, b, l) for (b, l) in self.succ[nid] if l == label}
        return self.EXIT not in self.reach(self.ENTRY, avoid_edges=avoid_e)

    def consistent_states(self, key_of, start=None):
        """Path-sensitive reachability with correlated tests: tests that `key_of` maps to the same key
        are assumed to have the same outcome along one path (the same boolean local tested twice, the
        same comparison repeated in an elif chain).  key_of(node id) -> (key, flipped) or None; the T
        edge of the node means key == (not flipped).  Returns {node: set of frozenset((key, bool))}: the
        assignments with which each node can be reached from `start` (default ENTRY)."""
        start = self.ENTRY if start is None else start
        seen = {}
        todo = [(start, frozenset())]
        while todo:
            n, asg = todo.pop()
            if asg in seen.setdefault(n, set()):
                continue
            seen[n].add(asg)
            k = key_of(n) if self.kind[n] == "test" else None
            d = dict(asg)
            for (b, lab) in self.succ[n]:
                if k is not None and lab in ("T", "F"):
                    key, flipped = k
                    val = (lab == "T") != flipped
                    if key in d:
                        if d[key] != val:
                            continue
                        todo.append((b, asg))
                    else:
                        todo.append((b, frozenset(list(asg) + [(key, val)])))
                else:
                    todo.append((b, asg))
        return seen

    def forward_must(self, entry_state, transfer):
        """Forward must-dataflow over frozensets: IN[n] = intersection over incoming edges (p, label) of
        transfer(p, IN[p], label); unvisited predecessors do not constrain.  Returns {node: frozenset} for
        every node reachable from ENTRY."""
        IN = {self.ENTRY: frozenset(entry_state)}
        work = [self.ENTRY]
        while work:
            n = work.pop()
            for (b, lab) in self.succ[n]:
                out = frozenset(transfer(n, IN[n], lab))
                new = out if b not in IN else (IN[b] & out)
                if b not in IN or new != IN[b]:
                    IN[b] = new
                    work.append(b)
        return IN

    def returns(self):
        return [n for n in self.kind if self.kind[n] == "return"]

    def normal_exits(self):
        """Predecessor nodes of EXIT (return statements and fall-through ends)."""
        return [a for (a, lab) in self.pred[self.EXIT]]

    def postdominated_by(self, src, matcher, exits=None):
        """Every path from src to a normal EXIT passes a node matching matcher (after src)."""
        avoid = {n for n in self.kind if self.ast[n] is not None and matcher(self.kind[n], self.ast[n])}
        r = self.reach(src, avoid)
        return self.EXIT not in r


def definitely_assigned(cfg, name, use_node):
    """True when every path ENTRY -> use_node passes an assignment to `name`
    (Assign/AugAssign/AnnAssign/For target/with-as/except-as/import/def)."""

    def assigns(kind, node):
        targets = []
        if isinstance(node, ast.Assign):
            targets = node.targets
        elif isinstance(node, (ast.AugAssign, ast.AnnAssign)):
            if isinstance(node, ast.AnnAssign) and node.value is None:
                return False
            targets = [node.target]
        elif isinstance(node, (ast.For, ast.AsyncFor)):
            return False  # the target is bound only on the 'T' edge; handled below
        elif isinstance(node, (ast.With, ast.AsyncWith)):
            targets = [i.optional_vars for i in node.items if i.optional_vars is not None]
        elif isinstance(node, (ast.FunctionDef, ast.ClassDef)):
            return node.name == name
        elif isinstance(node, (ast.Import, ast.ImportFrom)):
            return any((a.asname or a.name.split(".")[0]) == name for a in node.names)
        elif isinstance(node, ast.ExceptHandler):
            return node.name == name
        for t in targets:
            for x in ast.walk(t):
                if isinstance(x, ast.Name) and x.id == name and isinstance(x.ctx, ast.Store):
                    return True
        return False

    avoid = {n for n in cfg.kind if cfg.ast[n] is not None and assigns(cfg.kind[n], cfg.ast[n])}
    # loop headers whose target binds the name: only the 'T' edge binds
    avoid_edges = set()
    for n in cfg.kind:
        node = cfg.ast[n]
        if cfg.kind[n] == "loop" and any(
            isinstance(x, ast.Name) and x.id == name for x in ast.walk(node.target)
        ):
            for (b, lab) in cfg.succ[n]:
                if lab == "T":
                    avoid_edges.add((n, b, lab))
    if use_node in avoid:
        return True
    r = cfg.reach(cfg.ENTRY, avoid, avoid_edges)
    return use_node not in r
