"""Positive controls of the thorough tier: seeded faults applied *in memory* (source overlays, no
scratch copies) to the tree under analysis.  Each control must turn its rule red.  A control whose
anchor text is absent on the current tree is skipped; a missed control is fatal (exit 2) only with
VERIF_STRICT_CONTROLS=1 (on an externally edited tree a miss says something about the rule, not
about barril).  The thorough tier also re-derives the table by an independent dumb extractor.
"""
import concurrent.futures
import os

from .report import AnalysisError
from .srcmodel import repo_root

UD = "src/barril/units/unit_database.py"
Q = "src/barril/units/_quantity.py"
P = "src/barril/units/posc.py"
S = "src/barril/units/_scalar.py"
A = "src/barril/units/_abstractvaluewithquantity.py"
AR = "src/barril/units/_array.py"
FA = "src/barril/units/_fixedarray.py"
FS = "src/barril/units/_fraction_scalar.py"
VG = "src/barril/units/_value_generator.py"
USM = "src/barril/units/unit_system_manager.py"
US = "src/barril/units/unit_system.py"
CU = "src/barril/curve/curve.py"
FR = "src/barril/basic/fraction/_fraction.py"
FV = "src/barril/basic/fraction/_fraction_value.py"
TY = "src/barril/_util/types_.py"

# property -> [(name, [(file, old, new), ...], rule that must fire)]
CONTROLS = {}


def control(prop, name, edits, rule):
    CONTROLS.setdefault(prop, []).append((name, edits, rule))


# ------------------------------------------------------------------------------------------ C01
control("C01", "one digit changed in one coefficient tuple of an untested row",
        [(P, '    f_base_to_unit = MakeBaseToCustomary(0.0, 16.01846, 1.0, 0.0)\n    db.AddUnit(\n        "density",\n        "pounds mass/cubic foot",', '    f_base_to_unit = MakeBaseToCustomary(0.0, 16.01847, 1.0, 0.0)\n    db.AddUnit(\n        "density",\n        "pounds mass/cubic foot",')], "C01.R2")
control("C01", "negative slope on one row",
        [(P, '    f_unit_to_base = MakeCustomaryToBase(0.0, 16.01846, 1.0, 0.0)\n    f_base_to_unit = MakeBaseToCustomary(0.0, 16.01846, 1.0, 0.0)\n    db.AddUnit(\n        "density",\n        "pounds mass/cubic foot",',
          '    f_unit_to_base = MakeCustomaryToBase(0.0, -16.01846, 1.0, 0.0)\n    f_base_to_unit = MakeBaseToCustomary(0.0, -16.01846, 1.0, 0.0)\n    db.AddUnit(\n        "density",\n        "pounds mass/cubic foot",')], "C01.R2")
control("C01", "same-unit shortcut dropped from UnitDatabase.Convert",
        [(UD, "        # same unit: no conversion needed\n        if from_unit == to_unit:\n            return value\n\n        # simple operations", "        # simple operations")], "C01.R4")
control("C01", "list branch converts in the wrong direction",
        [(UD, "            frombase = other.frombase\n            tobase = this.tobase", "            frombase = this.frombase\n            tobase = other.tobase")], "C01.R4")
control("C01", "FillSimple fix reverted",
        [(UD, '"min", "%f / 60.0", " %f * 60.0"', '"min", "%f * 60.0", " %f * 60.0"')], "C01.R2")
control("C01", "from-base factory loses a sign",
        [(P, "        return (a - c * y) / (d * y - b)", "        return (a - c * y) / (d * y + b)")], "C01.R1")
control("C01", "base units registered with a non-identity function",
        [(UD, "        def identity(x: Any) -> Any:\n            return x", "        def identity(x: Any) -> Any:\n            return x * 1.0000001")], "C01.R3")
# ------------------------------------------------------------------------------------------ C06
control("C06", "both coefficients of lbm/ft3 multiplied by 10",
        [(P, '    f_unit_to_base = MakeCustomaryToBase(0.0, 16.01846, 1.0, 0.0)\n    f_base_to_unit = MakeBaseToCustomary(0.0, 16.01846, 1.0, 0.0)\n    db.AddUnit(\n        "density",\n        "pounds mass/cubic foot",',
          '    f_unit_to_base = MakeCustomaryToBase(0.0, 160.1846, 1.0, 0.0)\n    f_base_to_unit = MakeBaseToCustomary(0.0, 160.1846, 1.0, 0.0)\n    db.AddUnit(\n        "density",\n        "pounds mass/cubic foot",')], "C06.R1")
control("C06", "digit transposition in ft (both closures)",
        [(P, '    f_unit_to_base = MakeCustomaryToBase(0.0, 0.3048, 1.0, 0.0)\n    f_base_to_unit = MakeBaseToCustomary(0.0, 0.3048, 1.0, 0.0)\n    db.AddUnit("length", "foot", "ft"',
          '    f_unit_to_base = MakeCustomaryToBase(0.0, 0.3084, 1.0, 0.0)\n    f_base_to_unit = MakeBaseToCustomary(0.0, 0.3084, 1.0, 0.0)\n    db.AddUnit("length", "foot", "ft"')], "C06.R1")
control("C06", "kPa set to 100",
        [(P, '    f_unit_to_base = MakeCustomaryToBase(0.0, 1000, 1.0, 0.0)\n    f_base_to_unit = MakeBaseToCustomary(0.0, 1000, 1.0, 0.0)\n    db.AddUnit(\n        "pressure", "kilopascals", "kPa"',
          '    f_unit_to_base = MakeCustomaryToBase(0.0, 100, 1.0, 0.0)\n    f_base_to_unit = MakeBaseToCustomary(0.0, 100, 1.0, 0.0)\n    db.AddUnit(\n        "pressure", "kilopascals", "kPa"')], "C06.R2")
# ------------------------------------------------------------------------------------------ C14
control("C14", "unit map written without the duplicate test",
        [(UD, "        if unit in self.unit_to_unit_info:\n            raise RuntimeError(\n                \"Unit: %s already added to the unit database for the quantity type: %s (trying to add to: %s)\"\n                % (unit, self.unit_to_unit_info[unit].quantity_type, quantity_type)\n            )\n        else:\n            self.unit_to_unit_info[unit] = info",
          "        self.unit_to_unit_info[unit] = info")], "C14.R3")
control("C14", "base unit inserted at index 1",
        [(UD, "        del infos[-1]\n        infos.insert(0, base)", "        del infos[-1]\n        infos.insert(1, base)")], "C14.R4")
control("C14", "dangling default_category on one row",
        [(P, '        "<stat>",\n        "<stat>",\n        f_base_to_unit,\n        f_unit_to_base,\n        default_category="status",',
          '        "<stat>",\n        "<stat>",\n        f_base_to_unit,\n        f_unit_to_base,\n        default_category="statuss",')], "C14.R7")
control("C14", "category registered after a raise-able check is moved: store before the default-value assertions",
        [(UD, "        if from_category and quantity_type:\n            raise ValueError(\"cannot pass both quantity_type and from_category\")",
          "        self.categories_to_quantity_types[category] = None  # type:ignore\n        if from_category and quantity_type:\n            raise ValueError(\"cannot pass both quantity_type and from_category\")")], "C14.R2")
control("C14", "a query method clears a registry map",
        [(UD, "        return sorted(self.quantity_types.keys())", "        self.unit_to_unit_info.pop(None, None)\n        return sorted(self.quantity_types.keys())")], "C14.R1")
# ------------------------------------------------------------------------------------------ C16
control("C16", "substitution that captures current symbols",
        [(UD, '    ("gmole", "gmol"),', '    ("gmole", "gmol"), ("kg", "kilogram"),')], "C16.R2")
control("C16", "non-idempotent pair",
        [(UD, '    ("1000m3", "Mm3"),', '    ("1000m3", "Mm3"), ("Mm3/d", "Mm3/day"),')], "C16.R3")
control("C16", "GetDefaultCategory loses its legacy fallback",
        [(UD, "            is_legacy, fixed_unit = FixUnitIfIsLegacy(unit)\n            if not is_legacy:\n                return None\n            unit_info = self.unit_to_unit_info[fixed_unit]", "            return None")], "C16.R4")
control("C16", "Quantity.__init__ stores the unfixed unit",
        [(Q, "                is_legacy, unit = FixUnitIfIsLegacy(unit)\n                if is_legacy:\n                    unit_database.CheckCategoryUnit(category, unit)",
          "                is_legacy, fixed = FixUnitIfIsLegacy(unit)\n                if is_legacy:\n                    unit_database.CheckCategoryUnit(category, fixed)")], "C16.R5")
control("C16", "Convert looks units up without legacy fixing",
        [(UD, "        this = self.GetInfo(quantity_type, from_unit, fix_unknown=True)", "        this = self.GetInfo(quantity_type, from_unit, fix_unknown=True, fix_legacy=False)")], "C16.R4")
# ------------------------------------------------------------------------------------------ C19
control("C19", "dangling default_category on one row",
        [(P, '        "<stat>",\n        "<stat>",\n        f_base_to_unit,\n        f_unit_to_base,\n        default_category="status",',
          '        "<stat>",\n        "<stat>",\n        f_base_to_unit,\n        f_unit_to_base,\n        default_category="statuss",')], "C19.R1")
control("C19", "repr swaps unit and category",
        [(S, "self.__class__.__name__, self._value, self.GetUnit(), self.GetCategory()", "self.__class__.__name__, self._value, self.GetCategory(), self.GetUnit()")], "C19.R3")
control("C19", "wrong positional rotation",
        [(A, "value, unit, category = category, value, unit  # type", "value, unit, category = category, unit, value  # type")], "C19.R2")
control("C19", "default category resolution ignores default_category",
        [(UD, "        category = unit_info.default_category\n        if category:\n            return category\n        category = unit_info.quantity_type", "        category = unit_info.quantity_type")], "C19.R1b")
control("C19", "category-only form takes the base unit instead of the default unit",
        [(A, "                        unit = category_info.default_unit\n                        assert unit is not None", "                        unit = unit_database.GetBaseUnit(category_info.quantity_type)\n                        assert unit is not None")], "C19.R2")


# ------------------------------------------------------------------------------------------ C07
control("C07", "deepcopy dropped before _MatchQuantities",
        [(UD, "            category_to_unit_and_exp1 = copy.deepcopy(quantity1.GetCategoryToUnitAndExps())", "            category_to_unit_and_exp1 = quantity1.GetCategoryToUnitAndExps()")], "C07.R3")
control("C07", "deepcopy weakened to a shallow copy",
        [(UD, "            category_to_unit_and_exp2 = copy.deepcopy(quantity2.GetCategoryToUnitAndExps())", "            category_to_unit_and_exp2 = copy.copy(quantity2.GetCategoryToUnitAndExps())")], "C07.R3")
control("C07", "GetCategoryToUnitAndExpsCopy shares the inner lists",
        [(Q, "            (category, unit_and_exp[:]) for (category, unit_and_exp) in unit_and_exps.items()", "            (category, unit_and_exp) for (category, unit_and_exp) in unit_and_exps.items()")], "C07.R3")
control("C07", "_CreateDerived keeps the caller's inner lists",
        [(Q, "                (category, unit_and_exp[:])\n                for (category, unit_and_exp) in category_to_unit_and_exps.items()", "                (category, unit_and_exp)\n                for (category, unit_and_exp) in category_to_unit_and_exps.items()")], "C07.R4")
control("C07", "caption dropped from a cache key",
        [(Q, "        key_with_resolved_category = (category, unit, unknown_unit_caption)", "        key_with_resolved_category = (category, unit)")], "C07.R5")
control("C07", "a constructed quantity is not interned",
        [(Q, "        quantities_cache[key] = quantity = Quantity(category, unit, unknown_unit_caption)\n        return quantity", "        quantity = Quantity(category, unit, unknown_unit_caption)\n        return quantity")], "C07.R5")
control("C07", "__eq__ ignores the caption",
        [(Q, "            == tuple(other._category_to_unit_and_exps.items())\n            and self._unknown_unit_caption == other._unknown_unit_caption", "            == tuple(other._category_to_unit_and_exps.items())")], "C07.R6")
control("C07", "__hash__ adds the unit string",
        [(Q, "            lst.append(self._unknown_unit_caption)  # type:ignore[arg-type]", "            lst.append(self._unknown_unit_caption)  # type:ignore[arg-type]\n            lst.append(self._tobase)")], "C07.R6")
control("C07", "__deepcopy__ returns a new object",
        [(Q, "    def __deepcopy__(self, *args: object, **kwargs: object) -> \"Quantity\":\n        \"\"\"\n        As we're now immutable, always return itself.\n        \"\"\"\n        return self",
          "    def __deepcopy__(self, *args: object, **kwargs: object) -> \"Quantity\":\n        \"\"\"\n        As we're now immutable, always return itself.\n        \"\"\"\n        return Quantity(self._category, self._unit)")], "C07.R7")
control("C07", "__reduce__ forgets the trailing None",
        [(Q, "        else:\n            lst.append(None)\n        return _ObtainReduced, (lst,)", "        return _ObtainReduced, (lst,)")], "C07.R8")
control("C07", "a getter rebinds a frozen slot",
        [(Q, "    def GetQuantityType(self) -> str:\n        return self._quantity_type", "    def GetQuantityType(self) -> str:\n        self._unit = self._unit.strip()\n        return self._quantity_type")], "C07.R1")
control("C07", "a setter stops raising",
        [(Q, "        raise ReadOnlyError(\"Quantity is now read-only.\")", "        self._unknown_unit_caption = caption")], "C07.R2")
control("C07", "removal loop edits the operand's own map",
        [(UD, "        category_to_unit_and_exp1 = quantity1.GetCategoryToUnitAndExpsCopy()", "        category_to_unit_and_exp1 = quantity1.GetCategoryToUnitAndExps()")], "C07.R3")
# ------------------------------------------------------------------------------------------ C15
control("C15", "GetValidUnits fix reverted (appends to the registry's list)",
        [(A, "        valid_units = list(self.GetUnitDatabase().GetValidUnits(self.GetCategory()))", "        valid_units = self.GetUnitDatabase().GetValidUnits(self.GetCategory())")], "C15.R2")
control("C15", "a getter writes a registry map",
        [(UD, "        return sorted(self.quantity_types.keys())", "        self.unit_to_unit_info.pop(None, None)\n        return sorted(self.quantity_types.keys())")], "C15.R1")
control("C15", "a query sorts the per-type list it got by reference",
        [(UD, "        infos = self.GetInfos(category_info.quantity_type)\n\n        matched = []", "        infos = self.GetInfos(category_info.quantity_type)\n        infos.sort(key=lambda i: i.unit)\n\n        matched = []")], "C15.R2")
control("C15", "Clear stops clearing the verdict memo",
        [(UD, "        self.quantities_cache.clear()\n        self._category_unit_valid.clear()", "        self.quantities_cache.clear()")], "C15.R3")
control("C15", "AddUnit stops clearing the verdict memo (fix reverted)",
        [(UD, "        quantity_type_list.append(info)\n        # verdicts cached before this registration may no longer hold\n        self._category_unit_valid.clear()", "        quantity_type_list.append(info)")], "C15.R3")
control("C15", "a validity check edits the CategoryInfo it looked up",
        [(UD, "        category_info = self.GetCategoryInfo(category)\n        return category_info.default_value", "        category_info = self.GetCategoryInfo(category)\n        category_info.valid_units_set.add(category_info.default_unit)\n        return category_info.default_value")], "C15.R1")
# ------------------------------------------------------------------------------------------ C08
control("C08", "isinstance guard of Array.__eq__ removed",
        [(AR, "        if not isinstance(other, Array):\n            return False\n\n        return (\n            tuple(self.values) == tuple(other.values)", "        return (\n            tuple(self.values) == tuple(other.values)")], "C08.R1")
control("C08", "FixedArray.__eq__ fix reverted",
        [(FA, "        return (\n            isinstance(other, FixedArray)\n            and Array.__eq__(self, other)\n            and self.dimension == other.dimension\n        )", "        return Array.__eq__(self, other) and self.dimension == other.dimension")], "C08.R1")
control("C08", "Fraction.__eq__ fix reverted",
        [(FR, "        if not isinstance(other, (Fraction,) + NumberType):\n            return False\n        return self.__old_cmp__(other) == 0", "        return self.__old_cmp__(other) == 0")], "C08.R1")
control("C08", "Curve.__eq__ compares before checking the type",
        [(CU, "        if not isinstance(other, Curve):\n            return False\n        return self.GetImage() == other.GetImage()", "        return self.GetImage() == other.GetImage()")], "C08.R1")
control("C08", "Scalar.__lt__ compares the raw value of other",
        [(S, "        v2 = other.GetValue(self.unit)\n        return v1 < v2\n\n    # right", "        v2 = other.value\n        return v1 < v2\n\n    # right")], "C08.R3")
control("C08", "FractionScalar.__lt__ converts into other's unit",
        [(FS, "        v2 = other.GetValue(self.unit)", "        v2 = other.GetValue(other.unit)")], "C08.R3")
control("C08", "Scalar.__lt__ loses its quantity-type guard",
        [(S, "        if self.quantity_type != other.quantity_type:\n            msg = \"can not compare scalars of different quantity types: %r != %r\"\n            raise TypeError(msg % (self.quantity_type, other.quantity_type))\n\n        v1 = self._value", "        v1 = self._value")], "C08.R5")
control("C08", "same-unit fast path before the quantity-type guard",
        [(S, "        if self.quantity_type != other.quantity_type:\n            msg = \"can not compare scalars of different quantity types: %r != %r\"", "        if self.unit == other.unit:\n            return self._value < other.value\n        if self.quantity_type != other.quantity_type:\n            msg = \"can not compare scalars of different quantity types: %r != %r\"")], "C08.R5")
control("C08", "Scalar.__hash__ adds the unit database",
        [(S, "        return hash((self._value, self._quantity))", "        return hash((self._value, self._quantity, id(self._unit_database)))")], "C08.R4")
# ------------------------------------------------------------------------------------------ C20
control("C20", "separator fix reverted in the unit builder",
        [(Q, "                        ret += \"1/\"\n                else:\n                    ret += \".\"\n", "                        ret += \"1/\"\n")], "C20.R1")
control("C20", "separator fix reverted in _MakeStr",
        [(Q, "                        ret += \"1 / \"\n                else:\n                    ret += \" * \"\n", "                        ret += \"1 / \"\n")], "C20.R1")
control("C20", "numerator separator dropped in the unit builder",
        [(Q, "                if ret:\n                    ret += \".\"\n", "")], "C20.R1")
control("C20", "unit factors separated by a blank",
        [(Q, "                if ret:\n                    ret += \".\"\n", "                if ret:\n                    ret += \" \"\n")], "C20.R2")
control("C20", "denominator exponent rendered with its sign",
        [(Q, "                    ret += str(abs(exp))", "                    ret += str(exp)")], "C20.R2")
control("C20", "simple quantity takes the category default unit although a unit was given",
        [(Q, "        self._unit = unit\n        self._tobase", "        self._unit = category_info.default_unit\n        self._tobase")], "C20.R3")
control("C20", "formatted suffix ignores the requested unit",
        [(A, "        if unit is None:\n            unit = self.GetUnit()\n        return self.FORMATTED_SUFFIX_FORMAT % unit", "        return self.FORMATTED_SUFFIX_FORMAT % self.GetUnit()")], "C20.R4")
control("C20", "derived quantity type rendered from the category pairs only once",
        [(Q, "            self._quantity_type = self._MakeStr(list(rep_and_exp.items()))", "            self._quantity_type = self._category")], "C20.R5")
# ------------------------------------------------------------------------------------------ C17
control("C17", "RemoveUnitSystem fix reverted (delete, then assert)",
        [(USM, "        if self._current is not None and self._current.GetId() == unit_system_id:", "        assert self._current is not None\n        if self._current.GetId() == unit_system_id:")], "C17.R2")
control("C17", "Unregister of the old system dropped",
        [(USM, "        if self._current is not None:\n            self._current.on_default_unit.Unregister(self._CategoryUnitChange)\n", "")], "C17.R3")
control("C17", "old listener unregistered only when the new system is not None",
        [(USM, "        if self._current is not None:\n            self._current.on_default_unit.Unregister(self._CategoryUnitChange)\n", "        if self._current is not None and unit_system is not None:\n            self._current.on_default_unit.Unregister(self._CategoryUnitChange)\n")], "C17.R3")
control("C17", "on_current skipped in the None arm",
        [(USM, "            self.on_current(self.__null_unit_system)", "            pass")], "C17.R3")
control("C17", "system registered before the id test",
        [(USM, "        if id in self._unit_systems:\n            raise UnitSystemIDError(id)\n", "        self._unit_systems[id] = None  # type:ignore\n        if id in self._unit_systems:\n            raise UnitSystemIDError(id)\n")], "C17.R2")
control("C17", "template mapping shared instead of deep-copied",
        [(USM, "                units_mapping = deepcopy(template_units_mapping)", "                units_mapping = template_units_mapping")], "C17.R6")
control("C17", "RemoveCategory notifies before deleting",
        [(US, "            del self._units_mapping[category]\n            self.on_default_unit(category, None)", "            self.on_default_unit(category, None)\n            del self._units_mapping[category]")], "C17.R5")
control("C17", "new system always becomes current",
        [(USM, "        if self._current is None:\n            self.SetCurrent(unit_system)", "        self.SetCurrent(unit_system)")], "C17.R4")
control("C17", "ConvertToCurrent converts in the wrong direction",
        [(USM, "        converted_value = unit_database.Convert(category, unit, to_unit, value)", "        converted_value = unit_database.Convert(category, to_unit, unit, value)")], "C17.R7")
control("C17", "a query method replaces the current system",
        [(USM, "        result = self._current\n\n        if result is None:", "        result = self._current\n\n        if result is None and self._unit_systems:\n            self._current = result = next(iter(self._unit_systems.values()))\n        if result is None:")], "C17.R1")
# ------------------------------------------------------------------------------------------ C10
control("C10", "zip length guard removed (fix reverted)",
        [(VG, "            if len(self.p1) != len(self.p2):\n                raise ValueError(\n                    \"Operands have different lengths: %d != %d\" % (len(self.p1), len(self.p2))\n                )\n", "")], "C10.R2")
control("C10", "empty-operand fix reverted (q only assigned in the loop)",
        [(AR, "            q = None\n            for v0, v1 in values_iteration:", "            for v0, v1 in values_iteration:"),
         (AR, "            if q is None:\n                # no elements: the resulting quantity does not depend on the values\n                q, _ = operation_func(q1, q2, 1.0, 1.0)\n", "")], "C10.R3")
control("C10", "FromScalars takes raw values of the remaining scalars",
        [(AR, "[scalar.GetValue(unit) for scalar in scalars]", "[scalar.value for scalar in scalars]")], "C10.R5")
control("C10", "IsTuple always true",
        [(VG, "            return isinstance(self.p1, tuple) and isinstance(self.p2, tuple)", "            return True")], "C10.R4")
control("C10", "Array.__rsub__ calls another operation than Scalar.__rsub__",
        [(AR, "    def __rsub__(self: SelfT, other: Any) -> SelfT:\n        return self._DoOperation(other, self, \"Subtract\")", "    def __rsub__(self: SelfT, other: Any) -> SelfT:\n        return self._DoOperation(self, other, \"Subtract\")")], "C10.R1")
control("C10", "generator coerces one operand",
        [(VG, "        self.p2 = p2\n", "        self.p2 = list(p2) if isinstance(p2, tuple) and isinstance(p1, list) else p2\n")], "C10.R6")
control("C10", "quantities swap sides in the number arm",
        [(AR, "            q2 = p2.GetQuantity()\n            q1 = Quantity.CreateEmpty()", "            q1 = p2.GetQuantity()\n            q2 = Quantity.CreateEmpty()")], "C10.R1")
control("C10", "tuple-of-tuples branch converts to the own unit",
        [(AR, "                result.append(tuple(Convert(v, unit) for v in elem))", "                result.append(tuple(Convert(v, self.unit) for v in elem))")], "C10.R7")
# ------------------------------------------------------------------------------------------ C13
control("C13", "ChangingIndex edits the values it got without copying",
        [(FA, "        values = list(self.GetValues(quantity.GetUnit()))", "        values = self.GetValues(quantity.GetUnit())")], "C13.R2")
control("C13", "ConvertFractionValue mutates the operand's own Fraction",
        [(FS, "            converted_fraction = copy.copy(fraction_value.GetFraction())", "            converted_fraction = fraction_value.GetFraction()")], "C13.R2")
control("C13", "Scalar.__reduce__ swaps value and quantity",
        [(S, "        return Scalar, (self._quantity, self.value, None)", "        return Scalar, (self.value, self._quantity, None)")], "C13.R3")
control("C13", "a formatting method rounds the stored value in place",
        [(S, "        if value_format is None:\n            value_format = self.FORMATTED_VALUE_FORMAT\n        return FormatFloat(value_format, self.GetValue(unit))", "        if value_format is None:\n            value_format = self.FORMATTED_VALUE_FORMAT\n        self._value = round(self._value, 12)\n        return FormatFloat(value_format, self.GetValue(unit))")], "C13.R1")
control("C13", "__deepcopy__ builds a new object",
        [(A, "    def __deepcopy__(self: T, memo: object) -> T:\n        \"\"\"\n        Copy protocol.\n        \"\"\"\n        return self.Copy()", "    def __deepcopy__(self: T, memo: object) -> T:\n        \"\"\"\n        Copy protocol.\n        \"\"\"\n        return self.CreateCopy()")], "C13.R3")
control("C13", "Array validation sorts the stored values",
        [(AR, "                if len(values) > 0:\n                    if isinstance(values[0], tuple):", "                if len(values) > 0:\n                    self._value.sort()\n                    if isinstance(values[0], tuple):")], "C13.R2")
control("C13", "a copy inherits the cached validity verdict through a non-self store",
        [(AR, "        return AbstractValueWithQuantityObject.CreateCopy(\n            self, value=values, unit=unit, category=category, **kwargs\n        )", "        ret = AbstractValueWithQuantityObject.CreateCopy(\n            self, value=values, unit=unit, category=category, **kwargs\n        )\n        ret._is_valid = self._is_valid\n        return ret")], "C13.R1")
# ------------------------------------------------------------------------------------------ C11
control("C11", "CheckValues dropped from the gate",
        [(FA, "        self.CheckValues(values, dimension)\n", "")], "C11.R1")
control("C11", "minimum-dimension test only for an explicit dimension",
        [(FA, "        if dimension < 2:\n            raise ValueError(\"Dimension MUST be 2 or more\")\n        self._dimension = dimension\n        if values is None:", "        self._dimension = dimension\n        if values is None:"),
         (FA, "        elif hasattr(self, \"_dimension\"):", "        elif dimension < 2:\n            raise ValueError(\"Dimension MUST be 2 or more\")\n        elif hasattr(self, \"_dimension\"):")], "C11.R1")
control("C11", "CreateCopy stops forwarding the dimension",
        [(FA, "            self, values=values, unit=unit, category=category, dimension=self._dimension, **kwargs", "            self, values=values, unit=unit, category=category, **kwargs")], "C11.R2")
control("C11", "SetImage stores before checking",
        [(CU, "        self._CheckImageAndDomainLength(image, self._domain)\n        self._image = image", "        self._image = image\n        self._CheckImageAndDomainLength(image, self._domain)")], "C11.R4")
control("C11", "SetDomain checks the old domain",
        [(CU, "        self._CheckImageAndDomainLength(self._image, domain)\n        self._domain = domain", "        self._CheckImageAndDomainLength(self._image, self._domain)\n        self._domain = domain")], "C11.R4")
control("C11", "length check skipped for empty arrays",
        [(CU, "        image_length = len(image.GetValues())\n        domain_length = len(domain.GetValues())\n", "        image_length = len(image.GetValues())\n        domain_length = len(domain.GetValues())\n        if image_length == 0 or domain_length == 0:\n            return\n")], "C11.R4")
control("C11", "a helper writes _dimension",
        [(FA, "    def GetDimension(self) -> int:\n        return self._dimension", "    def GetDimension(self) -> int:\n        self._dimension = len(self._value)\n        return self._dimension")], "C11.R1")
control("C11", "ChangingIndex mixes units",
        [(FA, "        values[index] = scalar.GetValue(quantity.GetUnit())", "        values[index] = scalar.GetValue(self.GetUnit())")], "C11.R3")
control("C11", "CheckValues accepts longer containers",
        [(FA, "        if len(values) != dimension:\n            msg", "        if len(values) < dimension:\n            msg")], "C11.R1")
# ------------------------------------------------------------------------------------------ C12
control("C12", "exclusive minimum tested with >=",
        [(Q, "                    if not value > category_info.min_value:\n                        self._RaiseValueError(value, \">\", category_info.min_value, use_literals)", "                    if not value >= category_info.min_value:\n                        self._RaiseValueError(value, \">=\", category_info.min_value, use_literals)")], "C12.R1")
control("C12", "reports < while testing <=",
        [(Q, "                        self._RaiseValueError(value, \"<=\", category_info.max_value, use_literals)", "                        self._RaiseValueError(value, \"<\", category_info.max_value, use_literals)")], "C12.R1")
control("C12", "NaN-accepting form value <= min instead of not value > min",
        [(Q, "                    if not value > category_info.min_value:", "                    if value <= category_info.min_value:")], "C12.R1")
control("C12", "maximum compared with the minimum limit",
        [(Q, "                    if not value <= category_info.max_value:", "                    if not value <= category_info.min_value:")], "C12.R1")
control("C12", "limits compared before converting to the default unit",
        [(Q, "            if unit != category_info.default_unit:\n                value = self.ConvertScalarValue(\n                    value, category_info.default_unit  # type:ignore[arg-type]\n                )\n", "            if unit != category_info.default_unit:\n                converted = self.ConvertScalarValue(\n                    value, category_info.default_unit  # type:ignore[arg-type]\n                )\n")], "C12.R2")
control("C12", "CheckValue(max_value) dropped from the Array scan",
        [(AR, "                            CheckValue(min_value)\n                            CheckValue(max_value)", "                            CheckValue(min_value)")], "C12.R3")
control("C12", "NaN skip dropped from the inner scan loop",
        [(AR, "                                if isnam(value):\n                                    # NaNs would fail the min_value validation below.\n                                    continue\n", "")], "C12.R3")
control("C12", "max accumulator updated under <",
        [(AR, "                                elif value > max_value:", "                                elif value < max_value:")], "C12.R3")
control("C12", "FractionScalar validates only the number part",
        [(FS, "        self._quantity.CheckValue(float(self._value))", "        self._quantity.CheckValue(self._value.GetNumber())")], "C12.R3")
control("C12", "IsValid catches only TypeError",
        [(A, "        try:\n            self.CheckValidity()\n        except ValueError:\n            return False", "        try:\n            self.CheckValidity()\n        except TypeError:\n            return False")], "C12.R5")
control("C12", "inherited default value is not asserted against the limits",
        [(UD, "            if default_value is None:\n                default_value = category_info.default_value\n", ""),
         (UD, "        if default_value is None:\n            if is_min_exclusive or is_max_exclusive:", "        if default_value is None and from_category:\n            default_value = self.GetCategoryInfo(from_category).default_value\n        elif default_value is None:\n            if is_min_exclusive or is_max_exclusive:")], "C12.R6")
control("C12", "exclusive limits no longer require a default",
        [(UD, "            if is_min_exclusive or is_max_exclusive:\n                raise RuntimeError(\"default_value must be supplied\")\n            elif min_value is not None:", "            if min_value is not None:")], "C12.R6")
# ------------------------------------------------------------------------------------------ C05
control("C05", "InvalidOperationError arm deleted",
        [(UD, "                else:\n                    raise InvalidOperationError(\n                        \"Error. Can't do operation because units don't match: (%s != %s)\"\n                        % (composing_units1, composing_units2)\n                    )\n", "")], "C05.R1")
control("C05", "a third non-raising arm after a mismatch",
        [(UD, "                elif len(composing_units2) == 0:\n                    pass  # ok, no units in the second part...\n", "                elif len(composing_units2) == 0:\n                    pass  # ok, no units in the second part...\n                elif len(composing_units1) == len(composing_units2):\n                    pass\n")], "C05.R1")
control("C05", "GetInfo's direct lookup ignores the quantity type",
        [(UD, "                if quantity_type == unit_info.quantity_type:\n                    return unit_info", "                return unit_info")], "C05.R2")
control("C05", "legacy fallback of GetInfo looks the fixed unit up in the unit map directly",
        [(UD, "                        unit_info = TryToGetUnitInfoFromUnit(fixed_unit)\n                        if unit_info is not None:\n                            return unit_info", "                        if fixed_unit in self.unit_to_unit_info:\n                            return self.unit_to_unit_info[fixed_unit]")], "C05.R2")
control("C05", "failed unit check recorded as valid",
        [(UD, "            except UnitsError:\n                valid = False", "            except UnitsError:\n                valid = True")], "C05.R3")
control("C05", "exponent mismatch no longer raises",
        [(UD, "        if from_exp != to_exp:\n            raise ValueError(\n                \"Cannot convert among different exponents (%s) to (%s)\"\n                % ((from_unit, from_exp), (to_unit, to_exp))\n            )\n", "")], "C05.R4")
control("C05", "FractionScalar.__lt__ loses its quantity-type guard",
        [(FS, "        if self.quantity_type != other.quantity_type:\n            msg = \"can not compare scalars of different quantity types: %r != %r\"\n            raise TypeError(msg % self.quantity_type, other.quantity_type)\n", "")], "C05.R5")
control("C05", "legacy path of Quantity.__init__ skips CheckCategoryUnit",
        [(Q, "                if is_legacy:\n                    unit_database.CheckCategoryUnit(category, unit)\n                else:\n                    raise e", "                if not is_legacy:\n                    raise e")], "C05.R6")
control("C05", "deepcopy of the left operand's map weakened to a shallow copy",
        [(UD, "            category_to_unit_and_exp1 = copy.deepcopy(quantity1.GetCategoryToUnitAndExps())", "            category_to_unit_and_exp1 = copy.copy(quantity1.GetCategoryToUnitAndExps())")], "C05.R7")
control("C05", "a failing conversion registers the unknown unit",
        [(UD, "                raise InvalidUnitError(\n                    unit, quantity_type, valid_units=sorted([info.unit for info in quantity_types])\n                )", "                self.unit_to_unit_info.setdefault(unit, None)  # type:ignore\n                raise InvalidUnitError(\n                    unit, quantity_type, valid_units=sorted([info.unit for info in quantity_types])\n                )")], "C05.R7")
# ------------------------------------------------------------------------------------------ C03 / C04 / C09
control("C03", "Subtract adds",
        [(UD, "        func = lambda a, b: a - b\n", "        func = lambda a, b: a + b\n")], "C03.R1")
control("C03", "Subtract negates the right value before unit matching",
        [(UD, "        func = lambda a, b: a - b\n        return self._DoOperationWithSameQuantity(quantity1, quantity2, value1, value2, func)", "        return self.Sum(quantity1, quantity2, value1, -value2)")], "C03.R1")
control("C03", "unit matching visits the right operand first",
        [(UD, "        for c in (category_to_unit_and_exp1, category_to_unit_and_exp2):", "        for c in (category_to_unit_and_exp2, category_to_unit_and_exp1):")], "C03.R2")
control("C03", "Scalar.__rsub__ keeps the operand order",
        [(S, "        return self._DoOperation(other, self, \"Subtract\", lambda a, b: a - b)", "        return self._DoOperation(self, other, \"Subtract\", lambda a, b: a - b)")], "C03.R4")
control("C03", "a repeated unit is relabelled without converting the value again",
        [(UD, "                    if c is category_to_unit_and_exp1:\n                        value1 = self.Convert(", "                    if (quantity_type, unit) in quantity_types_found_to_used_unit:\n                        pass\n                    elif c is category_to_unit_and_exp1:\n                        value1 = self.Convert(")], "C03.R5")
control("C04", "Divide adds exponents",
        [(UD, "            quantity1, quantity2, value1, value2, lambda a, b: a - b, lambda a, b: a / b", "            quantity1, quantity2, value1, value2, lambda a, b: a + b, lambda a, b: a / b")], "C04.R2")
control("C04", "Array.__rtruediv__ keeps the operand order",
        [(AR, "    def __rtruediv__(self: SelfT, other: Any) -> SelfT:\n        return self._DoOperation(other, self, \"Divide\")", "    def __rtruediv__(self: SelfT, other: Any) -> SelfT:\n        return self._DoOperation(self, other, \"Divide\")")], "C04.R1")
control("C04", "removal test loses the own-exponent clause",
        [(UD, "            if exp == 0 or only_units_expoents[unit] == 0:", "            if only_units_expoents[unit] == 0:")], "C04.R3")
control("C04", "Scalar.__floordiv__ callback divides exactly",
        [(S, "        return self._DoOperation(self, other, \"FloorDivide\", lambda a, b: a // b)", "        return self._DoOperation(self, other, \"FloorDivide\", lambda a, b: a / b)")], "C04.R1")
control("C04", "__pow__ runs exponent times",
        [(S, "        for _ in range(exponent - 1):\n            result = result * self", "        for _ in range(exponent):\n            result = result * self")], "C04.R4")
control("C04", "exponents merged as operation_exp(exp2, exp1)",
        [(UD, "                    unit_exp1[1] = operation_exp(exp1, exp2)  # type:ignore[index]", "                    unit_exp1[1] = operation_exp(exp2, exp1)  # type:ignore[index]")], "C04.R3")
control("C09", "number arm passes the empty quantity",
        [(S, "        if IsNumber(p2):\n            return self.__class__.CreateWithQuantity(\n                self._quantity, callback_operation(self._value, p2)\n            )", "        if IsNumber(p2):\n            return self.__class__.CreateWithQuantity(\n                Quantity.CreateEmpty(), callback_operation(self._value, p2)\n            )")], "C09.R1")
control("C09", "numpy.number dropped from IsNumber",
        [(TY, "        result.add(numpy.number)", "        pass")], "C09.R2")
control("C09", "Scalar.__rfloordiv__ deleted",
        [(S, "    def __rfloordiv__(self, other: Any) -> \"Scalar\":\n        return self._DoOperation(other, self, \"FloorDivide\", lambda a, b: a // b)\n", "")], "C09.R3")
control("C09", "adding zero returns the operand itself",
        [(S, "        p1_is_number = IsNumber(p1)\n", "        p1_is_number = IsNumber(p1)\n        if operation in (\"Sum\", \"Subtract\") and ((p1_is_number and p1 == 0) or (IsNumber(p2) and p2 == 0)):\n            return self\n")], "C09.R1")
control("C09", "left-number arm applies the callback with swapped operands",
        [(S, "                self._quantity, callback_operation(p1, self._value)", "                self._quantity, callback_operation(self._value, p1)")], "C09.R1")
control("C15", "a query fills a new cache keyed by the unit string only",
        [(Q, "        repr_and_exp: OrderedDict[Any, Any] = OrderedDict()\n        unit_database = self._unit_database\n", "        repr_and_exp: OrderedDict[Any, Any] = OrderedDict()\n        unit_database = self._unit_database\n        unit_database.quantities_cache.setdefault((\"name\", self._unit), self)\n        unit_database.names_seen[self._unit] = True  # type:ignore[attr-defined]\n")], "C15.R4")
# ------------------------------------------------------------------------------------------ C02
control("C02", "list branch applies the functions of the wrong units",
        [(UD, "            frombase = other.frombase\n            tobase = this.tobase", "            frombase = this.frombase\n            tobase = other.tobase")], "C02.R1")
control("C02", "numpy route swaps source and target",
        [(UD, "            to_base = from_unit_info.tobase\n            from_base = to_unit_info.frombase", "            to_base = to_unit_info.tobase\n            from_base = from_unit_info.frombase")], "C02.R1")
control("C02", "numpy route looks units up without fix_unknown",
        [(UD, "            to_unit_info = db.GetInfo(quantity_type, to_unit, fix_unknown=True)", "            to_unit_info = db.GetInfo(quantity_type, to_unit)")], "C02.R1")
control("C02", "tuple input comes back as a list",
        [(UD, "            if isinstance(value, tuple):\n                return tuple(values_gen)\n            else:\n                return list(values_gen)", "            return list(values_gen)")], "C02.R1")
control("C02", "category default converted from the base unit instead of the category's default unit",
        [(S, "            value = ObtainQuantity(\n                category_info.default_unit, category_info.category\n            ).ConvertScalarValue(value, unit)", "            value = ObtainQuantity(\n                UnitDatabase.GetSingleton().GetBaseUnit(category_info.quantity_type), category_info.category\n            ).ConvertScalarValue(value, unit)")], "C02.R2")
control("C02", "Scalar.GetAbstractValue ignores the requested unit",
        [(S, "            return self._quantity.ConvertScalarValue(self._value, unit)", "            return self._quantity.ConvertScalarValue(self._value, self.unit)")], "C02.R2")
control("C02", "own-unit fix reverted (derived quantities)",
        [(Q, "        # same unit: no conversion needed\n        if self._unit == to_unit:\n            return value\n\n        if not self._is_derived:\n", "        if not self._is_derived:\n            if self._unit == to_unit:\n                return value\n")], "C02.R3")
control("C02", "ConvertScalarToCurrent fix reverted",
        [(USM, "        converted_value, to_unit = ret_tuple\n        return Scalar(converted_value, to_unit, scalar.GetCategory())", "        return Scalar(*ret_tuple)")], "C02.R4")
control("C02", "ChangingIndex fix reverted",
        [(FA, "            scalar = Scalar(self.GetQuantity(), value)", "            scalar = Scalar(value, self.GetUnit())")], "C02.R4")
control("C02", "CreateCopy with a new unit forgets the category",
        [(A, "                    return self.CreateWithQuantity(\n                        ObtainQuantity(unit, self._quantity.GetCategory()), value=value, **kwargs\n                    )", "                    return self.CreateWithQuantity(ObtainQuantity(unit), value=value, **kwargs)")], "C02.R4")
control("C02", "_ConvertWithExp takes the root after converting",
        [(UD, "        value = math.pow(value, 1.0 / from_exp)  # Convert from the exponent\n        value = self.Convert(quantity_type, from_unit, to_unit, value)\n        ret = math.pow(value, to_exp)", "        value = self.Convert(quantity_type, from_unit, to_unit, value)\n        value = math.pow(value, 1.0 / from_exp)\n        ret = math.pow(value, to_exp)")], "C02.R1")
# ------------------------------------------------------------------------------------------ C18
control("C18", "FractionValue.__ge__ uses >",
        [(FV, "        return float(self) >= float(other)", "        return float(self) > float(other)")], "C18.R1")
control("C18", "FractionValue.__float__ ignores the fraction",
        [(FV, "        return self._number + float(self._fraction)", "        return float(self._number)")], "C18.R1")
control("C18", "FractionValue.__copy__ swaps numerator and denominator",
        [(FV, "(self._fraction.numerator, self._fraction.denominator))", "(self._fraction.denominator, self._fraction.numerator))")], "C18.R1")
control("C18", "Fraction.__sub__ adds",
        [(FR, "        return self + (-other)", "        return self + other")], "C18.R2")
control("C18", "Fraction.__old_cmp__ cross-multiplies in the wrong order",
        [(FR, "        t = self.numerator * other.denominator - other.numerator * self.denominator", "        t = other.numerator * self.denominator - self.numerator * other.denominator")], "C18.R2")
control("C18", "Fraction.__lt__ tests for +1",
        [(FR, "        return self.__old_cmp__(other) == -1", "        return self.__old_cmp__(other) == 1")], "C18.R2")
control("C18", "FractionScalar.CheckValidity validates only the number part",
        [(FS, "        self._quantity.CheckValue(float(self._value))", "        self._quantity.CheckValue(self._value.GetNumber())")], "C18.R3")
control("C18", "FractionScalar.__lt__ compares the raw value of other",
        [(FS, "        v2 = other.GetValue(self.unit)", "        v2 = other.value")], "C18.R3")
control("C18", "FractionScalar.GetAbstractValue converts from the requested unit",
        [(FS, "        return self.ConvertFractionValue(self._value, self._quantity, self.unit, unit)", "        return self.ConvertFractionValue(self._value, self._quantity, unit, self.unit)")], "C18.R3")
control("C18", "numerator converted to the source unit",
        [(FS, "                fraction_value.GetFraction().numerator, to_unit", "                fraction_value.GetFraction().numerator, from_unit")], "C18.R4")
control("C07", "a quantity built with an explicit category is also stored under the category-less key",
        [(Q, "        quantities_cache[key] = quantity = Quantity(category, unit, unknown_unit_caption)\n        return quantity\n\n\nclass ReadOnlyError", "        quantities_cache[key] = quantity = Quantity(category, unit, unknown_unit_caption)\n        quantities_cache[(None, unit, unknown_unit_caption)] = quantity\n        return quantity\n\n\nclass ReadOnlyError")], "C07.R5")
control("C19", "a quantity built with an explicit category is also stored under the category-less key",
        [(Q, "        quantities_cache[key] = quantity = Quantity(category, unit, unknown_unit_caption)\n        return quantity\n\n\nclass ReadOnlyError", "        quantities_cache[key] = quantity = Quantity(category, unit, unknown_unit_caption)\n        quantities_cache[(None, unit, unknown_unit_caption)] = quantity\n        return quantity\n\n\nclass ReadOnlyError")], "C19.R4")
control("C16", "only the first occurrence of a legacy token is replaced",
        [(UD, "            fixed_unit = fixed_unit.replace(legacy, current)", "            fixed_unit = fixed_unit.replace(legacy, current, 1)")], "C16.R3")
control("C05", "derived quantities validate each unit string only once",
        [(Q, "                    unit_database.CheckQuantityTypeUnit(category_info.quantity_type, unit)\n\n        return ObtainQuantity(", "                    if unit != category_info.default_unit:\n                        unit_database.CheckQuantityTypeUnit(category_info.quantity_type, unit)\n\n        return ObtainQuantity(")], "C05.R8")
control("C17", "template validation skips systems registered before a template existed",
        [(USM, "        for unit_system in list(self._unit_systems.values()):\n            current_units_mapping = unit_system.GetUnitsMapping()", "        for unit_system in list(self._unit_systems.values())[1:]:\n            current_units_mapping = unit_system.GetUnitsMapping()")], "C17.R2")
control("C07", "unpickling takes a shortcut that drops the exponent",
        [(Q, "    unknown_unit_caption = state.pop(-1)\n", "    unknown_unit_caption = state.pop(-1)\n    if len(state) == 1:\n        category, (unit, _exp) = state[0]\n        return ObtainQuantity(unit, category, unknown_unit_caption)\n")], "C07.R8")
control("C18", "Fraction.__init__ truncates the scaled numerator",
        [(FR, "        a = round(a)\n", "        a = int(a)\n")], "C18.R2")
control("C08", "FractionValue.__lt__ compares the whole parts first",
        [(FV, "        return float(self) < float(other)", "        return self._number < other._number or float(self) < float(other)")], "C08.R6")
control("C16", "legacy spellings resolve their default category from the quantity type only",
        [(UD, "            unit_info = self.unit_to_unit_info[fixed_unit]\n        category = unit_info.default_category", "            category = self.GetQuantityType(fixed_unit)\n            if category in self.categories_to_quantity_types:\n                return category\n            return None\n        category = unit_info.default_category")], "C16.R6")
control("C20", "joined exponents computed over adjacent runs only",
        [(Q, "                existing = ret.get(unit, 0)\n                ret[unit] = existing + exp\n            self._composing_units_joining_exponents = tuple(ret.items())", "                ret[len(ret)] = (unit, exp)\n            self._composing_units_joining_exponents = tuple(ret.values())")], "C20.R5")
control("C03", "composing units compared as ordered tuples",
        [(UD, "            composing_units1 = set(quantity1.GetComposingUnitsJoiningExponents())\n            composing_units2 = set(quantity2.GetComposingUnitsJoiningExponents())", "            composing_units1 = quantity1.GetComposingUnitsJoiningExponents()\n            composing_units2 = quantity2.GetComposingUnitsJoiningExponents()")], "C03.R6")
control("C09", "empty-operand fallback keeps the operand's quantity",
        [(AR, "                q, _ = operation_func(q1, q2, 1.0, 1.0)", "                q = q2 if IsNumber(p1) else q1")], "C09.R5")
control("C10", "empty operands leave the pair generator before the length check",
        [(VG, "            if len(self.p1) != len(self.p2):\n                raise ValueError(", "            if not self.p1 or not self.p2:\n                return\n            if len(self.p1) != len(self.p2):\n                raise ValueError(")], "C10.R2")
# ------------------------------------------------------------------------------------------ rules added from rounds 9-10 seeds
control("C10", "a shortcut for empty operands in front of the element loop",
        [(AR, "        # if handling numpy, just call it all at once!\n        if values_iteration.IsNumpy():", "        if not values_iteration.IsNumpy() and (len(p1.values) == 0 or len(p2.values) == 0):\n            q, _ = operation_func(q1, q2, 1.0, 1.0)\n            return self.__class__.CreateWithQuantity(q, [])  # type:ignore[return-value]\n        # if handling numpy, just call it all at once!\n        if values_iteration.IsNumpy():")], "C10.R2")
control("C07", "the caption is pickled only along with the unknown unit",
        [(Q, "        if self._unknown_unit_caption:\n            lst.append(self._unknown_unit_caption)", "        if self._unit == \"<unknown>\" and self._unknown_unit_caption:\n            lst.append(self._unknown_unit_caption)")], "C07.R8")
control("C17", "SetCurrent(None) stores the null unit system",
        [(USM, "        self._current = unit_system\n", "        self._current = unit_system if unit_system is not None else self.__null_unit_system\n")], "C17.R3")
control("C17", "RemoveCategory notifies although nothing was removed",
        [(US, "        try:\n            del self._units_mapping[category]\n            self.on_default_unit(category, None)\n        except KeyError:\n            # The category is not in the unit system, so there is nothing to do\n            pass\n", "        self._units_mapping.pop(category, None)\n        self.on_default_unit(category, None)\n")], "C17.R5")
control("C18", "CreateFromFloat takes the sign from the truncated integer part",
        [(FV, "        sign = value / abs(value)\n", "        sign = -1 if int(value) < 0 else 1\n")], "C18.R7")
control("C02", "a zero default is returned before the conversion to the requested unit",
        [(S, "        except AttributeError:\n            return 0.0\n\n        if unit is not None:", "        except AttributeError:\n            return 0.0\n        if not value:\n            return 0.0\n\n        if unit is not None:")], "C02.R2")
control("C15", "AddUnit drops only the verdict keyed by (quantity type, unit)",
        [(UD, "        quantity_type_list.append(info)\n        # verdicts cached before this registration may no longer hold\n        self._category_unit_valid.clear()", "        quantity_type_list.append(info)\n        # verdicts cached before this registration may no longer hold\n        self._category_unit_valid.pop((quantity_type, unit), None)")], "C15.R3")
control("C20", "the '.' is emitted before every numerator factor, the first included",
        [(Q, "            if exp > 0:\n                if ret:\n                    ret += \".\"\n", "            if exp > 0:\n                ret += \".\"\n")], "C20.R1")
control("C05", "_ConvertWithExp returns the value for differing exponents instead of raising",
        [(UD, "        if from_exp != to_exp:\n            raise ValueError(\n                \"Cannot convert among different exponents (%s) to (%s)\"\n                % ((from_unit, from_exp), (to_unit, to_exp))\n            )\n", "        if from_exp != to_exp:\n            return value\n")], "C05.R4")
control("C05", "_ConvertWithExp accepts several units on the target side",
        [(UD, "        if len_to_unit != 1:\n            raise ComposedUnitError(\n                \"Can only convert one unit to another (not a composed unit at this point)\"\n            )\n\n        from_unit, from_exp", "        from_unit, from_exp")], "C05.R4")
# ------------------------------------------------------------------------------------------ running
def _apply(edits):
    overlay = {}
    for rel, old, new in edits:
        src = overlay.get(rel)
        if src is None:
            try:
                with open(os.path.join(repo_root(), rel), encoding="utf-8") as f:
                    src = f.read()
            except OSError:
                return None
        if src.count(old) != 1:
            return None
        overlay[rel] = src.replace(old, new)
    return overlay


def _run_one(args):
    prop, name, edits, rule, baseline = args
    from .main import evaluate

    overlay = _apply(edits)
    if overlay is None:
        return (name, rule, "skipped", "anchor text not present on this tree")
    rep, _ = evaluate(prop, overlay=overlay)
    new = [(o.rule, o.key) for o in rep.obligations if o.status == "violated" and (o.rule, o.key) not in baseline]
    hit = [k for k in new if k[0].startswith(rule)]
    if hit:
        return (name, rule, "detected", "%s %s" % hit[0])
    if new:
        return (name, rule, "detected-by-other-rule", "%s %s" % new[0])
    errs = [r for r, m in rep.errors]
    if errs:
        return (name, rule, "analysis-error", "rules %s could not be evaluated on the mutant" % sorted(set(errs)))
    return (name, rule, "missed", "")


def run_thorough(rep, mod, prop, seed):
    """Positive controls + table cross-check; results go into the evidence."""
    baseline = {(o.rule, o.key) for o in rep.obligations if o.status == "violated"}
    ctl = CONTROLS.get(prop, [])
    jobs = [(prop, name, edits, rule, baseline) for name, edits, rule in ctl]
    results = []
    if jobs:
        workers = min(16, len(jobs), os.cpu_count() or 1)
        try:
            with concurrent.futures.ProcessPoolExecutor(max_workers=workers) as ex:
                results = list(ex.map(_run_one, jobs))
        except Exception:
            results = [_run_one(j) for j in jobs]
    summary = {"applied": 0, "detected": 0, "skipped": 0, "missed": 0, "details": []}
    for name, rule, status, info in results:
        summary["details"].append({"control": name, "rule": rule, "status": status, "info": info})
        if status == "skipped":
            summary["skipped"] += 1
        else:
            summary["applied"] += 1
            if status.startswith("detected"):
                summary["detected"] += 1
            else:
                summary["missed"] += 1
    rep.controls = summary
    if summary["missed"] and os.environ.get("VERIF_STRICT_CONTROLS") == "1":
        missed = [d["control"] for d in summary["details"] if d["status"] in ("missed", "analysis-error")]
        rep.error(prop + ".controls", "positive controls not detected: %s" % missed)
    # independent re-derivation of the table (guards the filler interpreter)
    if hasattr(mod, "EXHAUSTIVE") and mod.EXHAUSTIVE and prop in ("C01", "C06", "C14", "C16", "C19"):
        try:
            _table_crosscheck(rep, prop)
        except AnalysisError as e:
            rep.error(prop + ".xcheck", str(e))


def _table_crosscheck(rep, prop):
    from . import tables
    from .srcmodel import Model

    m = Model()
    T = tables.extract(m)
    counts, symbols, cats = tables.second_opinion(m)
    tb = T["posc"]
    posc_syms = [r.symbol for r in tb.units.values() if r.reg.path.endswith("posc.py")]
    if sorted(symbols) != sorted(posc_syms):
        diff = sorted(set(symbols) ^ set(posc_syms))[:10]
        raise AnalysisError("table cross-check: the filler interpreter and the call-shape census disagree on the unit symbols: %s" % diff)
    posc_cats = [c.reg for c in tb.cats.values() if c.reg.path.endswith("posc.py")]
    n_interp = sum(1 for r in tb.log if r.kind == "AddCategory" and r.path.endswith("posc.py"))
    if counts.get("AddCategory", 0) != n_interp:
        raise AnalysisError("table cross-check: %d AddCategory calls in posc.py by census, %d interpreted" % (counts.get("AddCategory", 0), n_interp))
    rep.analysed["table cross-check"] = "interpreter and call-shape census agree on %d unit symbols and %d category calls" % (len(symbols), n_interp)
control("C18", "GetFractionalPart cuts the digits without looking for the exponent (inverse of fix 4f1625f)",
        [(FV, '            if "e" in str_value.lower():\n                # Exponent notation ("1e-05") has no plain digits to cut: take the part numerically.\n                return value % 1.0\n', "")], "C18.R8")
control("C18", "GetMaxNumerator assumes the fractional part never prints with an exponent",
        [(FV, '            if ixe == -1:\n                f2 = str_value\n            else:\n                f2 = str_value[0:ixe]\n', "            f2 = str_value\n"),
         (FV, '            ixe = str_value.lower().find("e")\n', "")], "C18.R8")
control("C12", "numpy arrays are validated by values.min()/values.max() instead of the NaN-skipping scan",
        [(AR, "                        iterator: Iterator[Any] = iter(values)\n", "                        if is_numpy and values.ndim == 1:\n                            CheckValue(float(values.min()))\n                            CheckValue(float(values.max()))\n                            return\n\n                        iterator: Iterator[Any] = iter(values)\n")], "C12.R3")
control("C07", "__reduce__ takes a shortcut for simple quantities that leaves the caption out",
        [(Q, "        lst: List[Any] = list(\n            (category, unit_and_exp)", "        if not self._is_derived:\n            return ObtainQuantity, (self._unit, self._category)\n\n        lst: List[Any] = list(\n            (category, unit_and_exp)")], "C07.R8")
control("C13", "__reduce__ takes a shortcut for simple quantities that leaves the caption out",
        [(Q, "        lst: List[Any] = list(\n            (category, unit_and_exp)", "        if not self._is_derived:\n            return ObtainQuantity, (self._unit, self._category)\n\n        lst: List[Any] = list(\n            (category, unit_and_exp)")], "C13.R6")
