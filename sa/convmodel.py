"""Conversion functions of table rows as exact rational functions of x (shared by C01, C06, C08, C18).

A row's `tobase` / `frombase` argument is one of: a closure built by a conversion factory from
literal coefficients, a string formula (rewritten by UnitInfo's MakeLambda), a lambda, or a local
function.  Each is turned into a Rat in the symbol x from its *syntax*.
"""
import ast

from .flatten import _clone
from fractions import Fraction

from . import tables
from .algebra import Poly, Rat, expr_to_rat, mobius_of
from .report import AnalysisError

X = Rat(Poly.var("x"))


def _inner_function(factory):
    inner = [n for n in factory.node.body if isinstance(n, ast.FunctionDef)]
    if len(inner) != 1:
        raise AnalysisError("conversion factory %s: expected one nested function" % factory.qual)
    f = inner[0]
    a = f.args
    if len(a.args) != 1 or a.vararg or a.kwarg or a.kwonlyargs:
        raise AnalysisError("conversion factory %s: nested function must take one argument" % factory.qual)
    rets = [n for n in ast.walk(f) if isinstance(n, ast.Return)]
    body = [n for n in f.body if not (isinstance(n, ast.Expr) and isinstance(n.value, ast.Constant))]
    if len(rets) != 1 or not body or body[-1] is not rets[0] or rets[0].value is None:
        raise AnalysisError("conversion factory %s: nested function is not straight-line code ending in one return" % factory.qual)
    # straight-line locals (`numerator = a + b * x`) are substituted into the returned expression
    import copy

    env = {}

    class Sub(ast.NodeTransformer):
        def visit_Name(self, node):
            if isinstance(node.ctx, ast.Load) and node.id in env:
                return _clone(env[node.id])
            return node

    for st in body[:-1]:
        if isinstance(st, ast.AnnAssign) and st.value is not None and isinstance(st.target, ast.Name):
            tgt, val = st.target, st.value
        elif isinstance(st, ast.Assign) and len(st.targets) == 1 and isinstance(st.targets[0], ast.Name):
            tgt, val = st.targets[0], st.value
        else:
            raise AnalysisError("conversion factory %s: nested function is not straight-line code ending in one return (%s)" % (factory.qual, type(st).__name__))
        if tgt.id == a.args[0].arg:
            raise AnalysisError("conversion factory %s: nested function rebinds its argument" % factory.qual)
        env[tgt.id] = Sub().visit(_clone(val))
    value = Sub().visit(_clone(rets[0].value)) if env else rets[0].value
    if env:
        ast.fix_missing_locations(value)
    return f, value


class ConvModel:
    def __init__(self, model, interp_text=None):
        self.m = model
        self._factory = {}
        self._chain = None
        self._lines = {}

    def text_of(self, path):
        if path not in self._lines:
            self._lines[path] = self.m.trees[path][1].splitlines()
        lines = self._lines[path]

        def get(node):
            if node.lineno != node.end_lineno:
                return ast.unparse(node)
            return lines[node.lineno - 1][node.col_offset: node.end_col_offset]

        return get

    # ------------------------------------------------------------------ factories
    def factory_rat(self, factory):
        """Rat of the factory's nested function over symbols = factory params and x."""
        if factory.qual not in self._factory:
            f, expr = _inner_function(factory)
            env = {p: Rat(Poly.var(p)) for p in factory.params}
            if f.args.args[0].arg in env:
                raise AnalysisError("conversion factory %s: argument shadows a coefficient" % factory.qual)
            env[f.args.args[0].arg] = X
            self._factory[factory.qual] = expr_to_rat(expr, env, self.text_of(factory.path))
        return self._factory[factory.qual]

    def closure_rat(self, clo):
        sym = self.factory_rat(clo.factory)
        out = sym
        for p, v in zip(clo.factory.params, clo.args):
            c = Rat(Poly.const(v.value))
            out = Rat(out.n.subst(p, c.n, c.d)[0], out.d.subst(p, c.n, c.d)[0])
        return out

    # ------------------------------------------------------------------ string formulas
    def string_chain(self):
        """The literal str.replace chain UnitInfo applies to string formulas before eval
        ("%s"/"%f" -> the lambda parameter).  Verified structurally: the function that is applied
        to string-typed frombase/tobase returns eval("lambda P:%s" % s) with s rewritten by
        replace calls with literal operands."""
        if self._chain is not None:
            return self._chain
        lam = formula_compiler(self.m)
        if len(lam.params) != 1:
            raise AnalysisError("%s: expected one parameter" % lam.qual)
        s = lam.params[0]
        chain = []
        var = None
        for st in lam.node.body:
            if isinstance(st, ast.Assign) and len(st.targets) == 1 and isinstance(st.targets[0], ast.Name) and st.targets[0].id == s:
                e = st.value
                calls = []
                while isinstance(e, ast.Call) and isinstance(e.func, ast.Attribute) and e.func.attr == "replace":
                    if len(e.args) != 2 or not all(isinstance(a, ast.Constant) and isinstance(a.value, str) for a in e.args):
                        raise AnalysisError("%s: replace with non-literal operands" % lam.qual)
                    calls.append((e.args[0].value, e.args[1].value))
                    e = e.func.value
                if not (isinstance(e, ast.Name) and e.id == s):
                    raise AnalysisError("%s: formula is rewritten by something else than a replace chain" % lam.qual)
                chain += list(reversed(calls))
            elif isinstance(st, ast.Assign) and isinstance(st.value, ast.Call) and isinstance(st.value.func, ast.Name) and st.value.func.id == "eval":
                arg = st.value.args[0]
                # "lambda x:%s" % s   |   f"lambda x:{s}"   |   "lambda x:{}".format(s)   |   "lambda x:" + s
                txt = None
                if (isinstance(arg, ast.BinOp) and isinstance(arg.op, ast.Mod) and isinstance(arg.left, ast.Constant)
                        and isinstance(arg.left.value, str) and isinstance(arg.right, ast.Name) and arg.right.id == s):
                    txt = arg.left.value
                elif isinstance(arg, ast.JoinedStr) and len(arg.values) == 2 and isinstance(arg.values[0], ast.Constant) and isinstance(arg.values[1], ast.FormattedValue) \
                        and isinstance(arg.values[1].value, ast.Name) and arg.values[1].value.id == s and arg.values[1].conversion == -1 and arg.values[1].format_spec is None:
                    txt = arg.values[0].value.replace("%", "%%") + "%s"
                elif isinstance(arg, ast.Call) and isinstance(arg.func, ast.Attribute) and arg.func.attr == "format" and isinstance(arg.func.value, ast.Constant) and isinstance(arg.func.value.value, str) \
                        and len(arg.args) == 1 and isinstance(arg.args[0], ast.Name) and arg.args[0].id == s and arg.func.value.value.count("{}") == 1:
                    txt = arg.func.value.value.replace("%", "%%").replace("{}", "%s")
                elif isinstance(arg, ast.BinOp) and isinstance(arg.op, ast.Add) and isinstance(arg.left, ast.Constant) and isinstance(arg.left.value, str) and isinstance(arg.right, ast.Name) and arg.right.id == s:
                    txt = arg.left.value.replace("%", "%%") + "%s"
                if txt is None:
                    raise AnalysisError("%s: eval argument is not \"lambda P:%%s\" %% formula (or an equivalent f-string / format / concatenation)" % lam.qual)
                try:
                    l = ast.parse(txt % "0", mode="eval").body
                except SyntaxError:
                    raise AnalysisError("%s: eval template does not parse" % lam.qual)
                if not isinstance(l, ast.Lambda) or len(l.args.args) != 1:
                    raise AnalysisError("%s: eval template is not a one-argument lambda" % lam.qual)
                var = l.args.args[0].arg
                if not txt.rstrip().endswith("%s") or txt.count("%s") != 1:
                    raise AnalysisError("%s: eval template has text after the formula" % lam.qual)
        if var is None:
            raise AnalysisError("%s: eval of the formula not recognised" % lam.qual)
        self._chain = (chain, var)
        return self._chain

    def string_rat(self, text):
        chain, var = self.string_chain()
        s = text
        for a, b in chain:
            s = s.replace(a, b)
        try:
            e = ast.parse(s.strip(), mode="eval").body
        except SyntaxError:
            raise AnalysisError("string formula %r does not parse after rewriting" % text)
        lines = s.strip()

        def get(node):
            return lines[node.col_offset: node.end_col_offset]

        return expr_to_rat(e, {var: X}, get)

    # ------------------------------------------------------------------ any descriptor
    def rat(self, desc):
        if isinstance(desc, tables.Closure):
            return self.closure_rat(desc)
        if isinstance(desc, str):
            return self.string_rat(desc)
        if isinstance(desc, tables.LambdaRef):
            l = desc.node
            if len(l.args.args) != 1:
                raise AnalysisError("conversion lambda must take one argument")
            return expr_to_rat(l.body, {l.args.args[0].arg: X}, self.text_of(desc.path))
        if isinstance(desc, tables.FuncRef):
            f = desc.fn.node
            rets = [n for n in ast.walk(f) if isinstance(n, ast.Return)]
            if len(f.args.args) != 1 or len(rets) != 1 or rets[0].value is None:
                raise AnalysisError("conversion function %s is not a one-argument single-return function" % desc.fn.qual)
            return expr_to_rat(rets[0].value, {f.args.args[0].arg: X}, self.text_of(desc.fn.path))
        raise AnalysisError("conversion argument is not a literal formula, factory closure, lambda or local function: %r" % (desc,))

    def mobius(self, desc):
        """(A, B, C, D) with f(x) = (A + B x)/(C + D x), or None."""
        return mobius_of(self.rat(desc))

    def slope_offset(self, row):
        """For an affine to-base function f(x) = off + slope*x returns (slope, off) as Fractions;
        base rows are (1, 0).  None when the row is not affine."""
        if row.base:
            return (Fraction(1), Fraction(0))
        mb = self.mobius(row.tobase)
        if mb is None:
            return None
        A, B, C, D = mb
        if D != 0 or C == 0:
            return None
        return (B / C, A / C)


def formula_compiler(m):
    """The function that compiles a formula string for UnitInfo (`eval("lambda x:" + rewritten formula)`): the one
    function with a single parameter that calls eval and that UnitInfo.__init__ reaches - nested in it, or a private
    function / static method of its module."""
    init = m.method("UnitInfo", "__init__")

    def has_eval(f):
        return any(isinstance(n, ast.Call) and isinstance(n.func, ast.Name) and n.func.id == "eval" for n in ast.walk(f.node))

    nested = [f for f in m.funcs.values() if f.parent is init and has_eval(f)]
    if len(nested) == 1:
        return nested[0]
    called = {n.func.id if isinstance(n.func, ast.Name) else n.func.attr for n in ast.walk(init.node) if isinstance(n, ast.Call) and isinstance(n.func, (ast.Name, ast.Attribute))}
    cands = [f for f in m.funcs.values() if f.path == init.path and f.parent is None and has_eval(f) and f.name in called
             and len([p for p in f.params if p not in ("self", "cls")]) == 1]
    if len(cands) == 1:
        return cands[0]
    raise AnalysisError("UnitInfo.__init__: the function that compiles string formulas (one parameter, calls eval) was not found")
