"""Operator dispatch tables of Scalar / Array (shared by C03, C04, C09, C10).

Each binary dunder must exist, name the matching database operation, pass (self, other) for the
normal and (other, self) for the reflected form, and - for Scalar - carry the same operator in its
number-callback lambda.  Purely syntactic over the method bodies.
"""
import ast

from .report import AnalysisError

OPS = {
    "add": ("Sum", ast.Add),
    "sub": ("Subtract", ast.Sub),
    "mul": ("Multiply", ast.Mult),
    "truediv": ("Divide", ast.Div),
    "floordiv": ("FloorDivide", ast.FloorDiv),
}
DB_OPS = {
    # database operation -> (exponent operator or None, value operator)
    "Sum": (None, ast.Add),
    "Subtract": (None, ast.Sub),
    "Multiply": (ast.Add, ast.Mult),
    "Divide": (ast.Sub, ast.Div),
    "FloorDivide": (ast.Sub, ast.FloorDiv),
}


def lambda_op(node):
    """lambda a, b: a OP b  ->  (operator class, swapped?) or None."""
    if not isinstance(node, ast.Lambda) or len(node.args.args) != 2:
        return None
    a, b = node.args.args[0].arg, node.args.args[1].arg
    body = node.body
    if isinstance(body, ast.BinOp) and isinstance(body.left, ast.Name) and isinstance(body.right, ast.Name):
        if (body.left.id, body.right.id) == (a, b):
            return type(body.op), False
        if (body.left.id, body.right.id) == (b, a):
            return type(body.op), True
    return None


def do_operation(model, cls):
    """<cls>._DoOperation, whose calling convention the operand-order rules are written against: (self, p1, p2,
    operation, ...) with p1 the left and p2 the right operand.  Another convention (a flag saying which side self is
    on, operands packed in a tuple ...) is not something these rules can read the operand order from."""
    fn = model.lookup(cls, "_DoOperation")
    if fn is None:
        raise AnalysisError("anchor method not found: %s._DoOperation" % cls)
    if fn.params[1:4] != ["p1", "p2", "operation"]:
        raise AnalysisError("%s._DoOperation%s no longer takes (left operand, right operand, operation name): the operand order of the operators cannot be read off its calls" % (cls, tuple(fn.params)))
    return fn


def dunder_facts(model, cls, dunder):
    """Facts about `def __x__(self, other): return self._DoOperation(A, B, "Op"[, lambda])`.
    Returns dict(fn, op, order, lam) or None when the class (with bases) does not define it."""
    fn = model.lookup(cls, dunder)
    if fn is None:
        return None
    do_operation(model, cls)
    rets = [n for n in ast.walk(fn.node) if isinstance(n, ast.Return) and n.value is not None]
    if len(rets) != 1:
        return {"fn": fn, "op": None, "order": None, "lam": None, "why": "body is not a single `return self._DoOperation(...)`"}
    # by terms: `return self._DoOperation(a, b, "Op"[, callback])`, also through locals / an inlined wrapper
    from .facts import callable_op
    from .terms import Resolver

    res = Resolver(model, fn)
    t = res.term(rets[0].value)
    if not (t[0] == "call" and t[1] == ("field", "_DoOperation") and len(t[2]) >= 3 and not t[3]):
        return {"fn": fn, "op": None, "order": None, "lam": None, "why": "does not call _DoOperation(a, b, operation...)"}
    me = ("self",)
    other = ("param", 1, fn.params[1]) if len(fn.params) > 1 else None
    a0, a1, opt = t[2][0], t[2][1], t[2][2]
    order = "normal" if (a0, a1) == (me, other) else "reflected" if (a0, a1) == (other, me) else "?"
    opname = opt[1] if opt[0] == "const" and isinstance(opt[1], str) else None
    lam = None
    has_lambda = len(t[2]) > 3
    if has_lambda:
        ct = t[2][3]
        if ct[0] in ("opfn", "opfn-swapped") and ct[1] in OPFN:
            lam = (OPFN[ct[1]], ct[0] == "opfn-swapped")
        elif ct[0] == "lambda":
            try:
                lam = lambda_op(ast.parse(ct[1], mode="eval").body)
            except SyntaxError:
                lam = None
        elif ct[0] == "attr" and ct[1] in (("name", "operator"), ("name", "_operator")):
            from .terms import OPERATOR_MODULE
            nm = OPERATOR_MODULE.get(ct[2])
            lam = (OPFN[nm], False) if nm in OPFN else None
        if lam is None and isinstance(rets[0].value, ast.Call) and len(rets[0].value.args) > 3:
            lam = callable_op(fn.node, rets[0].value.args[3], model, fn)
    elif opname is not None:
        # no callback handed over: the operation applied to plain numbers is looked up by the operation's name
        # in a constant module table (`_NUMBER_OPERATORS[operation]`)
        lam = table_number_callback(model, cls, opname)
    return {"fn": fn, "op": opname, "order": order, "lam": lam, "has_lambda": has_lambda, "node": rets[0]}


OPFN = {"Add": ast.Add, "Sub": ast.Sub, "Mult": ast.Mult, "Div": ast.Div, "FloorDiv": ast.FloorDiv, "Mod": ast.Mod, "Pow": ast.Pow}


def number_callbacks(model, cls):
    """Terms of the callables that <cls>._DoOperation applies to (number, own value) / (own value, number)."""
    from .srcmodel import own_nodes
    from .terms import Resolver

    fn = model.lookup(cls, "_DoOperation")
    if fn is None:
        return None, set()
    res = Resolver(model, fn)
    found = set()
    for c in own_nodes(fn.node):
        if isinstance(c, ast.Call) and len(c.args) == 2 and not c.keywords:
            a = [res.term(x) for x in c.args]
            if ("field", "_value") in a and any(x[0] == "param" and x[2] in ("p1", "p2") for x in a):
                found.add(res.term(c.func))
    return fn, found


def table_number_callback(model, cls, opname):
    """(operator class, False) when _DoOperation takes its number callback from a constant table indexed by
    the operation name and the entry for `opname` is a function of the operator module; else None."""
    fn, found = number_callbacks(model, cls)
    if fn is None or len(found) != 1:
        return None
    t = next(iter(found))
    if "operation" not in fn.params:
        return None
    if t[0] == "sub" and t[1][0] == "dict" and t[2] == ("param", fn.params.index("operation"), "operation") and fn.params.index("operation") == 3:
        for k, v in t[1][1]:
            if k == ("const", opname):
                if v[0] in ("opfn", "opfn-swapped") and v[1] in OPFN:
                    return OPFN[v[1]], v[0] == "opfn-swapped"
    return None


def check_dunders(rep, rule, model, cls, kinds=None, with_lambda=False):
    """One obligation per (kind, normal/reflected) dunder of cls.  Returns the number checked."""
    n = 0
    for kind, (opname, opcls) in OPS.items():
        if kinds is not None and kind not in kinds:
            continue
        for refl in (False, True):
            d = "__%s%s__" % ("r" if refl else "", kind)
            n += 1
            key = "%s.%s" % (cls, d)
            f = dunder_facts(model, cls, d)
            if f is None:
                rep.bad(rule, key, "%s does not define %s: with a %s on the %s the operation falls back to Python's TypeError or to numpy" % (cls, d, "number/ndarray", "left" if refl else "right"),
                        fn=model.lookup(cls, "_DoOperation"))
                continue
            why = []
            if f["op"] != opname:
                why.append("names the database operation %r, expected %r" % (f["op"], opname) if f["op"] else f.get("why", "operation not a literal"))
            want = "reflected" if refl else "normal"
            if f["order"] != want:
                why.append("passes the operands in %s order, expected %s" % (f["order"], "(other, self)" if refl else "(self, other)"))
            if with_lambda:
                if f["lam"] is None:
                    why.append("number callback is not `lambda a, b: a OP b`")
                else:
                    lop, swapped = f["lam"]
                    if lop is not opcls or swapped:
                        why.append("number callback computes a %s b%s, expected %s" % (lop.__name__, " with swapped operands" if swapped else "", opcls.__name__))
            rep.check(not why, rule, key, "%s dispatches to %s with %s operand order%s" % (d, opname, want, " and the matching number callback" if with_lambda else ""),
                      "%s.%s %s" % (cls, d, "; ".join(why)), node=f.get("node"), fn=f["fn"])
    return n


def db_operation_facts(model, opname):
    """The operators a database operation hands on: (fn, return stmt, callee name, [operator facts], [names of
    the first four arguments]).  Operators may be lambdas, names bound to lambdas or local defs, passed
    positionally or by keyword (in the callee's parameter order)."""
    from .facts import callable_op, ordered_args

    fn = model.method("UnitDatabase", opname)
    from .terms import Resolver
    from .srcmodel import own_nodes, program_order

    res = Resolver(model, fn)
    all_rets = sorted((n for n in own_nodes(fn.node) if isinstance(n, ast.Return)), key=program_order(fn.node))
    # a return delegates when its value is the call of one of the two shared routines, directly or through a local
    SHARED = ("_DoOperationWithSameQuantity", "_DoOperationResultingInNewQuantity")

    shared_calls = [c for c in own_nodes(fn.node) if isinstance(c, ast.Call) and isinstance(c.func, ast.Attribute) and c.func.attr in SHARED]

    def delegating_call(r):
        """The call of the shared routine whose result this return hands back (as it is, through a local, or
        unpacked and re-packed in the same order)."""
        if r.value is None:
            return None
        t = res.term(r.value)
        for c in shared_calls:
            ct = res.term(c)
            if t == ct or t == ("tuple", (("sub", ct, ("const", 0)), ("sub", ct, ("const", 1)))):
                return c
        return None

    extra = [r for r in all_rets if delegating_call(r) is None]
    rets = [r for r in all_rets if delegating_call(r) is not None]
    fn_extra_returns = extra
    plain = None
    if not rets and len(all_rets) == 1 and isinstance(all_rets[0].value, ast.Call):
        # a single return that calls something else than the shared routine: reported by the caller (wrong callee)
        plain = all_rets[0]
        rets, extra, fn_extra_returns = [plain], [], []
    if len(rets) != 1:
        if extra and not rets:
            raise AnalysisError("UnitDatabase.%s: no return delegates to the shared operation routine (another algorithm: the checker cannot tell what it computes)" % opname)
        if len(rets) != 1:
            raise AnalysisError("UnitDatabase.%s: expected a single delegating return" % opname)
    call = delegating_call(rets[0]) if plain is None else plain.value
    db_operation_facts.extra_returns = fn_extra_returns
    callee = call.func.attr if isinstance(call.func, ast.Attribute) else None
    cf = model.lookup("UnitDatabase", callee) if callee else None
    if cf is not None:
        ordered = ordered_args(call, cf)
    else:
        ordered = list(call.args)
    lams = []
    for a in ordered[4:]:
        if a is None:
            continue
        lams.append(callable_op(fn.node, a, model, fn))
    args = [a.id if isinstance(a, ast.Name) else None for a in ordered[:4]]
    return fn, rets[0], callee, lams, args
