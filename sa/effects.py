"""A4 effect summaries: which functions (transitively) write / read which state fields.

Direct writes come from the provenance sinks (a sink whose receiver atoms include F(class, attr, d))
and from `self.attr = ...` rebinding outside constructors; they are closed over the resolved call
graph (call sites recorded by the provenance pass, property getters reached by attribute reads,
nested functions reached from their parents)."""
import ast
import collections

from .srcmodel import own_nodes

CTOR_LIKE = {"__init__", "__new__"}


class Effects:
    def __init__(self, model, prov):
        self.m = model
        self.a = prov
        self.direct_w = collections.defaultdict(set)  # qual -> {(cls, attr, depth)}
        self.direct_r = collections.defaultdict(set)
        self.calls = collections.defaultdict(set)
        self.write_sites = collections.defaultdict(list)  # (cls, attr) -> [(Func, node, depth, kind)]
        self._build()
        self.trans_w = self._close(self.direct_w)
        self.trans_r = self._close(self.direct_r)

    def _build(self):
        m, a = self.m, self.a
        for q, fn in m.funcs.items():
            if a.skip(q):
                continue
            sm = a.sum[q]
            for sk in sm.sinks:
                if sk["kind"] == "via":
                    continue
                for at in sk["atoms"]:
                    if at[0] == "F":
                        self.direct_w[q].add((at[1], at[2], at[3]))
                        self.write_sites[(at[1], at[2])].append((fn, sk["node"], at[3], sk["kind"]))
            for (t, v) in getattr(sm, "self_stores", None) or []:
                if fn.name in CTOR_LIKE:
                    continue
                owner = a.owner_in_family(fn.cls, t.attr) if fn.cls else None
                self.direct_w[q].add((owner, t.attr, -1))  # -1: rebinding of the field itself
                self.write_sites[(owner, t.attr)].append((fn, t, -1, "rebind"))
            for c, gs in sm.calls:
                for g in gs:
                    self.calls[q].add(g.qual)
            for n in own_nodes(fn.node):
                if isinstance(n, ast.Attribute) and isinstance(n.ctx, ast.Load):
                    for c, g in a.props.get(n.attr, []):
                        if g is not None:
                            self.calls[q].add(g.qual)
                    # field read
                    for o in a.field_owner(n.attr):
                        self.direct_r[q].add((o, n.attr, 0))
        for q, fn in m.funcs.items():
            if fn.parent is not None:
                self.calls[fn.parent.qual].add(q)

    def _close(self, direct):
        trans = {q: set(direct.get(q, ())) for q in self.m.funcs}
        changed = True
        while changed:
            changed = False
            for q in self.m.funcs:
                for c in self.calls.get(q, ()):
                    new = trans.get(c, set()) - trans[q]
                    if new:
                        trans[q] |= new
                        changed = True
        return trans

    def writers_of(self, cls, attr, transitive=True):
        src = self.trans_w if transitive else self.direct_w
        return sorted(q for q, ws in src.items() if any(w[0] == cls and w[1] == attr for w in ws))

    def writes(self, qual, fields):
        """Subset of `fields` ({(cls, attr)}) that function `qual` may write transitively."""
        return {(w[0], w[1]) for w in self.trans_w.get(qual, ()) if (w[0], w[1]) in fields}

    def path(self, src, pred):
        """A call path from src to a function whose direct writes satisfy pred (for diagnosis)."""
        seen = {src}
        todo = [(src, [src])]
        while todo:
            q, p = todo.pop(0)
            if any(pred(w) for w in self.direct_w.get(q, ())):
                return p
            for c in sorted(self.calls.get(q, ())):
                if c not in seen:
                    seen.add(c)
                    todo.append((c, p + [c]))
        return None
