"""Normalised guard facts and small equivalence helpers, so that rules do not depend on how a
condition or an operator happens to be spelled (`not in` vs `in` + else, `is not None` vs early
return, lambda vs local def, positional vs keyword arguments, conditional expression vs if/else).
"""
import ast

from .terms import alternatives

NEG = {ast.NotEq: ast.Eq, ast.NotIn: ast.In, ast.IsNot: ast.Is}
KIND = {ast.Eq: "eq", ast.In: "in", ast.Is: "is", ast.Lt: "lt", ast.LtE: "le", ast.Gt: "gt", ast.GtE: "ge"}
FLIP = {"lt": "ge", "le": "gt", "gt": "le", "ge": "lt"}


def norm_fact(e, val):
    """A test leaf with its outcome -> (kind, left expr, right expr, positive) or ('truth', expr, None, positive).
    Negated operators are folded into `positive`; order comparisons with a false outcome are flipped."""
    if isinstance(e, ast.Compare) and len(e.ops) == 1:
        op = type(e.ops[0])
        pos = bool(val)
        if op in NEG:
            op = NEG[op]
            pos = not pos
        k = KIND.get(op)
        if k is None:
            return ("other", e, None, pos)
        if k in FLIP and not pos:
            k, pos = FLIP[k], True
        return (k, e.left, e.comparators[0], pos)
    return ("truth", e, None, bool(val))


def facts(cfg, node):
    """Normalised facts that hold on every path to `node`."""
    return [norm_fact(e, v) for e, v in cfg.facts_at(node)]


def is_none(x):
    return isinstance(x, ast.Constant) and x.value is None


def none_fact(f):
    """('is', X, None, positive) -> (X, is_none: bool) else None."""
    k, l, r, pos = f
    if k == "is" and r is not None and is_none(r):
        return l, pos
    if k == "is" and l is not None and is_none(l):
        return r, pos
    return None


def edge_facts(cfg, nid):
    """For a test node: {label: normalised fact} of taking that edge."""
    e = cfg.ast[nid]
    return {"T": norm_fact(e, True), "F": norm_fact(e, False)}


# ---------------------------------------------------------------------------------------------
def _def_op(n):
    """def f(a, b): return a OP b  -> (operator class, swapped?) or None"""
    body = [s for s in n.body if not (isinstance(s, ast.Expr) and isinstance(s.value, ast.Constant))]
    if len(body) == 1 and isinstance(body[0], ast.Return) and isinstance(body[0].value, ast.BinOp) and len(n.args.args) == 2:
        a, b = n.args.args[0].arg, n.args.args[1].arg
        v = body[0].value
        if isinstance(v.left, ast.Name) and isinstance(v.right, ast.Name):
            if (v.left.id, v.right.id) == (a, b):
                return type(v.op), False
            if (v.left.id, v.right.id) == (b, a):
                return type(v.op), True
    return None


def callable_op(fn_node, node, model=None, fn=None):
    """`lambda a, b: a OP b`, a Name bound to such a lambda, a local or module-level
    `def f(a, b): return a OP b`, or `operator.add` -> (operator class, swapped?) or None."""
    from .dispatch import lambda_op

    if isinstance(node, ast.Name) and model is not None and fn is not None:
        g = model.module_funcs.get(fn.module, {}).get(node.id)
        if g is not None and not any(isinstance(n, ast.Name) and n.id == node.id and isinstance(n.ctx, ast.Store) for n in ast.walk(fn_node)):
            return _def_op(g.node)

    if isinstance(node, ast.Lambda):
        return lambda_op(node)
    if isinstance(node, (ast.Subscript, ast.Name)) and model is not None and fn is not None:
        # an entry of a constant module table of operators, or a name imported from the operator module
        from .dispatch import OPFN
        from .terms import Resolver
        if not (isinstance(node, ast.Name) and any(isinstance(n, ast.Name) and n.id == node.id and isinstance(n.ctx, ast.Store) for n in ast.walk(fn_node))):
            t = Resolver(model, fn, flow=False).term(node)
            if t[0] in ("opfn", "opfn-swapped") and t[1] in OPFN:
                return OPFN[t[1]], t[0] == "opfn-swapped"
    opmod = {"add": ast.Add, "sub": ast.Sub, "mul": ast.Mult, "truediv": ast.Div, "floordiv": ast.FloorDiv}
    if isinstance(node, ast.Attribute) and isinstance(node.value, ast.Name) and node.value.id in ("operator", "_operator") and node.attr in opmod:
        return opmod[node.attr], False
    if isinstance(node, ast.Name):
        for n in ast.walk(fn_node):
            if isinstance(n, ast.Assign) and isinstance(n.value, ast.Lambda) and any(isinstance(t, ast.Name) and t.id == node.id for t in n.targets):
                return lambda_op(n.value)
            if isinstance(n, ast.FunctionDef) and n.name == node.id and n is not fn_node:
                body = [s for s in n.body if not (isinstance(s, ast.Expr) and isinstance(s.value, ast.Constant))]
                if len(body) == 1 and isinstance(body[0], ast.Return) and isinstance(body[0].value, ast.BinOp) and len(n.args.args) == 2:
                    a, b = n.args.args[0].arg, n.args.args[1].arg
                    v = body[0].value
                    if isinstance(v.left, ast.Name) and isinstance(v.right, ast.Name):
                        if (v.left.id, v.right.id) == (a, b):
                            return type(v.op), False
                        if (v.left.id, v.right.id) == (b, a):
                            return type(v.op), True
    return None


def bind_args(call, callee, skip_self=True):
    """Map the arguments of an ast.Call to the callee's parameter names -> {param: expr}."""
    params = list(callee.params)
    if skip_self and callee.is_method and params and not callee.is_staticmethod:
        params = params[1:]
    out = {}
    for i, a in enumerate(call.args):
        if isinstance(a, ast.Starred):
            break
        if i < len(params):
            out[params[i]] = a
    for k in call.keywords:
        if k.arg is not None:
            out[k.arg] = k.value
    return out


def ordered_args(call, callee, skip_self=True):
    """Arguments of a call in the callee's parameter order (None for missing ones)."""
    b = bind_args(call, callee, skip_self)
    params = list(callee.params)
    if skip_self and callee.is_method and params and not callee.is_staticmethod:
        params = params[1:]
    return [b.get(p) for p in params]


def all_alts(t, pred):
    alts = alternatives(t)
    return bool(alts) and all(pred(a) for a in alts)


def any_alt(t, pred):
    return any(pred(a) for a in alternatives(t))


# ---------------------------------------------------------------------------------------------
def _lookup_or_none(res, x):
    """(map term, key term) when the value of expression x is the entry of a mapping for a key, or None
    exactly when the key is absent: `m.get(k)`, or the `try: v = m[k] / except KeyError: v = None` idiom
    (also through a helper that was inlined).  Else None."""
    t = res.term(x)
    if t[0] == "call" and t[1][0] == "attr" and t[1][2] == "get" and len(t[2]) == 1 and not t[3]:
        return t[1][1], t[2][0]
    if not isinstance(x, ast.Name):
        return None
    org = res.origins(x)
    subs = [(st, tt) for st, tt in org if tt[0] == "sub"]
    nones = [(st, tt) for st, tt in org if tt == ("const", None)]
    if len(subs) != 1 or len(nones) != 1 or len(org) != 2:
        return None
    (sst, stt), (nst, _) = subs[0], nones[0]
    h = getattr(nst, "_parent", None)
    if not (isinstance(h, ast.ExceptHandler) and isinstance(h.type, ast.Name) and h.type.id == "KeyError" and h.body == [nst]):
        return None
    tr = getattr(h, "_parent", None)
    if not (isinstance(tr, ast.Try) and tr.body == [sst] and not tr.orelse and not tr.finalbody and len(tr.handlers) == 1):
        return None
    if not (isinstance(sst, ast.Assign) and isinstance(nst, ast.Assign) and ast.dump(sst.targets[0]) == ast.dump(nst.targets[0])):
        return None
    return stt[1], stt[2]


def absent_keys(cfg, res, nid):
    """[(map term, key term)]: `key not in map` holds on every path to CFG node nid - by a membership test,
    or by a None test of a lookup that yields None exactly for an absent key."""
    out = []
    for e, val in cfg.facts_at(nid):
        k, l, r, pos = norm_fact(e, val)
        if k == "in" and not pos:
            out.append((res.term(r), res.term(l)))
            continue
        nf = none_fact((k, l, r, pos))
        if nf is not None and nf[1]:
            lk = _lookup_or_none(res, nf[0])
            if lk is not None:
                out.append(lk)
    return out
