"""Procedure inlining at AST level: a call of a helper that did not exist in the baseline tree
(its name is not in anchors.KNOWN_FUNCTIONS) is replaced by the helper's body, so that every rule
sees the statements where they were before they were "extracted into a private method".

On the baseline tree nothing is rewritten (every callee is a known function).  The rewrite is
conservative: whenever the helper cannot be expressed as straight-line statements of the caller
(return inside a loop, generators, star-arguments, possible overriding, conditional evaluation of the
call, ...) the call is left alone and stays an opaque call for the rules.

    x = self._H(a, b)          p = a                      (only for arguments that are not plain names)
                         ->    <body of _H, `return v` -> `ret = v`, guard clauses -> if/else>
                               x = ret
"""
import ast
import copy

from .anchors import KNOWN_FUNCTIONS

MAX_STMTS = 60
MAX_DEPTH = 3


class CannotInline(Exception):
    pass


def _clone(node):
    """Deep copy of an AST (sub)tree along its syntactic fields only: the `_parent` back links the model puts
    on nodes must not be followed (copy.deepcopy would climb to the module and copy all of it)."""
    if isinstance(node, list):
        return [_clone(x) for x in node]
    if not isinstance(node, ast.AST):
        return node
    new = node.__class__()
    for f in node._fields:
        if hasattr(node, f):
            setattr(new, f, _clone(getattr(node, f)))
    for a in ("lineno", "col_offset", "end_lineno", "end_col_offset"):
        if hasattr(node, a):
            setattr(new, a, getattr(node, a))
    if hasattr(node, "_annotation"):
        new._annotation = node._annotation
    return new


def _has_return(node):
    """Return statements of this statement (not of nested functions)."""
    stack = [node]
    while stack:
        n = stack.pop()
        if isinstance(n, ast.Return):
            return True
        for c in ast.iter_child_nodes(n):
            if not isinstance(c, (ast.FunctionDef, ast.AsyncFunctionDef, ast.Lambda, ast.ClassDef)):
                stack.append(c)
    return False


def _terminates(stmts):
    """Every path through the statement list ends in return/raise (syntactic)."""
    if not stmts:
        return False
    st = stmts[-1]
    if isinstance(st, (ast.Return, ast.Raise)):
        return True
    if isinstance(st, ast.If):
        return _terminates(st.body) and _terminates(st.orelse)
    if isinstance(st, ast.Try) and not st.finalbody:
        body_ok = _terminates(st.body) or (bool(st.orelse) and _terminates(st.orelse))
        return body_ok and all(_terminates(h.body) for h in st.handlers)
    if isinstance(st, ast.With):
        return _terminates(st.body)
    return False


def _cp(stmts):
    return [_clone(s) for s in stmts]


def _set_ret(retvar, value, like):
    if retvar is None:
        if value is None or isinstance(value, ast.Constant):
            return [ast.copy_location(ast.Pass(), like)]
        return [ast.copy_location(ast.Expr(value=value), like)]
    v = value if value is not None else ast.copy_location(ast.Constant(value=None), like)
    return [ast.copy_location(ast.Assign(targets=[ast.copy_location(ast.Name(id=retvar, ctx=ast.Store()), like)], value=v, lineno=like.lineno), like)]


def _xform(stmts, k, retvar):
    """Statements equivalent to: run `stmts`; at `return v` do `retvar = v` and stop; on fall-through run k."""
    if not stmts:
        return _cp(k)
    st, rest = stmts[0], stmts[1:]
    if isinstance(st, ast.Return):
        return _set_ret(retvar, st.value, st)
    if isinstance(st, ast.Raise):
        return [st]
    if not _has_return(st):
        return [st] + _xform(rest, k, retvar)
    K = _xform(rest, k, retvar)
    if isinstance(st, ast.If):
        new = ast.copy_location(ast.If(test=st.test, body=_xform(st.body, K, retvar) or [ast.copy_location(ast.Pass(), st)], orelse=_xform(st.orelse, K, retvar)), st)
        return [new]
    if isinstance(st, ast.Try) and not st.finalbody:
        if _has_return_list(st.body):
            if not (isinstance(st.body[-1], ast.Return) and not _has_return_list(st.body[:-1]) and not st.orelse):
                raise CannotInline("return nested in a try body")
            body = st.body[:-1] + _set_ret(retvar, st.body[-1].value, st.body[-1])
            orelse = []
        else:
            body = st.body
            orelse = _xform(st.orelse, K, retvar)
        handlers = []
        for h in st.handlers:
            hb = _xform(h.body, K, retvar) or [ast.copy_location(ast.Pass(), h)]
            handlers.append(ast.copy_location(ast.ExceptHandler(type=h.type, name=h.name, body=hb), h))
        return [ast.copy_location(ast.Try(body=body, handlers=handlers, orelse=orelse, finalbody=[]), st)]
    if isinstance(st, ast.With):
        if isinstance(st.body[-1], ast.Return) and not _has_return_list(st.body[:-1]):
            body = st.body[:-1] + _set_ret(retvar, st.body[-1].value, st.body[-1])
            return [ast.copy_location(ast.With(items=st.items, body=body), st)]
        raise CannotInline("return nested in a with body")
    if isinstance(st, ast.For) and st.orelse and _has_return_list(st.orelse) and not _has_return_list(st.body) and _own_breaks(st.body) \
            and not any(isinstance(x, (ast.Break, ast.Continue)) for k_ in K for x in ast.walk(k_) if not isinstance(k_, (ast.For, ast.While))) \
            and sum(1 for k_ in K for _ in ast.walk(k_)) * len(_own_breaks(st.body)) <= 400:
        # a search loop whose `else` returns (nothing found): what follows the loop runs only after a `break`, so it is
        # placed in front of each break (`for x in it: if ok(x): break` / `else: return None` / REST  ==
        # `for x in it: if ok(x): REST; break` / `else: ret = None`)
        def with_k(stmts_):
            out_ = []
            for b_ in stmts_:
                if isinstance(b_, ast.Break):
                    out_ += _cp(K) + [b_]
                elif isinstance(b_, ast.If):
                    out_.append(ast.copy_location(ast.If(test=b_.test, body=with_k(b_.body), orelse=with_k(b_.orelse)), b_))
                elif isinstance(b_, (ast.For, ast.While, ast.FunctionDef, ast.ClassDef)) or not _own_breaks([b_]):
                    out_.append(b_)
                else:
                    raise CannotInline("break nested in %s of a search loop" % type(b_).__name__)
            return out_

        return [ast.copy_location(ast.For(target=st.target, iter=st.iter, body=with_k(st.body), orelse=_xform(st.orelse, K, retvar), type_comment=None), st)]
    if isinstance(st, ast.For) and not st.orelse and not _has_return_list(st.orelse) and not _own_breaks(st.body):
        # `for x in xs: ... return v ...` followed by K  ==  `for x in xs: ... retvar = v; break ...` / `else: K`
        body = _loop_ret(st.body, retvar)
        orelse = K or [ast.copy_location(ast.Pass(), st)]
        return [ast.copy_location(ast.For(target=st.target, iter=st.iter, body=body, orelse=orelse, type_comment=None), st)]
    raise CannotInline("return inside %s" % type(st).__name__)


def _own_breaks(stmts):
    """break statements that leave the loop whose body is `stmts`"""
    out = []
    stack = list(stmts)
    while stack:
        n = stack.pop()
        if isinstance(n, ast.Break):
            out.append(n)
        elif not isinstance(n, (ast.For, ast.While, ast.AsyncFor, ast.FunctionDef, ast.AsyncFunctionDef, ast.ClassDef, ast.Lambda)):
            stack.extend(ast.iter_child_nodes(n))
    return out


def _loop_ret(stmts, retvar):
    """Loop body in which `return v` becomes `retvar = v; break` (returns only under ifs of this loop)."""
    out = []
    for st in stmts:
        if isinstance(st, ast.Return):
            return out + _set_ret(retvar, st.value, st) + [ast.copy_location(ast.Break(), st)]
        if not _has_return(st):
            out.append(st)
        elif isinstance(st, ast.If):
            out.append(ast.copy_location(ast.If(test=st.test, body=_loop_ret(st.body, retvar), orelse=_loop_ret(st.orelse, retvar)), st))
        else:
            raise CannotInline("return inside %s nested in a loop" % type(st).__name__)
    return out


def _has_return_list(stmts):
    return any(_has_return(s) for s in stmts)


def _only_iterated_or_starred(gnode, p):
    """Is parameter p of the helper only used as `for x in p` or as `*p` in a call?"""
    parent = {}
    for n in ast.walk(gnode):
        for c in ast.iter_child_nodes(n):
            parent[id(c)] = n
    for n in ast.walk(gnode):
        if isinstance(n, ast.Name) and n.id == p:
            par = parent.get(id(n))
            if isinstance(par, ast.For) and par.iter is n:
                continue
            if isinstance(par, ast.Starred) and isinstance(parent.get(id(par)), ast.Call):
                continue
            return False
    return True


class _SpliceStarredTuples(ast.NodeTransformer):
    """f(*(a, b), c) -> f(a, b, c)"""

    def visit_Call(self, node):
        self.generic_visit(node)
        if any(isinstance(x, ast.Starred) and isinstance(x.value, ast.Tuple) for x in node.args):
            new = []
            for x in node.args:
                if isinstance(x, ast.Starred) and isinstance(x.value, ast.Tuple):
                    new.extend(x.value.elts)
                else:
                    new.append(x)
            node.args = new
        return node


def _unroll_literal_loops(stmts):
    """`for x in (a, b): BODY` over a literal tuple of plain names / constants (what a tuple parameter of an inlined
    helper became) -> BODY[x := a]; BODY[x := b]."""
    out = []
    for i, st in enumerate(stmts):
        for fld in ("body", "orelse", "finalbody"):
            sub = getattr(st, fld, None)
            if isinstance(sub, list) and sub and isinstance(sub[0], ast.stmt) and not isinstance(st, (ast.FunctionDef, ast.AsyncFunctionDef, ast.ClassDef)):
                setattr(st, fld, _unroll_literal_loops(sub))
        for h in getattr(st, "handlers", []) or []:
            h.body = _unroll_literal_loops(h.body)
        if isinstance(st, ast.For) and not st.orelse and isinstance(st.target, ast.Name) and isinstance(st.iter, ast.Tuple) and len(st.iter.elts) <= 4 \
                and all(isinstance(e_, (ast.Name, ast.Constant)) for e_ in st.iter.elts) and not _own_breaks(st.body) \
                and not any(isinstance(x, ast.Continue) for b in st.body for x in ast.walk(b)) \
                and not any(isinstance(x, ast.Name) and x.id == st.target.id and isinstance(x.ctx, (ast.Store, ast.Del)) for b in st.body for x in ast.walk(b)) \
                and not any(isinstance(x, ast.Name) and x.id == st.target.id for later in stmts[i + 1:] for x in ast.walk(later)):
            for e_ in st.iter.elts:
                out += [_SubstExpr({st.target.id: e_}).visit(b) for b in _cp(st.body)]
            continue
        out.append(st)
    return out


class _SubstConst(ast.NodeTransformer):
    def __init__(self, consts):
        self.consts = consts

    def visit_Name(self, node):
        if isinstance(node.ctx, ast.Load) and node.id in self.consts:
            return ast.copy_location(ast.Constant(value=self.consts[node.id].value), node)
        return node


def _const_truth(e):
    """True / False when the test is decided by constants, else None."""
    if isinstance(e, ast.Constant):
        return bool(e.value)
    if isinstance(e, ast.UnaryOp) and isinstance(e.op, ast.Not):
        v = _const_truth(e.operand)
        return None if v is None else not v
    if isinstance(e, ast.Compare) and len(e.ops) == 1 and isinstance(e.left, ast.Constant) and isinstance(e.comparators[0], ast.Constant):
        l, r, op = e.left.value, e.comparators[0].value, e.ops[0]
        if isinstance(op, (ast.Is, ast.IsNot)) and (l is None or r is None or isinstance(l, bool) or isinstance(r, bool)):
            return (l is r) == isinstance(op, ast.Is)
        if isinstance(op, (ast.Eq, ast.NotEq)):
            return (l == r) == isinstance(op, ast.Eq)
    if isinstance(e, ast.BoolOp):
        vals = [_const_truth(v) for v in e.values]
        if isinstance(e.op, ast.And):
            if any(v is False for v in vals):
                return False
            if all(v is True for v in vals):
                return True
        else:
            if any(v is True for v in vals):
                return True
            if all(v is False for v in vals):
                return False
    return None


class _FoldExpr(ast.NodeTransformer):
    def visit_IfExp(self, node):
        self.generic_visit(node)
        v = _const_truth(node.test)
        if v is None:
            return node
        return node.body if v else node.orelse


def _fold(stmts):
    """Statements with the tests decided by constants folded away (`if True: A else: B` -> A)."""
    out = []
    for st in stmts:
        if isinstance(st, (ast.FunctionDef, ast.AsyncFunctionDef, ast.ClassDef)):
            out.append(st)
            continue
        st = _FoldExpr().visit(st)
        for fld in ("body", "orelse", "finalbody"):
            sub = getattr(st, fld, None)
            if isinstance(sub, list) and sub and isinstance(sub[0], ast.stmt):
                setattr(st, fld, _fold(sub))
        for h in getattr(st, "handlers", []) or []:
            h.body = _fold(h.body) or [ast.copy_location(ast.Pass(), h)]
        if isinstance(st, ast.If):
            v = _const_truth(st.test)
            if v is not None:
                out += st.body if v else st.orelse
                continue
            if not st.body:
                st.body = [ast.copy_location(ast.Pass(), st)]
        elif isinstance(st, (ast.For, ast.While, ast.With, ast.Try)) and not st.body:
            st.body = [ast.copy_location(ast.Pass(), st)]
        out.append(st)
    return out


class _Rename(ast.NodeTransformer):
    def __init__(self, mapping):
        self.mapping = mapping

    def visit_Name(self, node):
        if node.id in self.mapping:
            return ast.copy_location(ast.Name(id=self.mapping[node.id], ctx=node.ctx), node)
        return node


def _stored_names(fnode):
    out = set()
    for n in ast.walk(fnode):
        if isinstance(n, ast.Name) and isinstance(n.ctx, (ast.Store, ast.Del)):
            out.add(n.id)
        elif isinstance(n, ast.ExceptHandler) and n.name:
            out.add(n.name)
        elif isinstance(n, (ast.FunctionDef, ast.ClassDef)) and n is not fnode:
            out.add(n.name)
        elif isinstance(n, (ast.Import, ast.ImportFrom)):
            for al in n.names:
                out.add((al.asname or al.name).split(".")[0])
    return out


def _all_names(fnode):
    out = {a.arg for n in ast.walk(fnode) if isinstance(n, ast.arguments) for a in n.posonlyargs + n.args + n.kwonlyargs + ([n.vararg] if n.vararg else []) + ([n.kwarg] if n.kwarg else [])}
    out |= {n.id for n in ast.walk(fnode) if isinstance(n, ast.Name)}
    out |= _stored_names(fnode)
    return out


class Flattener:
    def __init__(self, model):
        self.m = model
        self.counter = 0
        self.log = []  # (caller qual, helper qual, line) for the evidence
        self.refused = []  # (caller qual, helper qual, reason)
        self._done = {}
        self._active = []
        self.globals_needed = {}  # caller qual -> module globals written by helpers inlined into it

    # ---------------------------------------------------------------- callee resolution
    def _resolve(self, fn, call):
        """(helper Func, receiver expr or None) for a call of a helper that is new w.r.t. the baseline."""
        m = self.m
        f = call.func
        g, recv = None, None
        if isinstance(f, ast.Name):
            # local def of the caller, else module-level function
            q = fn
            while q is not None and g is None:
                g = m.funcs.get(q.qual + "." + f.id)
                q = q.parent
            if g is None:
                g = m.module_funcs.get(fn.module, {}).get(f.id)
            if g is None and f.id not in m.classes:
                c = [x for x in m.by_name.get(f.id, []) if x.cls is None and x.parent is None]
                g = c[0] if len(c) == 1 else None
        elif isinstance(f, ast.Attribute):
            cands = [x for x in m.by_name.get(f.attr, []) if x.is_method]
            if len({id(x) for x in cands}) != 1:
                return None, None
            g = cands[0]
            if isinstance(f.value, ast.Name) and f.value.id in m.classes:
                if not (g.is_staticmethod or g.is_classmethod):
                    return None, None
                recv = None if g.is_staticmethod else f.value
            else:
                recv = f.value
                selfname = fn.params[0] if fn.is_method and fn.params and not fn.is_staticmethod else None
                own = isinstance(recv, ast.Name) and recv.id == selfname
                if own:
                    if fn.cls is None or m.lookup(fn.cls, f.attr) is not g:
                        return None, None
                elif not isinstance(recv, ast.Name):
                    return None, None
        if g is None or g.name in KNOWN_FUNCTIONS or (g.name.startswith("__") and g.name.endswith("__")):
            return None, None
        return g, recv

    # ---------------------------------------------------------------- inlining one call
    def _expand(self, fn, call, g, recv, caller_names, want_value, generator=False, into=None):
        gnode = self.flat_node(g)
        if any(d not in ("staticmethod", "classmethod") for d in g.decorators):
            raise CannotInline("decorated helper")
        a = gnode.args
        if a.kwarg or any(isinstance(x, ast.Starred) for x in call.args) or any(k.arg is None for k in call.keywords):
            raise CannotInline("star-arguments")
        is_gen = any(isinstance(n, (ast.Yield, ast.YieldFrom)) for n in ast.walk(gnode))
        if is_gen != generator:
            raise CannotInline("generator helper" if is_gen else "not a generator")
        gl_names = set()
        for n in ast.walk(gnode):
            if isinstance(n, ast.Global) and g.module == fn.module and g.parent is None and fn.parent is None:
                # a helper of the same module that writes a module global: the caller declares the name global as well
                # (possible when the caller has no local of that name)
                if set(n.names) & (caller_names - self.globals_needed.get(fn.qual, set())) or set(n.names) & set(fn.params):
                    raise CannotInline("global %s is a local name of the caller" % sorted(n.names))
                gl_names |= set(n.names)
                continue
            if isinstance(n, (ast.Await, ast.Global, ast.Nonlocal)) or (isinstance(n, (ast.FunctionDef, ast.AsyncFunctionDef, ast.ClassDef)) and n is not gnode):
                raise CannotInline("helper contains %s" % type(n).__name__)
            if isinstance(n, ast.Call) and isinstance(n.func, ast.Name) and n.func.id in ("eval", "exec", "compile", "locals", "globals", "vars"):
                raise CannotInline("helper evaluates code / reads its own namespace")  # (its names are part of its meaning)
            if generator and isinstance(n, ast.Return) and n.value is not None:
                raise CannotInline("generator returns a value")
            if generator and isinstance(n, ast.Yield) and not (isinstance(getattr(n, "_parent", None), ast.Expr)):
                raise CannotInline("yield used as an expression")
        body = [s for s in gnode.body if not (isinstance(s, ast.Expr) and isinstance(s.value, ast.Constant) and isinstance(s.value.value, str)) and not (gl_names and isinstance(s, ast.Global))]
        if gl_names:
            if any(isinstance(x, ast.Global) for s_ in body for x in ast.walk(s_)):
                raise CannotInline("helper contains a nested Global")
            self.globals_needed.setdefault(fn.qual, set()).update(gl_names)
        if sum(1 for _ in ast.walk(gnode) if isinstance(_, ast.stmt)) > MAX_STMTS:
            raise CannotInline("helper too large")
        self.counter += 1
        sfx = "__i%d" % self.counter
        params = [x.arg for x in a.posonlyargs + a.args] + [x.arg for x in a.kwonlyargs]
        defaults = {}
        pos = a.posonlyargs + a.args
        for p, d in zip(pos[len(pos) - len(a.defaults):], a.defaults):
            defaults[p.arg] = d
        for p, d in zip(a.kwonlyargs, a.kw_defaults):
            if d is not None:
                defaults[p.arg] = d
        bound = {}
        plist = list(params)
        is_bound_method = g.is_method and not g.is_staticmethod
        if is_bound_method:
            if not plist:
                raise CannotInline("method without self")
            selfp = plist.pop(0)
            if g.is_classmethod:
                if recv is None:
                    raise CannotInline("classmethod receiver")
                recv_is_class = isinstance(recv, ast.Name) and (recv.id in self.m.classes or (fn.is_classmethod and fn.params and recv.id == fn.params[0]))
                bound[selfp] = ast.copy_location(ast.Attribute(value=_clone(recv), attr="__class__", ctx=ast.Load()), call) if not recv_is_class else _clone(recv)
            else:
                if recv is None:
                    raise CannotInline("unbound method call")
                bound[selfp] = recv
        npos = len(a.posonlyargs) + len(a.args) - (1 if is_bound_method else 0)
        extra_pos = []
        if len(call.args) > npos:
            if not a.vararg:
                raise CannotInline("too many positional arguments")
            extra_pos = list(call.args[npos:])
        for p, x in zip(plist, call.args[:npos]):
            bound[p] = x
        if a.vararg:
            # `*args` of the helper: the tuple of the extra positional arguments of this call
            params = params + [a.vararg.arg]
            bound[a.vararg.arg] = ast.copy_location(ast.Tuple(elts=extra_pos, ctx=ast.Load()), call)
        for k in call.keywords:
            if k.arg not in plist or k.arg in bound:
                raise CannotInline("keyword %s" % k.arg)
            bound[k.arg] = k.value
        for p in plist:
            if p not in bound:
                if p not in defaults or not isinstance(defaults[p], (ast.Constant, ast.Name, ast.Attribute, ast.Tuple, ast.UnaryOp)):
                    raise CannotInline("parameter %s unbound" % p)
                bound[p] = defaults[p]
        stored = _stored_names(gnode) - gl_names
        inner_args = {x.arg for n in ast.walk(gnode) if isinstance(n, ast.Lambda) for x in n.args.args}
        mapping = {}
        consts = {}
        exprs = {}
        pre = []
        is_closure = g.parent is not None
        for p in params:
            x = bound[p]
            if p in inner_args:
                raise CannotInline("lambda parameter shadows %s" % p)
            if isinstance(x, ast.Name) and p not in stored and x.id not in stored:
                mapping[p] = x.id
            elif isinstance(x, ast.Name) and into is not None and x.id == into and sum(1 for y_ in bound.values() if isinstance(y_, ast.Name) and y_.id == into) == 1 \
                    and x.id not in (stored - {p}):
                # `X = helper(X, ...)`: the helper may re-bind its parameter; the caller's X is overwritten by the result
                # anyway, so the parameter *is* X (no exception handler of the caller can observe the difference)
                mapping[p] = x.id
            elif isinstance(x, ast.Constant) and (x.value is None or isinstance(x.value, (bool, int, float, str))) and p not in stored:
                consts[p] = x  # a constant argument (a flag) is substituted; tests on it are folded below
            elif isinstance(x, ast.Tuple) and len(x.elts) <= 4 and p not in stored and all(isinstance(e_, (ast.Name, ast.Constant)) for e_ in x.elts) \
                    and all(not isinstance(e_, ast.Name) or e_.id in caller_names for e_ in x.elts) and _only_iterated_or_starred(gnode, p):
                exprs[p] = x  # a literal tuple of plain names that the helper only iterates / splices: substituted, loops unrolled
            else:
                new = p if (p not in caller_names and not is_closure) else p + sfx
                mapping[p] = new
                pre.append(ast.copy_location(ast.Assign(targets=[ast.copy_location(ast.Name(id=new, ctx=ast.Store()), call)], value=_clone(x), lineno=call.lineno), call))
        for name in sorted(stored - set(params)):
            if name in inner_args:
                raise CannotInline("lambda parameter shadows %s" % name)
            if name in caller_names or name in mapping.values():
                mapping[name] = name + sfx
        retvar = ("inl_ret" + sfx) if want_value else None
        body = _cp(body)
        if consts:
            holder0 = ast.Module(body=body, type_ignores=[])
            _SubstConst(consts).visit(holder0)
            body = _fold(holder0.body)
        new_body = _xform(body, _set_ret(retvar, None, call) if want_value else [], retvar)
        holder = ast.Module(body=new_body, type_ignores=[])
        _Rename(mapping).visit(holder)
        if exprs:
            # (after the renaming of the helper's locals, so that the caller's names in the tuple are not captured)
            _SubstExpr(exprs).visit(holder)
            _SpliceStarredTuples().visit(holder)
            holder.body = _unroll_literal_loops(holder.body)
        self.log.append((fn.qual, g.qual, getattr(call, "lineno", 0)))
        return pre + holder.body, retvar

    # ---------------------------------------------------------------- statements
    def _calls_in(self, st):
        """Helper calls evaluated unconditionally and exactly once when the statement runs (header
        expressions only), in source order."""
        roots = []
        if isinstance(st, (ast.Assign, ast.AnnAssign, ast.AugAssign, ast.Return, ast.Expr)):
            roots = [st.value] if st.value is not None else []
            if isinstance(st, ast.Assign):
                roots += [t for t in st.targets if not isinstance(t, ast.Name)]
        elif isinstance(st, ast.If):
            roots = [st.test]
        elif isinstance(st, ast.For):
            roots = [st.iter]
        elif isinstance(st, ast.Raise):
            roots = [x for x in (st.exc, st.cause) if x is not None]
        elif isinstance(st, ast.With):
            roots = [it.context_expr for it in st.items]
        out = []

        def rec(e, cond):
            if isinstance(e, (ast.Lambda, ast.ListComp, ast.SetComp, ast.DictComp, ast.GeneratorExp)):
                return
            if isinstance(e, ast.BoolOp):
                rec(e.values[0], cond)
                for v in e.values[1:]:
                    rec(v, True)
                return
            if isinstance(e, ast.IfExp):
                rec(e.test, cond)
                rec(e.body, True)
                rec(e.orelse, True)
                return
            if isinstance(e, ast.Compare) and len(e.ops) > 1:
                rec(e.left, cond)
                rec(e.comparators[0], cond)
                for c in e.comparators[1:]:
                    rec(c, True)
                return
            for c in ast.iter_child_nodes(e):
                if isinstance(c, ast.expr):
                    rec(c, cond)
                elif isinstance(c, ast.keyword):
                    rec(c.value, cond)  # f(name=helper(x)): evaluated like a positional argument
            if isinstance(e, ast.Call) and not cond:
                out.append(e)

        for r in roots:
            rec(r, False)
        return out

    def _flatten_body(self, fn, stmts, caller_names):
        out = []
        for st in stmts:
            # nested statement lists first
            for fld in ("body", "orelse", "finalbody"):
                sub = getattr(st, fld, None)
                if isinstance(sub, list) and sub and isinstance(sub[0], ast.stmt) and not isinstance(st, (ast.FunctionDef, ast.AsyncFunctionDef, ast.ClassDef)):
                    setattr(st, fld, self._flatten_body(fn, sub, caller_names))
            for h in getattr(st, "handlers", []) or []:
                h.body = self._flatten_body(fn, h.body, caller_names)
            if isinstance(st, (ast.FunctionDef, ast.AsyncFunctionDef, ast.ClassDef)):
                out.append(st)
                continue
            collected = self._collect_generator(fn, st, caller_names)
            if collected is not None:
                out += collected
                continue
            looped = self._comprehension_to_loop(fn, st, caller_names)
            if looped is not None:
                out += self._flatten_body(fn, looped, caller_names)
                continue
            fused = self._fuse_generator(fn, st, caller_names, out)
            if fused is not None:
                out += fused
                continue
            pre_all = []
            for call in self._calls_in(st):
                g, recv = self._resolve(fn, call)
                if g is None or g.qual == fn.qual:
                    continue
                try:
                    if g.qual in self._active or len(self._active) > MAX_DEPTH:
                        raise CannotInline("recursion")
                    want = not (isinstance(st, ast.Expr) and st.value is call)
                    into = None
                    if isinstance(st, ast.Assign) and st.value is call and len(st.targets) == 1 and isinstance(st.targets[0], ast.Name) \
                            and not any(isinstance(y_, ast.Try) for y_ in ast.walk(fn.node)):
                        into = st.targets[0].id
                    pre, retvar = self._expand(fn, call, g, recv, caller_names, want, into=into)
                except CannotInline as e:
                    self.refused.append((fn.qual, g.qual, str(e)))
                    continue
                caller_names |= {n.id for s in pre for n in ast.walk(s) if isinstance(n, ast.Name)}
                pre_all += pre
                if retvar is not None:
                    _replace(st, call, ast.copy_location(ast.Name(id=retvar, ctx=ast.Load()), call))
                else:
                    st = None
                    break
            out += pre_all
            if st is not None:
                out.append(st)
        return out

    def _comprehension_to_loop(self, fn, st, caller_names):
        """`x = [E for T in IT if C]` whose element or filter calls a new helper  ->  `x = []` / `for T in IT: if C:
        x.append(E)`, so that the helper is inlined where it is evaluated (once per element).  None when not applicable."""
        ret = None
        if isinstance(st, ast.Return) and isinstance(st.value, ast.ListComp) and len(st.value.generators) == 1:
            # `return [comprehension]`: through a fresh local
            n_ = 0
            while "comp_list__c%d" % n_ in caller_names:
                n_ += 1
            tmp = "comp_list__c%d" % n_
            caller_names.add(tmp)
            ret = ast.copy_location(ast.Return(value=ast.copy_location(ast.Name(id=tmp, ctx=ast.Load()), st)), st)
            st = ast.copy_location(ast.Assign(targets=[ast.copy_location(ast.Name(id=tmp, ctx=ast.Store()), st)], value=st.value), st)
        if not (isinstance(st, ast.Assign) and len(st.targets) == 1 and isinstance(st.targets[0], ast.Name) and isinstance(st.value, ast.ListComp) and len(st.value.generators) == 1):
            return None
        comp = st.value
        g = comp.generators[0]
        if g.is_async:
            return None
        calls = [c for x in [comp.elt] + g.ifs for c in ast.walk(x) if isinstance(c, ast.Call)]
        if not any(self._resolve(fn, c)[0] is not None for c in calls):
            return None
        name = st.targets[0].id
        tnames = {y.id for y in ast.walk(g.target) if isinstance(y, ast.Name)}
        if any(isinstance(y, ast.Name) and y.id == name for y in ast.walk(comp)) or (tnames & caller_names - {y.id for y in ast.walk(comp) if isinstance(y, ast.Name)}):
            return None
        for tn in tnames:
            inside = sum(1 for y in ast.walk(comp) if isinstance(y, ast.Name) and y.id == tn)
            total = sum(1 for y in ast.walk(fn.node) if isinstance(y, ast.Name) and y.id == tn) + (1 if tn in fn.params else 0)
            if total > inside:
                return None  # the comprehension variable would leak into a name the function uses elsewhere
        app = ast.copy_location(ast.Expr(value=ast.copy_location(ast.Call(func=ast.copy_location(ast.Attribute(value=ast.copy_location(ast.Name(id=name, ctx=ast.Load()), st), attr="append", ctx=ast.Load()), st),
                                                                               args=[comp.elt], keywords=[]), st)), st)
        body = [app]
        for c in reversed(g.ifs):
            body = [ast.copy_location(ast.If(test=c, body=body, orelse=[]), st)]
        init = ast.copy_location(ast.Assign(targets=[ast.copy_location(ast.Name(id=name, ctx=ast.Store()), st)], value=ast.copy_location(ast.List(elts=[], ctx=ast.Load()), st)), st)
        loop = ast.copy_location(ast.For(target=g.target, iter=g.iter, body=body, orelse=[], type_comment=None), st)
        for y in ast.walk(loop.target):
            if isinstance(y, ast.Name):
                y.ctx = ast.Store()
        return [init, loop] + ([ret] if ret is not None else [])

    def _collect_generator(self, fn, st, caller_names):
        """`x = list(gen(args))` with gen a new generator helper  ->  `x = []` + the helper's body with every
        `yield E` replaced by `x.append(E)` (through the loop fusion).  None when not applicable."""
        if not (isinstance(st, ast.Assign) and len(st.targets) == 1 and isinstance(st.targets[0], ast.Name) and isinstance(st.value, ast.Call)
                and isinstance(st.value.func, ast.Name) and st.value.func.id == "list" and len(st.value.args) == 1 and not st.value.keywords
                and isinstance(st.value.args[0], ast.Call)):
            return None
        inner = st.value.args[0]
        g, _recv = self._resolve(fn, inner)
        if g is None or g.qual == fn.qual or not any(isinstance(y, (ast.Yield, ast.YieldFrom)) for y in ast.walk(g.node)):
            return None
        name = st.targets[0].id
        if any(isinstance(y, ast.Name) and y.id == name for y in ast.walk(inner)):
            return None
        n = 0
        while "gen_item__c%d" % n in caller_names:
            n += 1
        item = "gen_item__c%d" % n
        caller_names.add(item)
        init = ast.copy_location(ast.Assign(targets=[ast.copy_location(ast.Name(id=name, ctx=ast.Store()), st)], value=ast.copy_location(ast.List(elts=[], ctx=ast.Load()), st)), st)
        app = ast.copy_location(ast.Expr(value=ast.copy_location(ast.Call(func=ast.copy_location(ast.Attribute(value=ast.copy_location(ast.Name(id=name, ctx=ast.Load()), st), attr="append", ctx=ast.Load()), st),
                                                                               args=[ast.copy_location(ast.Name(id=item, ctx=ast.Load()), st)], keywords=[]), st)), st)
        loop = ast.copy_location(ast.For(target=ast.copy_location(ast.Name(id=item, ctx=ast.Store()), st), iter=inner, body=[app], orelse=[], type_comment=None), st)
        fused = self._fuse_generator(fn, loop, caller_names, [])
        if fused is None:
            return None
        return [init] + fused

    def _fuse_late(self, fn, fnode):
        """After inlining: `g = gen(args)` ... `for T in g: BODY` (g bound once, read once - typically the
        argument of an inlined consumer) is fused like `for T in gen(args): BODY`; the generator runs lazily
        during the loop, so the statements in between do not matter."""
        counts = {}
        for x in ast.walk(fnode):
            if isinstance(x, ast.Name):
                counts[x.id] = counts.get(x.id, 0) + 1
        names = _all_names(fnode)

        def walk(lst):
            i = 0
            while i < len(lst):
                st = lst[i]
                for fld in ("body", "orelse", "finalbody"):
                    sub = getattr(st, fld, None)
                    if isinstance(sub, list) and sub and isinstance(sub[0], ast.stmt) and not isinstance(st, (ast.FunctionDef, ast.AsyncFunctionDef, ast.ClassDef)):
                        walk(sub)
                for h in getattr(st, "handlers", []) or []:
                    walk(h.body)
                if isinstance(st, ast.For) and not st.orelse and isinstance(st.iter, ast.Name) and counts.get(st.iter.id) == 2:
                    for j in range(i - 1, -1, -1):
                        pv = lst[j]
                        if isinstance(pv, ast.Assign) and len(pv.targets) == 1 and isinstance(pv.targets[0], ast.Name) and pv.targets[0].id == st.iter.id and isinstance(pv.value, ast.Call):
                            synth = ast.copy_location(ast.For(target=st.target, iter=pv.value, body=st.body, orelse=[], type_comment=None), st)
                            fused = self._fuse_generator(fn, synth, names, [])
                            if fused is not None:
                                lst[i:i + 1] = fused
                                del lst[j]
                                i = i - 2 + len(fused)
                            break
                i += 1

        walk(fnode.body)

    def _fuse_generator(self, fn, st, caller_names, before):
        """`for T in gen(args): BODY` / `yield from gen(args)` with gen a new generator helper -> the helper's
        body with every `yield E` replaced by `T = E; BODY` (resp. left as a yield).  None when not applicable."""
        call, target, body = None, None, None
        if isinstance(st, ast.For) and not st.orelse:
            it = st.iter
            if isinstance(it, ast.Name):
                # a local bound once to the generator call just before the loop and used nowhere else
                prev = before[-1] if before else None
                if isinstance(prev, ast.Assign) and len(prev.targets) == 1 and isinstance(prev.targets[0], ast.Name) and prev.targets[0].id == it.id and isinstance(prev.value, ast.Call):
                    uses = sum(1 for x in ast.walk(fn.node) if isinstance(x, ast.Name) and x.id == it.id) if hasattr(fn, "node") else 99
                    if uses <= 2:
                        it = prev.value
                        drop_prev = True
                    else:
                        return None
                else:
                    return None
            else:
                drop_prev = False
            if not isinstance(it, ast.Call):
                return None
            call, target, body = it, st.target, st.body
            # break / continue of this loop inside BODY cannot be expressed after fusion
            def own_jumps(stmts):
                for x in stmts:
                    if isinstance(x, (ast.Break, ast.Continue)):
                        return True
                    if isinstance(x, (ast.For, ast.While, ast.FunctionDef, ast.AsyncFunctionDef, ast.ClassDef)):
                        continue
                    for fld in ("body", "orelse", "finalbody"):
                        if own_jumps(getattr(x, fld, None) or []):
                            return True
                    for h in getattr(x, "handlers", []) or []:
                        if own_jumps(h.body):
                            return True
                return False
            if own_jumps(body):
                return None
        elif isinstance(st, ast.Expr) and isinstance(st.value, ast.YieldFrom) and isinstance(st.value.value, ast.Call):
            call, drop_prev = st.value.value, False
        else:
            return None
        g, recv = self._resolve(fn, call)
        if g is None or g.qual == fn.qual:
            return None
        try:
            if g.qual in self._active or len(self._active) > MAX_DEPTH:
                raise CannotInline("recursion")
            stmts, _ = self._expand(fn, call, g, recv, caller_names, False, generator=True)
        except CannotInline as e:
            self.refused.append((fn.qual, g.qual, str(e)))
            return None
        if body is not None:
            def subst(lst):
                res = []
                for x in lst:
                    if isinstance(x, ast.Expr) and isinstance(x.value, ast.Yield):
                        v = x.value.value if x.value.value is not None else ast.copy_location(ast.Constant(value=None), x)
                        res.append(ast.copy_location(ast.Assign(targets=[_clone(target)], value=v, lineno=x.lineno), x))
                        res.extend(_clone(body))
                        continue
                    if isinstance(x, ast.Expr) and isinstance(x.value, ast.YieldFrom):
                        inner = ast.copy_location(ast.For(target=_clone(target), iter=x.value.value, body=_clone(body), orelse=[]), x)
                        res.append(inner)
                        continue
                    for fld in ("body", "orelse", "finalbody"):
                        sub = getattr(x, fld, None)
                        if isinstance(sub, list) and sub and isinstance(sub[0], ast.stmt):
                            setattr(x, fld, subst(sub))
                    for h in getattr(x, "handlers", []) or []:
                        h.body = subst(h.body)
                    res.append(x)
                return res
            stmts = subst(stmts)
            stmts, _ = _desugar_body(stmts)  # (a, b) = (x, y) produced by the substitution
        caller_names |= {n.id for s_ in stmts for n in ast.walk(s_) if isinstance(n, ast.Name)}
        if drop_prev:
            before.pop()
        return stmts

    def flat_node(self, fn):
        if fn.qual in self._done:
            return self._done[fn.qual]
        node = fn.node
        # cheap test first: any call of a new helper at all?
        need = False
        for n in ast.walk(node):
            if isinstance(n, ast.Call):
                g, _ = self._resolve(fn, n)
                if g is not None and g.qual != fn.qual:
                    need = True
                    break
        if not need:
            self._done[fn.qual] = node
            return node
        self._active.append(fn.qual)
        try:
            new = _clone(node)
            new.body = self._flatten_body(fn, new.body, _all_names(node))
            self._fuse_late(fn, new)
            _scalarize_results(new)
            _forward_single_results(new)
            _drop_self_assignments(new)
            _scalarize_records(self.m, fn, new)
            ast.fix_missing_locations(new)
        finally:
            self._active.pop()
        for parent in ast.walk(new):
            for child in ast.iter_child_nodes(parent):
                child._parent = parent
        new._parent = getattr(node, "_parent", None)
        self._done[fn.qual] = new
        return new


def _scalarize_records(model, fn, fnode):
    """`r = Record(a, b)` ... `r.x` ... `r.y`  ->  `a` ... `b` for a local bound once to a plain record (a private value
    class / NamedTuple that only carries values, see terms.Resolver._record_fields) whose arguments are plain names that
    are not re-bound after the construction, when every use of the local is such a field read."""
    from .terms import Resolver

    order = {}
    stack = [fnode]
    while stack:  # pre-order (program order), unlike ast.walk
        n = stack.pop()
        order[id(n)] = len(order)
        stack.extend(reversed(list(ast.iter_child_nodes(n))))
    cands = {}
    stores = {}
    for n in ast.walk(fnode):
        if isinstance(n, ast.Name) and isinstance(n.ctx, (ast.Store, ast.Del)):
            stores.setdefault(n.id, []).append(n)
    res = None
    for st in ast.walk(fnode):
        if isinstance(st, ast.Assign) and len(st.targets) == 1 and isinstance(st.targets[0], ast.Name) and isinstance(st.value, ast.Call) \
                and isinstance(st.value.func, ast.Name) and st.value.func.id in model.classes and len(stores.get(st.targets[0].id, [])) == 1 \
                and st.targets[0].id not in [a.arg for a in fnode.args.args + fnode.args.kwonlyargs + fnode.args.posonlyargs]:
            if res is None:
                res = Resolver(model, fn, flow=False, inline=False)
            fields = res._record_fields(st.value.func.id)
            if fields is None or any(isinstance(a, ast.Starred) for a in st.value.args) or any(k.arg is None for k in st.value.keywords):
                continue
            byfield = {}
            for f, i in fields.items():
                if i < len(st.value.args):
                    byfield[f] = st.value.args[i]
            for k in st.value.keywords:
                byfield[k.arg] = k.value
            if set(byfield) != set(fields):
                continue
            ok = True
            for a in byfield.values():
                if isinstance(a, ast.Constant):
                    continue
                if isinstance(a, ast.Name) and not any(order.get(id(x), 0) > order.get(id(st), 0) for x in stores.get(a.id, [])):
                    continue
                ok = False
            if ok:
                cands[st.targets[0].id] = (st, byfield)
    if not cands:
        return
    parent = {}
    for p in ast.walk(fnode):
        for c in ast.iter_child_nodes(p):
            parent[id(c)] = p
    for name, (st, byfield) in list(cands.items()):
        uses = [n for n in ast.walk(fnode) if isinstance(n, ast.Name) and n.id == name and isinstance(n.ctx, ast.Load)]
        if not uses or not all(isinstance(parent.get(id(u)), ast.Attribute) and parent[id(u)].value is u and isinstance(parent[id(u)].ctx, ast.Load) and parent[id(u)].attr in byfield
                               and order.get(id(u), 0) > order.get(id(st), 0) for u in uses):
            continue
        for u in uses:
            at = parent[id(u)]
            _replace(fnode, at, _clone(byfield[at.attr]))


def _drop_self_assignments(fnode):
    """`x = x` (left behind when the result of `x = helper(x)` was forwarded) is dropped."""
    for p in ast.walk(fnode):
        for fld in ("body", "orelse", "finalbody"):
            lst = getattr(p, fld, None)
            if isinstance(lst, list) and lst and isinstance(lst[0], ast.stmt):
                keep = [st for st in lst if not (isinstance(st, ast.Assign) and len(st.targets) == 1 and isinstance(st.targets[0], ast.Name) and isinstance(st.value, ast.Name) and st.value.id == st.targets[0].id)]
                if len(keep) != len(lst):
                    lst[:] = keep or [ast.copy_location(ast.Pass(), lst[0])]


def _forward_single_results(fnode):
    """`inl_ret = E` (the only store) ... `x = inl_ret` (the only read)  ->  `x = E` at the store site: the result
    variable of an inlined helper with one exit is the caller's variable."""
    stores, loads = {}, {}
    parent = {}
    for p in ast.walk(fnode):
        for c in ast.iter_child_nodes(p):
            parent[id(c)] = p
    for n in ast.walk(fnode):
        if isinstance(n, ast.Name) and n.id.startswith("inl_ret__i"):
            (stores if isinstance(n.ctx, ast.Store) else loads).setdefault(n.id, []).append(n)
    for name, st_nodes in stores.items():
        ld = loads.get(name, [])
        if len(st_nodes) != 1 or len(ld) != 1:
            continue
        sp, lp = parent.get(id(st_nodes[0])), parent.get(id(ld[0]))
        if not (isinstance(sp, ast.Assign) and len(sp.targets) == 1 and sp.targets[0] is st_nodes[0]):
            continue
        # `inl_ret = E` / `if inl_ret:` (the read is the first thing the test evaluates) -> `if E:`
        top = ld[0]
        while isinstance(parent.get(id(top)), (ast.BoolOp, ast.UnaryOp)):
            pp = parent[id(top)]
            if isinstance(pp, ast.BoolOp) and pp.values[0] is not top:
                break
            if isinstance(pp, ast.UnaryOp) and not isinstance(pp.op, ast.Not):
                break
            top = pp
        ifst = parent.get(id(top))
        if isinstance(ifst, ast.If) and ifst.test is top:
            holder = parent.get(id(sp))
            if holder is not None and holder is parent.get(id(ifst)):
                for fld in ("body", "orelse", "finalbody"):
                    lst = getattr(holder, fld, None)
                    if isinstance(lst, list) and sp in lst and ifst in lst and lst.index(ifst) == lst.index(sp) + 1:
                        class R(ast.NodeTransformer):
                            def visit_Name(self, n, _ld=ld[0], _v=sp.value):
                                return _v if n is _ld else n
                        ifst.test = R().visit(ifst.test)
                        lst.remove(sp)
                        break
            continue
        if not (isinstance(lp, ast.Assign) and lp.value is ld[0] and len(lp.targets) == 1 and isinstance(lp.targets[0], ast.Name)):
            continue
        # same statement list, the copy right after the store
        holder = parent.get(id(sp))
        if holder is None or holder is not parent.get(id(lp)):
            continue
        for fld in ("body", "orelse", "finalbody"):
            lst = getattr(holder, fld, None)
            if isinstance(lst, list) and sp in lst and lp in lst and lst.index(lp) == lst.index(sp) + 1:
                sp.targets = [ast.copy_location(ast.Name(id=lp.targets[0].id, ctx=ast.Store()), sp)]
                lst.remove(lp)
                break


def _scalarize_results(fnode):
    """Result variables of inlined helpers that only ever hold n-tuples written as such (`inl_ret = (a, b)`) and
    are only ever unpacked (`x, y = inl_ret`) are split into one variable per position:
    `inl_ret_0 = a; inl_ret_1 = b` ... `x = inl_ret_0; y = inl_ret_1`."""
    stores, loads, bad = {}, {}, set()
    parent = {}
    for p in ast.walk(fnode):
        for c in ast.iter_child_nodes(p):
            parent[id(c)] = p
    for n in ast.walk(fnode):
        if isinstance(n, ast.Name) and n.id.startswith("inl_ret__i"):
            p = parent.get(id(n))
            if isinstance(n.ctx, ast.Store):
                if isinstance(p, ast.Assign) and len(p.targets) == 1 and p.targets[0] is n and isinstance(p.value, ast.Tuple) and not any(isinstance(e, ast.Starred) for e in p.value.elts):
                    stores.setdefault(n.id, []).append(p)
                else:
                    bad.add(n.id)
            elif isinstance(n.ctx, ast.Load):
                if isinstance(p, ast.Assign) and p.value is n and len(p.targets) == 1 and isinstance(p.targets[0], (ast.Tuple, ast.List)) \
                        and all(isinstance(e, (ast.Name, ast.Tuple, ast.List)) for e in p.targets[0].elts):
                    loads.setdefault(n.id, []).append(p)
                else:
                    bad.add(n.id)
            else:
                bad.add(n.id)
    todo = {}
    for name, sts in stores.items():
        if name in bad or name not in loads:
            continue
        arity = {len(st.value.elts) for st in sts} | {len(st.targets[0].elts) for st in loads[name]}
        if len(arity) == 1:
            todo[name] = arity.pop()
    if not todo:
        return

    def rewrite(body):
        out = []
        for st in body:
            for fld in ("body", "orelse", "finalbody"):
                sub = getattr(st, fld, None)
                if isinstance(sub, list) and sub and isinstance(sub[0], ast.stmt):
                    setattr(st, fld, rewrite(sub))
            for h in getattr(st, "handlers", []) or []:
                h.body = rewrite(h.body)
            if isinstance(st, ast.Assign) and len(st.targets) == 1 and isinstance(st.targets[0], ast.Name) and st.targets[0].id in todo and isinstance(st.value, ast.Tuple):
                nm = st.targets[0].id
                for i, e in enumerate(st.value.elts):
                    out.append(ast.copy_location(ast.Assign(targets=[ast.copy_location(ast.Name(id="%s_%d" % (nm, i), ctx=ast.Store()), st)], value=e), st))
            elif isinstance(st, ast.Assign) and isinstance(st.value, ast.Name) and st.value.id in todo and isinstance(st.targets[0], (ast.Tuple, ast.List)):
                nm = st.value.id
                for i, t in enumerate(st.targets[0].elts):
                    out.append(ast.copy_location(ast.Assign(targets=[t], value=ast.copy_location(ast.Name(id="%s_%d" % (nm, i), ctx=ast.Load()), st)), st))
            else:
                out.append(st)
        return out

    fnode.body = rewrite(fnode.body)


def _replace(st, old, new):
    for parent in ast.walk(st):
        for fld, val in ast.iter_fields(parent):
            if val is old:
                setattr(parent, fld, new)
                return
            if isinstance(val, list):
                for i, x in enumerate(val):
                    if x is old:
                        val[i] = new
                        return
    raise CannotInline("call site not found")


def flatten_model(model):
    """Rewrite Func.node of every function that calls a new helper; returns the Flattener (log)."""
    fl = Flattener(model)
    originals = {}
    for q, fn in list(model.funcs.items()):
        if "/posc.py" in fn.path or fn.path.endswith("posc.py"):
            continue  # the table module has its own interpreter
        originals[q] = fn.node
    for q, fn in list(model.funcs.items()):
        if q not in originals:
            continue
        new = fl.flat_node(fn)
        if new is not fn.node:
            need = fl.globals_needed.get(q, set()) - {nm for st in new.body if isinstance(st, ast.Global) for nm in st.names}
            if need:
                lead = 1 if new.body and isinstance(new.body[0], ast.Expr) and isinstance(new.body[0].value, ast.Constant) else 0
                new.body.insert(lead, ast.copy_location(ast.Global(names=sorted(need)), new.body[0]))
            fn.orig_node = fn.node
            fn.node = new
    _absorb(model, fl)
    # nested functions of a rewritten function: point them at the copies
    for q, fn in model.funcs.items():
        p = fn.parent
        if p is not None and getattr(p, "orig_node", None) is not None and q in originals:
            for n in ast.walk(p.node):
                if isinstance(n, (ast.FunctionDef, ast.AsyncFunctionDef)) and n.name == fn.name and n.lineno == originals[q].lineno:
                    if getattr(fn, "orig_node", None) is None:
                        fn.orig_node = fn.node
                        fn.node = n
                    break
    return fl


def _absorb(model, fl):
    """A private helper (or local closure) all of whose uses were inlined has no behaviour of its own left:
    it is taken out of the model, so that who-may-write rules do not see the same statements twice."""
    inlined = {}
    for caller, helper, _ in fl.log:
        inlined.setdefault(helper, set()).add(caller)
    fl.absorbed = []
    if not inlined:
        return
    # remaining references by name, outside the helper's own definition
    def refs(name, skip_nodes):
        n_ = 0
        seen_roots = []
        for q, f in model.funcs.items():
            if "posc.py" in f.path and f.parent is None and not f.cls:
                pass
            root = f.node
            if f.parent is not None:
                continue  # visited through its top-level ancestor
            seen_roots.append(root)
        for ci in model.classes.values():
            for st in ci.node.body:
                if not isinstance(st, (ast.FunctionDef, ast.AsyncFunctionDef)):
                    seen_roots.append(st)
        for rel, (tree, _src) in model.trees.items():
            for st in tree.body:
                if not isinstance(st, (ast.FunctionDef, ast.AsyncFunctionDef, ast.ClassDef)):
                    seen_roots.append(st)
        stack = list(seen_roots)
        while stack:
            x = stack.pop()
            if any(x is s_ for s_ in skip_nodes):
                continue
            if (isinstance(x, ast.Attribute) and x.attr == name) or (isinstance(x, ast.Name) and x.id == name):
                n_ += 1
            stack.extend(ast.iter_child_nodes(x))
        return n_

    for hq in sorted(inlined):
        g = model.funcs.get(hq)
        if g is None or not (g.name.startswith("_") or g.parent is not None):
            continue
        skip = [g.node, getattr(g, "orig_node", None)]
        # the definition statement inside a rewritten parent is a copy: find it by name
        if g.parent is not None:
            for x in ast.walk(g.parent.node):
                if isinstance(x, (ast.FunctionDef, ast.AsyncFunctionDef)) and x.name == g.name:
                    skip.append(x)
        if refs(g.name, [x for x in skip if x is not None]):
            continue
        fl.absorbed.append(hq)
        del model.funcs[hq]
        if g in model.by_name.get(g.name, []):
            model.by_name[g.name].remove(g)
        if g.cls and g.is_method and model.classes.get(g.cls) and model.classes[g.cls].methods.get(g.name) is g:
            del model.classes[g.cls].methods[g.name]
        if model.module_funcs.get(g.module, {}).get(g.name) is g:
            del model.module_funcs[g.module][g.name]
        if g.parent is not None:
            # drop the local definition from the (rewritten) parent
            for x in ast.walk(g.parent.node):
                for fld in ("body", "orelse", "finalbody"):
                    lst = getattr(x, fld, None)
                    if isinstance(lst, list):
                        lst[:] = [y for y in lst if not (isinstance(y, (ast.FunctionDef, ast.AsyncFunctionDef)) and y.name == g.name)] or ([ast.copy_location(ast.Pass(), x)] if lst and fld == "body" and isinstance(x, ast.stmt) else [])
        # nested functions of an absorbed helper go with it
        for q2 in [q2 for q2 in model.funcs if q2.startswith(hq + ".")]:
            f2 = model.funcs.pop(q2)
            if f2 in model.by_name.get(f2.name, []):
                model.by_name[f2.name].remove(f2)


# ---------------------------------------------------------------------------------------------------
def resolve_callee(model, fn, call):
    """(callee Func, number of leading parameters bound by the receiver) for a call whose target is
    unambiguous in the repo, else (None, 0)."""
    f = call.func
    m = model
    if isinstance(f, ast.Name):
        if f.id in m.classes:
            g = m.lookup(f.id, "__init__")
            return (g, 1) if g is not None else (None, 0)
        q = fn
        while q is not None:
            g = m.funcs.get(q.qual + "." + f.id)
            if g is not None:
                return g, 0
            q = q.parent
        g = m.module_funcs.get(fn.module, {}).get(f.id)
        if g is not None:
            return g, 0
        c = [x for x in m.by_name.get(f.id, []) if x.cls is None and x.parent is None]
        return (c[0], 0) if len(c) == 1 else (None, 0)
    if isinstance(f, ast.Attribute):
        selfname = fn.params[0] if fn.cls and fn.params and not fn.is_staticmethod and (fn.is_method or fn.parent is not None) else None
        g = None
        if isinstance(f.value, ast.Name) and f.value.id == selfname and fn.cls and not fn.parent:
            g = m.lookup(fn.cls, f.attr)
        elif isinstance(f.value, ast.Name) and f.value.id in m.classes:
            g = m.lookup(f.value.id, f.attr)
            if g is not None:
                return g, (0 if not (g.is_staticmethod or g.is_classmethod) else (1 if g.is_classmethod else 0))
        if g is None:
            cands = {id(x): x for x in m.by_name.get(f.attr, []) if x.is_method}
            if len(cands) == 1:
                g = next(iter(cands.values()))
            elif len(cands) > 1 and len({(tuple(x.params[1:]), x.is_staticmethod) for x in cands.values()}) == 1:
                g = next(iter(cands.values()))
        if g is None:
            return None, 0
        return g, (0 if g.is_staticmethod else 1)
    return None, 0


def normalize_calls(model):
    """Keyword arguments of calls to repo functions become positional where that leaves no gap
    (`self.CheckValues(values, dimension=d)` -> `self.CheckValues(values, d)`), so that rules see one
    spelling of a call.  The table module is left alone (its interpreter binds keywords itself)."""
    n = 0
    # `super().m(a)` inside a method of class C is `B.m(self, a)` for the next class B of C's linearisation that
    # defines m (the explicit spelling is the one the baseline uses)
    for q, fn in list(model.funcs.items()):
        if fn.path.endswith("posc.py") or fn.parent is not None or not fn.cls or not fn.is_method or fn.is_staticmethod or not fn.params:
            continue
        selfname = fn.params[0]
        for call in [x for x in ast.walk(fn.node) if isinstance(x, ast.Call)]:
            f = call.func
            if not (isinstance(f, ast.Attribute) and isinstance(f.value, ast.Call) and isinstance(f.value.func, ast.Name) and f.value.func.id == "super"):
                continue
            sargs = f.value.args
            if not (len(sargs) == 0 or (len(sargs) == 2 and isinstance(sargs[0], ast.Name) and sargs[0].id == fn.cls and isinstance(sargs[1], ast.Name) and sargs[1].id == selfname)):
                continue
            mro = model.mro(fn.cls)
            base = next((c for c in mro[1:] if c in model.classes and f.attr in model.classes[c].methods and model.classes[c].methods[f.attr].cls == c), None)
            if base is None:
                continue
            tgt = model.classes[base].methods[f.attr]
            if tgt.is_staticmethod:
                continue
            call.func = ast.copy_location(ast.Attribute(value=ast.copy_location(ast.Name(id=base, ctx=ast.Load()), f), attr=f.attr, ctx=ast.Load()), f)
            if not tgt.is_classmethod:
                call.args.insert(0, ast.copy_location(ast.Name(id=selfname, ctx=ast.Load()), f))
            n += 1
        relink(fn.node)
    for q, fn in list(model.funcs.items()):
        if fn.path.endswith("posc.py") or fn.parent is not None:
            continue
        for call in [x for x in ast.walk(fn.node) if isinstance(x, ast.Call)]:
            if not call.keywords or any(k.arg is None for k in call.keywords) or any(isinstance(a, ast.Starred) for a in call.args):
                continue
            # the function lexically enclosing the call decides what `self` is
            g, skip = resolve_callee(model, fn, call)
            if g is None:
                continue
            a = g.node.args
            pos = [x.arg for x in a.posonlyargs + a.args][skip:]
            if a.vararg is not None and len(call.args) >= len(pos):
                continue
            kw = {k.arg: k for k in call.keywords}
            i = len(call.args)
            while i < len(pos) and pos[i] in kw:
                k = kw.pop(pos[i])
                call.args.append(k.value)
                call.keywords.remove(k)
                i += 1
                n += 1
    model.normalized_keywords = n
    return n


# ---------------------------------------------------------------------------------------------------
def _desugar_body(stmts):
    out = []
    changed = False
    for st in stmts:
        for fld in ("body", "orelse", "finalbody"):
            sub = getattr(st, fld, None)
            if isinstance(sub, list) and sub and isinstance(sub[0], ast.stmt) and not isinstance(st, (ast.FunctionDef, ast.AsyncFunctionDef, ast.ClassDef)):
                new, ch = _desugar_body(sub)
                if ch:
                    setattr(st, fld, new)
                    changed = True
        for h in getattr(st, "handlers", []) or []:
            new, ch = _desugar_body(h.body)
            if ch:
                h.body = new
                changed = True
        if isinstance(st, ast.AnnAssign) and isinstance(st.target, (ast.Name, ast.Attribute)):
            # `x: T = v` is `x = v` (the annotation is kept aside for receiver typing); a bare `x: T` is nothing
            if st.value is None:
                if isinstance(st.target, ast.Name):
                    out.append(ast.copy_location(ast.Pass(), st))
                    changed = True
                    continue
            else:
                new_st = ast.copy_location(ast.Assign(targets=[st.target], value=st.value, lineno=st.lineno), st)
                new_st._annotation = st.annotation
                st = new_st
                changed = True
        if isinstance(st, ast.If) and not st.orelse and isinstance(st.test, ast.BoolOp) and isinstance(st.test.op, ast.And):
            # `if A and (x := E) is not None: BODY` (no else): `if A:` / `if (x := E) is not None: BODY`, so that the
            # assignment expression leads its own test and can be hoisted
            k = next((i_ for i_, v_ in enumerate(st.test.values) if i_ > 0 and _leading_walrus(v_) is not None), None)
            if k is not None:
                vals = st.test.values
                outer_t = vals[0] if k == 1 else ast.copy_location(ast.BoolOp(op=ast.And(), values=vals[:k]), st.test)
                inner_t = vals[k] if k == len(vals) - 1 else ast.copy_location(ast.BoolOp(op=ast.And(), values=vals[k:]), st.test)
                inner = ast.copy_location(ast.If(test=inner_t, body=st.body, orelse=[]), st)
                new, _ = _desugar_body([ast.copy_location(ast.If(test=outer_t, body=[inner], orelse=[]), st)])
                out += new
                changed = True
                continue
        hoisted = _hoist_leading_walrus(st)
        if hoisted:
            new, _ = _desugar_body(hoisted)
            out += new
            changed = True
            continue
        if isinstance(st, ast.Match):
            ifs = _match_to_ifs(st)
            if ifs is not None:
                new, _ = _desugar_body(ifs)
                out += new
                changed = True
                continue
        rd = _reduce_to_loop(st)
        if rd is not None:
            new, _ = _desugar_body(rd)
            out += new
            changed = True
            continue
        nx = _next_search(st, out[-1] if out else None)
        if nx is not None:
            nx, _ = _desugar_body(nx)
            out += nx
            changed = True
            continue
        if isinstance(st, ast.Return) and isinstance(st.value, ast.BoolOp) and len(st.value.values) >= 2 and _simple_operand(st.value.values[0]):
            # `return A or B` (A a name / attribute chain): `if A: return A` / `else: return B`; `return A and B`: `if A: return B` / `else: return A`
            bo = st.value
            rest = bo.values[1] if len(bo.values) == 2 else ast.copy_location(ast.BoolOp(op=bo.op, values=bo.values[1:]), bo)
            first = ast.copy_location(ast.Return(value=_clone(bo.values[0])), st)
            other = ast.copy_location(ast.Return(value=rest), st)
            a_, _ = _desugar_body([first])
            b_, _ = _desugar_body([other])
            body, orelse = (a_, b_) if isinstance(bo.op, ast.Or) else (b_, a_)
            out.append(ast.copy_location(ast.If(test=_clone(bo.values[0]), body=body, orelse=orelse), st))
            changed = True
            continue
        if isinstance(st, ast.Return) and isinstance(st.value, ast.IfExp):
            e = st.value
            a = ast.copy_location(ast.Return(value=e.body), e.body)
            b = ast.copy_location(ast.Return(value=e.orelse), e.orelse)
            body, _ = _desugar_body([a])
            orelse, _ = _desugar_body([b])
            out.append(ast.copy_location(ast.If(test=e.test, body=body, orelse=orelse), st))
            changed = True
        elif isinstance(st, ast.Assign) and isinstance(st.value, ast.IfExp) and len(st.targets) == 1 and isinstance(st.targets[0], ast.Name):
            e = st.value
            a = ast.copy_location(ast.Assign(targets=[_clone(st.targets[0])], value=e.body, lineno=st.lineno), st)
            b = ast.copy_location(ast.Assign(targets=[_clone(st.targets[0])], value=e.orelse, lineno=st.lineno), st)
            body, _ = _desugar_body([a])
            orelse, _ = _desugar_body([b])
            out.append(ast.copy_location(ast.If(test=e.test, body=body, orelse=orelse), st))
            changed = True
        elif isinstance(st, ast.Assign) and isinstance(st.value, ast.IfExp) and len(st.targets) == 1 and isinstance(st.targets[0], ast.Tuple) and all(isinstance(t_, ast.Name) for t_ in st.targets[0].elts):
            # `a, b = P if C else Q`
            e = st.value
            a = ast.copy_location(ast.Assign(targets=[_clone(st.targets[0])], value=e.body, lineno=st.lineno), st)
            b = ast.copy_location(ast.Assign(targets=[_clone(st.targets[0])], value=e.orelse, lineno=st.lineno), st)
            body, _ = _desugar_body([a])
            orelse, _ = _desugar_body([b])
            out.append(ast.copy_location(ast.If(test=e.test, body=body, orelse=orelse), st))
            changed = True
        elif isinstance(st, ast.AugAssign) and isinstance(st.value, ast.IfExp) and isinstance(st.target, ast.Name):
            e = st.value
            a = ast.copy_location(ast.AugAssign(target=_clone(st.target), op=st.op, value=e.body), st)
            b = ast.copy_location(ast.AugAssign(target=_clone(st.target), op=st.op, value=e.orelse), st)
            body, _ = _desugar_body([a])
            orelse, _ = _desugar_body([b])
            out.append(ast.copy_location(ast.If(test=e.test, body=body, orelse=orelse), st))
            changed = True
        elif isinstance(st, ast.Assign) and len(st.targets) == 1 and isinstance(st.targets[0], (ast.Tuple, ast.List)) and isinstance(st.value, (ast.Tuple, ast.List)) \
                and len(st.targets[0].elts) == len(st.value.elts) and _independent(st.targets[0].elts, st.value.elts):
            # a, b = x, y  with no element reading what another one writes: the same as a = x; b = y
            for t_, v_ in zip(st.targets[0].elts, st.value.elts):
                out.append(ast.copy_location(ast.Assign(targets=[t_], value=v_, lineno=st.lineno), st))
            changed = True
        elif _argument_ifexp(st) is not None:
            # `return f(a, X if C else Y)` with f and the other arguments free of effects: `if C: return f(a, X)` / `else: return f(a, Y)`
            call, slot, e = _argument_ifexp(st)
            arms = []
            for val in (e.body, e.orelse):
                st2 = _clone(st)
                call2 = st2.value
                if isinstance(slot, int):
                    call2.args[slot] = _clone(val)
                else:
                    for kw in call2.keywords:
                        if kw.arg == slot:
                            kw.value = _clone(val)
                arm, _ = _desugar_body([st2])
                arms.append(arm)
            out.append(ast.copy_location(ast.If(test=e.test, body=arms[0], orelse=arms[1]), st))
            changed = True
        else:
            out.append(st)
    return out, changed


def _simple_operand(x):
    if isinstance(x, (ast.Name, ast.Constant)):
        return True
    return isinstance(x, ast.Attribute) and _simple_operand(x.value)


def _argument_ifexp(st):
    """(call, position or keyword, the conditional expression) when the statement is `return CALL` and exactly one direct argument of CALL is a conditional expression while the callee expression and every
    other argument are names, attribute chains or constants (their evaluation can move behind the test)."""
    if isinstance(st, ast.Return):
        call = st.value  # (returns only: an assignment split in two would double the construction sites the rules count)
    else:
        return None
    if not isinstance(call, ast.Call):
        return None

    def simple(x):
        if isinstance(x, (ast.Name, ast.Constant)):
            return True
        return isinstance(x, ast.Attribute) and simple(x.value)

    found = None
    for i, a in enumerate(call.args):
        if isinstance(a, ast.IfExp):
            if found is not None:
                return None
            found = (i, a)
        elif not simple(a):
            return None
    for kw in call.keywords:
        if kw.arg is None:
            return None
        if isinstance(kw.value, ast.IfExp):
            if found is not None:
                return None
            found = (kw.arg, kw.value)
        elif not simple(kw.value):
            return None
    if found is None or not simple(call.func):
        return None
    return call, found[0], found[1]


def _leading_walrus(e):
    """The `name := value` that is evaluated first, unconditionally and before anything else of the expression."""
    while True:
        if isinstance(e, ast.NamedExpr):
            return e if isinstance(e.target, ast.Name) else None
        if isinstance(e, ast.Compare):
            e = e.left
        elif isinstance(e, ast.BoolOp):
            e = e.values[0]
        elif isinstance(e, ast.UnaryOp):
            e = e.operand
        elif isinstance(e, ast.BinOp):
            e = e.left
        elif isinstance(e, (ast.Attribute, ast.Subscript, ast.Starred)):
            e = e.value
        elif isinstance(e, ast.Call):
            if isinstance(e.func, ast.Name):
                if not e.args:
                    return None
                e = e.args[0]
            else:
                e = e.func
        elif isinstance(e, (ast.Tuple, ast.List)) and e.elts:
            e = e.elts[0]
        else:
            return None


def _hoist_leading_walrus(st):
    """`if (x := E) is not None: ...` -> `x = E` / `if x is not None: ...` (also for the value of a return, an assignment
    or an expression statement).  None when the statement has no such leading assignment expression."""
    if isinstance(st, ast.If):
        holder, fld = st, "test"
    elif isinstance(st, (ast.Return, ast.Assign, ast.Expr)) and st.value is not None:
        holder, fld = st, "value"
    else:
        return None
    w = _leading_walrus(getattr(holder, fld))
    if w is None:
        return None
    if isinstance(st, ast.Assign) and any(isinstance(x, ast.Name) and x.id == w.target.id for t in st.targets for x in ast.walk(t)):
        return None

    class R(ast.NodeTransformer):
        def visit_NamedExpr(self, n):
            if n is w:
                return ast.copy_location(ast.Name(id=w.target.id, ctx=ast.Load()), n)
            return self.generic_visit(n)

    setattr(holder, fld, R().visit(getattr(holder, fld)))
    pre = ast.copy_location(ast.Assign(targets=[ast.Name(id=w.target.id, ctx=ast.Store())], value=w.value, lineno=st.lineno), st)
    ast.fix_missing_locations(pre)
    return [pre, st]


def _pattern_test(pat, subj, binds):
    """Condition under which a simple pattern matches the subject expression (an ast expr that is cheap and pure: a name, an
    attribute chain or a literal tuple of such), or None when the pattern kind is not supported.  Captures are appended to
    `binds` as (name, expr)."""
    def C(x):
        return _clone(x)

    if isinstance(pat, ast.MatchValue):
        return ast.Compare(left=C(subj), ops=[ast.Eq()], comparators=[C(pat.value)])
    if isinstance(pat, ast.MatchSingleton):
        return ast.Compare(left=C(subj), ops=[ast.Is()], comparators=[ast.Constant(value=pat.value)])
    if isinstance(pat, ast.MatchAs):
        if pat.pattern is None:
            if pat.name is not None:
                binds.append((pat.name, C(subj)))
            return ast.Constant(value=True)
        t = _pattern_test(pat.pattern, subj, binds)
        if t is not None and pat.name is not None:
            binds.append((pat.name, C(subj)))
        return t
    if isinstance(pat, ast.MatchOr):
        parts = []
        for p_ in pat.patterns:
            b_ = []
            t = _pattern_test(p_, subj, b_)
            if t is None or b_:
                return None
            parts.append(t)
        return ast.BoolOp(op=ast.Or(), values=parts)
    if isinstance(pat, ast.MatchClass) and not pat.patterns and not pat.kwd_patterns:
        return ast.Call(func=ast.Name(id="isinstance", ctx=ast.Load()), args=[C(subj), C(pat.cls)], keywords=[])
    if isinstance(pat, ast.MatchSequence) and isinstance(subj, ast.Tuple) and len(pat.patterns) == len(subj.elts) and not any(isinstance(p_, ast.MatchStar) for p_ in pat.patterns):
        parts = []
        for p_, e_ in zip(pat.patterns, subj.elts):
            t = _pattern_test(p_, e_, binds)
            if t is None:
                return None
            if not (isinstance(t, ast.Constant) and t.value is True):
                parts.append(t)
        if not parts:
            return ast.Constant(value=True)
        return parts[0] if len(parts) == 1 else ast.BoolOp(op=ast.And(), values=parts)
    return None


def _match_to_ifs(st):
    """`match subject: case P1: B1 ...` with simple patterns (literals, None/True/False, classes without sub-patterns,
    captures, wildcards, alternatives, tuples of those against a literal tuple subject, guards) -> the if/elif chain it
    abbreviates.  None for anything else (the flow graph then reports the statement as not modelled)."""
    def pure(e):
        if isinstance(e, (ast.Name, ast.Constant)):
            return True
        if isinstance(e, ast.Attribute):
            return pure(e.value)
        if isinstance(e, ast.Call) and isinstance(e.func, ast.Name) and e.func.id in ("len", "type") and not e.keywords:
            return all(pure(x) for x in e.args)  # deterministic and free of effects: may be written once per test
        return isinstance(e, ast.Tuple) and all(pure(x) for x in e.elts)

    pre = []
    if not pure(st.subject):
        # evaluate the subject (or the impure elements of a literal tuple subject) once, into temporaries
        _NEXT_COUNTER[0] += 1
        if isinstance(st.subject, ast.Tuple):
            elts = []
            for k, x in enumerate(st.subject.elts):
                if pure(x):
                    elts.append(x)
                    continue
                nm = "_match%d_%d" % (_NEXT_COUNTER[0], k)
                pre.append(ast.copy_location(ast.Assign(targets=[ast.Name(id=nm, ctx=ast.Store())], value=x, lineno=st.lineno), st))
                elts.append(ast.Name(id=nm, ctx=ast.Load()))
            subject = ast.Tuple(elts=elts, ctx=ast.Load())
        else:
            nm = "_match%d" % _NEXT_COUNTER[0]
            pre.append(ast.copy_location(ast.Assign(targets=[ast.Name(id=nm, ctx=ast.Store())], value=st.subject, lineno=st.lineno), st))
            subject = ast.Name(id=nm, ctx=ast.Load())
        st = ast.copy_location(ast.Match(subject=subject, cases=st.cases), st)
    arms = []
    for case in st.cases:
        binds = []
        t = _pattern_test(case.pattern, st.subject, binds)
        if t is None:
            return None
        if case.guard is not None:
            if binds:
                return None  # a guard that may read a capture: evaluation order matters
            t = case.guard if (isinstance(t, ast.Constant) and t.value is True) else ast.BoolOp(op=ast.And(), values=[t, case.guard])
        body = [ast.copy_location(ast.Assign(targets=[ast.Name(id=n_, ctx=ast.Store())], value=v_, lineno=case.body[0].lineno), case.body[0]) for n_, v_ in binds] + list(case.body)
        arms.append((t, body))
    node = None
    for t, body in reversed(arms):
        if isinstance(t, ast.Constant) and t.value is True:
            node = body  # an irrefutable case: what follows it is unreachable
            continue
        new_if = ast.copy_location(ast.If(test=t, body=body, orelse=(node if isinstance(node, list) else ([node] if node is not None else []))), st)
        node = new_if
    if node is None:
        return pre + [ast.copy_location(ast.Pass(), st)]
    out = pre + (node if isinstance(node, list) else [node])
    for x in out:
        ast.fix_missing_locations(x)
    return out


_NEXT_COUNTER = [0]


def _reduce_to_loop(st):
    """`x = reduce(lambda acc, item: BODY, ITER, INIT)` (also `functools.reduce`, also returned) -> the fold it abbreviates:
    `acc = INIT` / `for item in ITER: acc = BODY` / `x = acc`, with the lambda's parameters renamed apart."""
    if isinstance(st, ast.Assign) and len(st.targets) == 1 and isinstance(st.targets[0], ast.Name):
        call, is_ret = st.value, False
    elif isinstance(st, ast.Return) and st.value is not None:
        call, is_ret = st.value, True
    else:
        return None
    if not (isinstance(call, ast.Call) and len(call.args) == 3 and not call.keywords and isinstance(call.args[0], ast.Lambda)):
        return None
    f = call.func
    if not ((isinstance(f, ast.Name) and f.id == "reduce") or (isinstance(f, ast.Attribute) and f.attr == "reduce" and isinstance(f.value, ast.Name) and f.value.id == "functools")):
        return None
    lam = call.args[0]
    la = lam.args
    if len(la.args) != 2 or la.vararg or la.kwarg or la.kwonlyargs or la.defaults or la.posonlyargs:
        return None
    _NEXT_COUNTER[0] += 1
    acc, item = la.args[0].arg, la.args[1].arg
    ren = {acc: "%s__r%d" % (acc, _NEXT_COUNTER[0]), item: "%s__r%d" % (item, _NEXT_COUNTER[0])}
    if not is_ret and not any(isinstance(x_, ast.Name) and x_.id == st.targets[0].id for a_ in call.args for x_ in ast.walk(a_)):
        ren[acc] = st.targets[0].id  # the target itself accumulates (it is not read by the fold)
    body = _Rename(ren).visit(_clone(lam.body))
    init = ast.copy_location(ast.Assign(targets=[ast.Name(id=ren[acc], ctx=ast.Store())], value=call.args[2], lineno=st.lineno), st)
    step = ast.copy_location(ast.Assign(targets=[ast.Name(id=ren[acc], ctx=ast.Store())], value=body, lineno=st.lineno), st)
    loop = ast.copy_location(ast.For(target=ast.Name(id=ren[item], ctx=ast.Store()), iter=call.args[1], body=[step], orelse=[], type_comment=None), st)
    res_ = ast.Name(id=ren[acc], ctx=ast.Load())
    last = ast.copy_location(ast.Return(value=res_), st) if is_ret else ast.copy_location(ast.Assign(targets=[_clone(st.targets[0])], value=res_, lineno=st.lineno), st)
    outl = [init, loop, last] if (is_ret or ren[acc] != st.targets[0].id) else [init, loop]
    for x_ in outl:
        ast.fix_missing_locations(x_)
    return outl


def _next_search(st, prev=None):
    """`x = next((E for T in IT if C), D)` -> the search loop it abbreviates:
    `for T in IT: if C: x = E; break` / `else: x = D` (`return next(...)` likewise, with returns).  The comprehension
    variable is renamed to a fresh name, so nothing leaks."""
    if isinstance(st, ast.Assign) and len(st.targets) == 1 and isinstance(st.targets[0], ast.Name):
        call, mk = st.value, lambda v, at: [ast.copy_location(ast.Assign(targets=[_clone(st.targets[0])], value=v, lineno=st.lineno), at)]
        brk = True
    elif isinstance(st, ast.Return) and st.value is not None:
        call, mk = st.value, lambda v, at: [ast.copy_location(ast.Return(value=v), at)]
        brk = False
    else:
        return None
    if not (isinstance(call, ast.Call) and isinstance(call.func, ast.Name) and call.func.id == "next" and len(call.args) == 2 and not call.keywords
            and isinstance(call.args[0], ast.GeneratorExp) and len(call.args[0].generators) == 1 and not call.args[0].generators[0].is_async):
        return None
    gen = call.args[0]
    g = gen.generators[0]
    if not isinstance(call.args[1], (ast.Constant, ast.Name)):
        return None
    # a search over a literal tuple of names (or over a local bound to one by the statement just before): the if/elif
    # chain it abbreviates - `next((l for l in (lo, hi) if l is not None), 0.0)` is `lo if lo is not None else hi if ...`
    lit = g.iter
    if isinstance(lit, ast.Name) and isinstance(prev, ast.Assign) and len(prev.targets) == 1 and isinstance(prev.targets[0], ast.Name) and prev.targets[0].id == lit.id:
        lit = prev.value
    if isinstance(lit, (ast.Tuple, ast.List)) and 1 <= len(lit.elts) <= 4 and isinstance(g.target, ast.Name) and all(_simple_operand(e_) for e_ in lit.elts):
        chain = mk(call.args[1], st)
        for e_ in reversed(lit.elts):
            env = {g.target.id: e_}
            conds = [_SubstExpr(env).visit(_clone(c)) for c in g.ifs]
            hit_ = mk(_SubstExpr(env).visit(_clone(gen.elt)), st)
            if not conds:
                chain = hit_
                continue
            test_ = conds[0] if len(conds) == 1 else ast.BoolOp(op=ast.And(), values=conds)
            chain = [ast.copy_location(ast.If(test=test_, body=hit_, orelse=chain), st)]
        for x_ in chain:
            ast.fix_missing_locations(x_)
        return chain
    tnames = {y.id for y in ast.walk(g.target) if isinstance(y, ast.Name)}
    _NEXT_COUNTER[0] += 1
    ren = {n_: "%s__n%d" % (n_, _NEXT_COUNTER[0]) for n_ in tnames}
    target = _Rename(ren).visit(_clone(g.target))
    for y in ast.walk(target):
        if isinstance(y, ast.Name):
            y.ctx = ast.Store()
    elt = _Rename(ren).visit(_clone(gen.elt))
    ifs = [_Rename(ren).visit(_clone(c)) for c in g.ifs]
    hit = mk(elt, st) + ([ast.copy_location(ast.Break(), st)] if brk else [])
    body = hit
    for c in reversed(ifs):
        body = [ast.copy_location(ast.If(test=c, body=body, orelse=[]), st)]
    loop = ast.copy_location(ast.For(target=target, iter=g.iter, body=body, orelse=mk(call.args[1], st) if brk else [], type_comment=None), st)
    return [loop] + ([] if brk else mk(call.args[1], st))


def _independent(targets, values):
    if any(isinstance(t, ast.Starred) for t in targets) or any(isinstance(v, ast.Starred) for v in values):
        return False
    written_names = set()
    written_attrs = set()
    for t in targets:
        if isinstance(t, ast.Name):
            written_names.add(t.id)
        elif isinstance(t, ast.Attribute) and isinstance(t.value, ast.Name):
            written_attrs.add(t.attr)
        else:
            return False
    for v in values:
        for x in ast.walk(v):
            if isinstance(x, ast.Name) and x.id in written_names:
                return False
            if isinstance(x, ast.Attribute) and x.attr in written_attrs:
                return False
            if isinstance(x, ast.Call):
                return False  # a call could read or write anything
    # the targets' own receivers must not be rebound by the statement
    for t in targets:
        if isinstance(t, ast.Attribute) and t.value.id in written_names:
            return False
    return True


def relink(node):
    keep = getattr(node, "_parent", None)
    for parent in ast.walk(node):
        for child in ast.iter_child_nodes(parent):
            child._parent = parent
    node._parent = keep


def _inline_method_aliases(fnode):
    """`f = obj.method` ... `f(x)`  ->  `obj.method(x)` when f is bound once, is only ever called, and the
    object it is taken from is never rebound (the cached bound method of a "performance" commit)."""
    stores = {}
    loads = {}
    nested_names = set()
    for n in ast.walk(fnode):
        if isinstance(n, (ast.FunctionDef, ast.AsyncFunctionDef, ast.Lambda, ast.ClassDef)) and n is not fnode:
            for x in ast.walk(n):
                if isinstance(x, ast.Name):
                    nested_names.add(x.id)
        if isinstance(n, ast.Name):
            (stores if isinstance(n.ctx, (ast.Store, ast.Del)) else loads).setdefault(n.id, []).append(n)
    params = {a.arg for a in fnode.args.posonlyargs + fnode.args.args + fnode.args.kwonlyargs}
    if fnode.args.vararg:
        params.add(fnode.args.vararg.arg)
    if fnode.args.kwarg:
        params.add(fnode.args.kwarg.arg)
    changed = False
    for st in [x for x in ast.walk(fnode) if isinstance(x, ast.Assign)]:
        if len(st.targets) != 1 or not isinstance(st.targets[0], ast.Name) or not isinstance(st.value, ast.Attribute):
            continue
        name = st.targets[0].id
        if name in params or name in nested_names or len(stores.get(name, [])) != 1:
            continue
        # the attribute chain: names and attributes only
        base = st.value
        while isinstance(base, ast.Attribute):
            base = base.value
        if not isinstance(base, ast.Name):
            continue
        root = base.id
        nstores = len(stores.get(root, []))
        if not ((root in params and nstores == 0) or (root not in params and nstores == 1 and stores[root][0].lineno < st.lineno)):
            continue
        uses = loads.get(name, [])
        if not uses or not all(isinstance(getattr(u, "_parent", None), ast.Call) and u._parent.func is u for u in uses):
            continue
        if any(u.lineno < st.lineno for u in uses):
            continue
        for u in uses:
            u._parent.func = ast.copy_location(_clone(st.value), u)
        changed = True
    return changed


# ---------------------------------------------------------------------------------------------------
# table-driven code: rows of a literal tuple unrolled, lookups in constant tables by a boolean expanded
def _table_literal(model, fn, expr, _hops=0):
    """The literal (ast.Dict / ast.Tuple) bound once to a module-level name - possibly imported by name from another
    repository module - or to a class attribute (`self.X`, `cls.X`, `Class.X`) that nothing rebinds or mutates."""
    import os

    def module_literal(path, name, hops):
        tree = model.trees.get(path, (None, None))[0]
        if tree is None or hops > 2:
            return None
        binds = [st for st in tree.body if isinstance(st, (ast.Assign, ast.AnnAssign)) and any(isinstance(t, ast.Name) and t.id == name for t in (st.targets if isinstance(st, ast.Assign) else [st.target]))]
        if len(binds) == 1 and getattr(binds[0], "value", None) is not None:
            v = binds[0].value
            if isinstance(v, (ast.Dict, ast.Tuple)) and not _mutated(tree, name):
                return v
            return None
        if binds:
            return None
        for st in tree.body:
            if isinstance(st, ast.ImportFrom) and st.module:
                for al in st.names:
                    if (al.asname or al.name) == name:
                        if st.level >= 1:
                            base = os.path.dirname(path)
                            for _ in range(st.level - 1):
                                base = os.path.dirname(base)
                            cand = os.path.join(base, *st.module.split(".")) + ".py"
                            cands = [cand] if cand in model.trees else []
                        else:
                            tail = os.path.join(*st.module.split(".")) + ".py"
                            cands = [p_ for p_ in model.trees if p_.endswith(os.sep + tail) or p_ == tail]
                        if len(cands) == 1:
                            return module_literal(cands[0], al.name, hops + 1)
        return None

    def _mutated(tree, name, attr=False):
        for n in ast.walk(tree):
            tgt = None
            if isinstance(n, ast.Subscript) and isinstance(n.ctx, (ast.Store, ast.Del)):
                tgt = n.value
            elif isinstance(n, ast.Call) and isinstance(n.func, ast.Attribute) and n.func.attr not in ("get", "keys", "values", "items", "copy", "index", "count"):
                tgt = n.func.value
            elif isinstance(n, ast.Attribute) and isinstance(n.ctx, (ast.Store, ast.Del)) and attr and n.attr == name:
                return True
            elif isinstance(n, ast.Global) and name in n.names:
                return True
            if tgt is not None:
                if not attr and isinstance(tgt, ast.Name) and tgt.id == name:
                    return True
                if attr and isinstance(tgt, ast.Attribute) and tgt.attr == name:
                    return True
        return False

    if isinstance(expr, (ast.Tuple, ast.Dict)):
        return expr  # a literal table written in place (what a row of a table of tables becomes)
    if isinstance(expr, ast.Name):
        if any(isinstance(x, ast.Name) and x.id == expr.id and isinstance(x.ctx, ast.Store) for x in ast.walk(fn.node)) or expr.id in fn.params:
            return None
        return module_literal(fn.path, expr.id, 0)
    if isinstance(expr, ast.Attribute) and isinstance(expr.value, ast.Name):
        owner = None
        if fn.cls and fn.params and expr.value.id == fn.params[0] and fn.is_method and not fn.is_staticmethod:
            owner = fn.cls
        elif expr.value.id in model.classes:
            owner = expr.value.id
        if owner is None:
            return None
        found = []
        for c in [owner] + [b for b in model.family(owner) if b != owner]:
            ci = model.classes.get(c)
            node = getattr(ci, "node", None)
            if node is None:
                continue
            for st in node.body:
                if isinstance(st, (ast.Assign, ast.AnnAssign)) and any(isinstance(t, ast.Name) and t.id == expr.attr for t in (st.targets if isinstance(st, ast.Assign) else [st.target])):
                    found.append((c, st))
        if len(found) != 1 or getattr(found[0][1], "value", None) is None or not isinstance(found[0][1].value, (ast.Dict, ast.Tuple)):
            return None
        for path_, (tree, _src) in model.trees.items():
            if path_.endswith("posc.py"):
                continue
            if _mutated(tree, expr.attr, attr=True):
                return None
        return found[0][1].value
    return None


def _bool_entries(table, sl):
    """For a lookup `table[sl]` whose key depends on one `bool(E)`: (E, entry when true, entry when false), else None."""
    def const_eq(k, parts):
        if isinstance(k, ast.Constant) and len(parts) == 1:
            return k.value is parts[0] or (k.value == parts[0] and type(k.value) is type(parts[0]))
        if isinstance(k, ast.Tuple) and len(k.elts) == len(parts):
            return all(isinstance(e, ast.Constant) and (e.value is p or (e.value == p and type(e.value) is type(p))) for e, p in zip(k.elts, parts))
        return False

    def is_bool_call(e):
        return isinstance(e, ast.Call) and isinstance(e.func, ast.Name) and e.func.id == "bool" and len(e.args) == 1 and not e.keywords

    parts = sl.elts if isinstance(sl, ast.Tuple) else [sl]
    bools = [i for i, e in enumerate(parts) if is_bool_call(e)]
    if len(bools) != 1 or not all(isinstance(e, ast.Constant) for i, e in enumerate(parts) if i != bools[0]):
        return None
    E = parts[bools[0]].args[0]
    out = []
    for v in (True, False):
        key = [e.value if i != bools[0] else v for i, e in enumerate(parts)]
        entry = None
        if isinstance(table, ast.Dict):
            hits = [val for k, val in zip(table.keys, table.values) if k is not None and const_eq(k, key)]
            if len(hits) == 1:
                entry = hits[0]
        elif isinstance(table, ast.Tuple) and len(parts) == 1 and len(table.elts) == 2:
            entry = table.elts[1 if v else 0]
        if entry is None:
            return None
        out.append(entry)
    return E, out[0], out[1]


def _without_continue(body):
    """The loop body with its `continue`s expressed as conditions (`if c: continue; REST` -> `if not c: REST`), or
    None when a continue sits anywhere else than as the only statement of a top-level `if` without else."""
    out = []
    for i, st in enumerate(body):
        if isinstance(st, ast.If) and len(st.body) == 1 and isinstance(st.body[0], ast.Continue) and not st.orelse:
            rest = _without_continue(body[i + 1:])
            if rest is None:
                return None
            if rest:
                out.append(ast.copy_location(ast.If(test=ast.copy_location(ast.UnaryOp(op=ast.Not(), operand=st.test), st), body=rest, orelse=[]), st))
            return out
        if any(isinstance(x, ast.Continue) for x in ast.walk(st) if not isinstance(st, (ast.For, ast.While))):
            return None
        out.append(st)
    return out


def _expand_tables_body(model, fn, stmts, budget):
    out = []
    changed = False
    i = 0
    while i < len(stmts):
        st = stmts[i]
        for fld in ("body", "orelse", "finalbody"):
            sub = getattr(st, fld, None)
            if isinstance(sub, list) and sub and isinstance(sub[0], ast.stmt) and not isinstance(st, (ast.FunctionDef, ast.AsyncFunctionDef, ast.ClassDef)):
                new, ch = _expand_tables_body(model, fn, sub, budget)
                if ch:
                    setattr(st, fld, new)
                    changed = True
        for h in getattr(st, "handlers", []) or []:
            new, ch = _expand_tables_body(model, fn, h.body, budget)
            if ch:
                h.body = new
                changed = True
        # (1) `for a, b, c in ((x1, y1, z1), (x2, y2, z2)): BODY` -> BODY with the row substituted, once per row
        if isinstance(st, ast.For) and not st.orelse and isinstance(st.iter, (ast.Name, ast.Attribute)) and isinstance(st.target, ast.Tuple):
            tb_ = _table_literal(model, fn, st.iter)
            if isinstance(tb_, ast.Tuple):
                st.iter = _clone(tb_)  # a constant module / class table of rows: iterate the literal
            elif isinstance(st.iter, ast.Name):
                # a local bound just before to a literal tuple of rows and used for nothing else
                nm = st.iter.id
                uses = sum(1 for x in ast.walk(fn.node) if isinstance(x, ast.Name) and x.id == nm)
                prev = [j for j, o in enumerate(out) if isinstance(o, ast.Assign) and len(o.targets) == 1 and isinstance(o.targets[0], ast.Name) and o.targets[0].id == nm and isinstance(o.value, ast.Tuple)]
                if uses == 2 and len(prev) == 1 and prev[0] == len(out) - 1:
                    st.iter = out.pop(prev[0]).value
        if isinstance(st, ast.For) and not st.orelse and isinstance(st.iter, ast.Tuple) and 1 <= len(st.iter.elts) <= 4 and isinstance(st.target, ast.Tuple) \
                and any(isinstance(t, ast.Tuple) for t in st.target.elts) and all(isinstance(r, ast.Tuple) and len(r.elts) == len(st.target.elts) for r in st.iter.elts):
            # nested targets `for a, (b, c) in ((x, T), ...)`: when every element in a nested position is a literal tuple of
            # that shape, or a local bound once to one, the targets and the rows are flattened first
            def _local_tuple(nm):
                binds = [x for x in ast.walk(fn.node) if isinstance(x, ast.Name) and x.id == nm and isinstance(x.ctx, ast.Store)]
                asg = [o for o in ast.walk(fn.node) if isinstance(o, ast.Assign) and len(o.targets) == 1 and isinstance(o.targets[0], ast.Name) and o.targets[0].id == nm and isinstance(o.value, ast.Tuple)]
                return asg[0].value if len(binds) == 1 and len(asg) == 1 else None

            def _flat(t, e):
                """[(name target, element)] or None"""
                if isinstance(t, ast.Name):
                    return [(t, e)]
                if isinstance(t, ast.Tuple) and not any(isinstance(x, ast.Starred) for x in t.elts):
                    if isinstance(e, ast.Name):
                        e = _local_tuple(e.id)
                    if isinstance(e, ast.Tuple) and len(e.elts) == len(t.elts):
                        acc = []
                        for t2, e2 in zip(t.elts, e.elts):
                            sub_ = _flat(t2, e2)
                            if sub_ is None:
                                return None
                            acc += sub_
                        return acc
                return None

            rows_ = [_flat(st.target, r) for r in st.iter.elts]
            if all(r is not None for r in rows_) and len({len(r) for r in rows_}) == 1:
                st.target = ast.copy_location(ast.Tuple(elts=[t for t, _e in rows_[0]], ctx=ast.Store()), st.target)
                st.iter = ast.copy_location(ast.Tuple(elts=[ast.Tuple(elts=[_clone(e) for _t, e in r], ctx=ast.Load()) for r in rows_], ctx=ast.Load()), st.iter)
                ast.fix_missing_locations(st)
        if isinstance(st, ast.For) and not st.orelse and isinstance(st.iter, ast.Tuple) and 1 <= len(st.iter.elts) <= 4 and isinstance(st.target, ast.Tuple) \
                and all(isinstance(t, ast.Name) for t in st.target.elts) and all(isinstance(r, ast.Tuple) and len(r.elts) == len(st.target.elts) for r in st.iter.elts) \
                and not _own_breaks(st.body) and _without_continue(st.body) is not None:
            st.body = _without_continue(st.body)
            names = [t.id for t in st.target.elts]
            def _simple(e):
                if isinstance(e, (ast.Name, ast.Constant)) or (isinstance(e, ast.Attribute) and isinstance(e.value, ast.Name)):
                    return True
                return isinstance(e, ast.Tuple) and all(_simple(x) for x in e.elts)

            simple = all(_simple(e) for r in st.iter.elts for e in r.elts)
            stored = {x.id for b in st.body for x in ast.walk(b) if isinstance(x, ast.Name) and isinstance(x.ctx, (ast.Store, ast.Del))}
            read_roots = {x.id for r in st.iter.elts for x in ast.walk(r) if isinstance(x, ast.Name)}
            used_after = any(isinstance(x, ast.Name) and x.id in names for later in stmts[i + 1:] for x in ast.walk(later))
            if simple and not (stored & (set(names) | read_roots)) and not used_after and budget[0] > 0:
                budget[0] -= 1
                for r in st.iter.elts:
                    env = {n_: e for n_, e in zip(names, r.elts)}
                    body = [_FoldGetattr().visit(_SubstExpr(env).visit(b)) for b in _cp(st.body)]
                    new, _ = _expand_tables_body(model, fn, body, budget)
                    out += new
                changed = True
                i += 1
                continue
        # (2) `x, y = TABLE[bool(E)]` (or any simple statement reading such an entry) followed by the rest of the block
        if isinstance(st, (ast.Assign, ast.Expr, ast.Assert, ast.Return, ast.AugAssign)) and budget[0] > 0:
            hit = None
            for x in ast.walk(st):
                if isinstance(x, ast.Subscript) and isinstance(x.ctx, ast.Load):
                    tb = _table_literal(model, fn, x.value)
                    if tb is not None:
                        be = _bool_entries(tb, x.slice)
                        if be is not None:
                            hit = (x, be)
                            break
            rest = stmts[i + 1:]
            if hit is not None and sum(1 for r_ in rest for _ in ast.walk(r_) if isinstance(_, ast.stmt)) <= 40:
                budget[0] -= 1
                x, (E, ent_t, ent_f) = hit
                arms = []
                for ent in (ent_t, ent_f):
                    c = _clone(st)
                    # locate the clone of x by position in the walk
                    idx = [k for k, y in enumerate(ast.walk(st)) if y is x][0]
                    cx = list(ast.walk(c))[idx]
                    _replace(c, cx, _clone(ent))
                    arm, _ = _desugar_body([c])
                    tail, _ = _expand_tables_body(model, fn, _cp(rest), budget)
                    arms.append(arm + tail)
                new_if = ast.copy_location(ast.If(test=_clone(E), body=arms[0], orelse=arms[1]), st)
                out.append(new_if)
                return out, True
        out.append(st)
        i += 1
    return out, changed


class _FoldGetattr(ast.NodeTransformer):
    """getattr(x, "name") -> x.name"""

    def visit_Call(self, node):
        self.generic_visit(node)
        if isinstance(node.func, ast.Name) and node.func.id == "getattr" and len(node.args) == 2 and not node.keywords and isinstance(node.args[1], ast.Constant) \
                and isinstance(node.args[1].value, str) and node.args[1].value.isidentifier():
            return ast.copy_location(ast.Attribute(value=node.args[0], attr=node.args[1].value, ctx=ast.Load()), node)
        return node


class _SubstExpr(ast.NodeTransformer):
    def __init__(self, env):
        self.env = env

    def visit_Name(self, node):
        if isinstance(node.ctx, ast.Load) and node.id in self.env:
            return _clone(self.env[node.id])
        return node


def expand_tables(model):
    """Table-driven spellings of a case split are expanded back into the case split (DESIGN 11.2a item 9)."""
    n = 0
    for q, fn in list(model.funcs.items()):
        if fn.path.endswith("posc.py"):
            continue
        src = None
        if not any(isinstance(x, ast.Subscript) or (isinstance(x, ast.For) and isinstance(x.iter, ast.Tuple)) for x in ast.walk(fn.node)):
            continue
        new, ch = _expand_tables_body(model, fn, fn.node.body, [12])
        if ch:
            fn.node.body = new
            ast.fix_missing_locations(fn.node)
            relink(fn.node)
            n += 1
    model.tables_expanded = n
    return n


# ---------------------------------------------------------------------------------------------------
def _sink_body(stmts, budget):
    """Tail duplication of `return <name>` into the arms of the branching statement that precedes it, when that
    statement assigns the name: `if c: r = A / else: r = B` + `return r`  ->  `if c: r = A; return r / else: r = B;
    return r` (pure code motion: every path executes the same statements in the same order).  Single-exit code then
    has one return per way of computing the result, which is the shape the per-return rules judge."""
    changed = False
    for st in stmts:
        if isinstance(st, (ast.FunctionDef, ast.AsyncFunctionDef, ast.ClassDef)):
            continue
        for fld in ("body", "orelse", "finalbody"):
            sub = getattr(st, fld, None)
            if isinstance(sub, list) and sub and isinstance(sub[0], ast.stmt):
                changed |= _sink_body(sub, budget)
        for h in getattr(st, "handlers", []) or []:
            changed |= _sink_body(h.body, budget)
    # `if c: r = (q, v) / else: r = ...` + `q2, v2 = r` + `return C(q2, v2)`: the unpacking travels with the return
    if len(stmts) >= 3 and budget[0] > 0 and isinstance(stmts[-1], ast.Return) and stmts[-1].value is not None and isinstance(stmts[-3], ast.If) \
            and isinstance(stmts[-2], ast.Assign) and len(stmts[-2].targets) == 1 and isinstance(stmts[-2].targets[0], ast.Tuple) and isinstance(stmts[-2].value, ast.Name) \
            and all(isinstance(t_, ast.Name) for t_ in stmts[-2].targets[0].elts):
        S, unp, ret = stmts[-3], stmts[-2], stmts[-1]
        stored_in_S = {x.id for x in ast.walk(S) if isinstance(x, ast.Name) and isinstance(x.ctx, ast.Store)}
        unpacked = {t_.id for t_ in unp.targets[0].elts}
        used = {x.id for x in ast.walk(ret.value) if isinstance(x, ast.Name) and isinstance(x.ctx, ast.Load)}
        if unp.value.id in stored_in_S and (unpacked & used) and sum(1 for _ in ast.walk(ret.value)) <= 30 and S.orelse:
            budget[0] -= 1
            del stmts[-2:]
            for arm in (S.body, S.orelse):
                if not _terminates(arm):
                    arm.append(_clone(unp))
                    arm.append(_clone(ret))
            changed = True
            for arm in (S.body, S.orelse):
                _sink_body(arm, budget)
    while len(stmts) >= 2 and budget[0] > 0 and isinstance(stmts[-1], ast.Return) and stmts[-1].value is not None:
        ret, S = stmts[-1], stmts[-2]
        if not isinstance(S, (ast.If, ast.Try)) or (isinstance(S, ast.Try) and S.finalbody):
            break
        stored_in_S = {x.id for x in ast.walk(S) if isinstance(x, ast.Name) and isinstance(x.ctx, ast.Store)}
        if isinstance(ret.value, ast.Name):
            if ret.value.id not in stored_in_S:
                break
        else:
            # `return C(q, v)` after arms that each choose (q, v): the same motion, for a small constructing expression
            # at least two of whose operands are chosen in the arms (their pairing is what the arms decide)
            if not isinstance(S, ast.If) or not isinstance(ret.value, (ast.Call, ast.Tuple)) or sum(1 for _ in ast.walk(ret.value)) > 30:
                break
            if len({x.id for x in ast.walk(ret.value) if isinstance(x, ast.Name) and isinstance(x.ctx, ast.Load)} & stored_in_S) < 2:
                break
        budget[0] -= 1
        stmts.pop()
        arms = []
        if isinstance(S, ast.If):
            arms = [S.body, S.orelse]
        else:
            arms = [S.orelse if S.orelse else S.body] + [h.body for h in S.handlers]
        for arm in arms:
            if not _terminates(arm):
                arm.append(_clone(ret))
        changed = True
        for arm in arms:
            _sink_body(arm, budget)
    return changed


def _sink_chosen_calls(stmts, budget):
    """`if c: f = A / else: f = B` directly followed by a statement that *calls* f: the statement is moved into both arms
    (pure code motion), so that each arm applies the function it chose - `assert holds(x, limit)` after the arms that
    pick `operator.gt` / `operator.ge` becomes one assertion per comparison."""
    changed = False
    for st in stmts:
        if isinstance(st, (ast.FunctionDef, ast.AsyncFunctionDef, ast.ClassDef)):
            continue
        for fld in ("body", "orelse", "finalbody"):
            sub = getattr(st, fld, None)
            if isinstance(sub, list) and sub and isinstance(sub[0], ast.stmt):
                changed |= _sink_chosen_calls(sub, budget)
        for h in getattr(st, "handlers", []) or []:
            changed |= _sink_chosen_calls(h.body, budget)
    i = 0
    while i + 1 < len(stmts):
        S, N = stmts[i], stmts[i + 1]
        i += 1
        if not (isinstance(S, ast.If) and S.body and S.orelse and isinstance(N, (ast.Assert, ast.Expr, ast.Assign, ast.Return, ast.If)) and budget[0] > 0):
            continue
        if _terminates(S.body) or _terminates(S.orelse):
            continue
        # (for a following `if`, the function must be called in its test: `if not holds(value, limit): reject(...)`)
        scope_ = N.test if isinstance(N, ast.If) else N
        called = {x.func.id for x in ast.walk(scope_) if isinstance(x, ast.Call) and isinstance(x.func, ast.Name)}
        # ... or the key of the function in a table of functions: `key = '>'` / `key = '>='`, then `TABLE[key](value, limit)`
        called |= {x.func.slice.id for x in ast.walk(scope_) if isinstance(x, ast.Call) and isinstance(x.func, ast.Subscript) and isinstance(x.func.slice, ast.Name)}

        def chosen(arm, nm):
            return any(isinstance(a_, ast.Assign) and len(a_.targets) == 1 and isinstance(a_.targets[0], ast.Name) and a_.targets[0].id == nm
                       and isinstance(a_.value, (ast.Name, ast.Attribute, ast.Lambda, ast.Constant)) for a_ in arm)

        if not any(chosen(S.body, nm) and chosen(S.orelse, nm) for nm in called):
            continue
        if sum(1 for _ in ast.walk(N)) > 60:
            continue
        budget[0] -= 1
        S.body.append(_clone(N))
        S.orelse.append(N)
        del stmts[i]
        i -= 1
        changed = True
    return changed


def _merge_assign_return(stmts):
    """`v = E` directly followed by `return v`  ->  `return E` (v is dead after the return)."""
    changed = False
    for st in stmts:
        if isinstance(st, (ast.FunctionDef, ast.AsyncFunctionDef, ast.ClassDef)):
            continue
        for fld in ("body", "orelse", "finalbody"):
            sub = getattr(st, fld, None)
            if isinstance(sub, list) and sub and isinstance(sub[0], ast.stmt):
                changed |= _merge_assign_return(sub)
        for h in getattr(st, "handlers", []) or []:
            changed |= _merge_assign_return(h.body)
    if len(stmts) >= 2 and isinstance(stmts[-1], ast.Return) and isinstance(stmts[-1].value, ast.Name) and isinstance(stmts[-2], ast.Assign) \
            and len(stmts[-2].targets) == 1 and isinstance(stmts[-2].targets[0], ast.Name) and stmts[-2].targets[0].id == stmts[-1].value.id \
            and not any(isinstance(x, (ast.Lambda, ast.GeneratorExp)) for x in ast.walk(stmts[-2].value)):
        ret = stmts.pop()
        asg = stmts.pop()
        stmts.append(ast.copy_location(ast.Return(value=asg.value), asg))
        changed = True
    return changed


def sink_returns(model):
    n = 0
    for q, fn in list(model.funcs.items()):
        if fn.path.endswith("posc.py"):
            continue
        a_ = _sink_body(fn.node.body, [24])
        b_ = _merge_assign_return(fn.node.body)
        b_ = _sink_chosen_calls(fn.node.body, [8]) or b_
        if a_ or b_:
            ast.fix_missing_locations(fn.node)
            relink(fn.node)
            n += 1
    model.returns_sunk = n
    return n


def merge_private_mixins(trees, to_module):
    """A private class (`_Name`, no bases besides object, no decorators) that exactly one class of the library lists as a
    base and that nothing else mentions is a piece of that class kept apart: its methods and class attributes are moved
    into the subclass (unless the subclass, or a library base listed before it, defines the name: then that definition
    wins in the method resolution order anyway and the mixin's is dropped), and the base is removed from the list.
    `trees`: relpath -> (module tree, source); `to_module`: relpath -> dotted module name.
    Moved functions remember their home module (`_home`) for the resolution of the global names they read.
    Returns [(mixin, subclass)].  Anything unusual (super(), name-mangled attributes, other statements in the body,
    further uses of the class) leaves the classes alone."""
    import os

    top = {}  # (path, name) -> ClassDef
    for path, (tree, _src) in trees.items():
        for st in tree.body:
            if isinstance(st, ast.ClassDef):
                top[(path, st.name)] = st
    mod_path = {m: p_ for p_, m in to_module.items()}

    def resolve(path, name):
        """(path, original name) of the library class that `name` denotes at module level in `path`, or None"""
        if (path, name) in top:
            return (path, name)
        tree = trees[path][0]
        for st in tree.body:
            if isinstance(st, ast.ImportFrom):
                for al in st.names:
                    if (al.asname or al.name) == name:
                        if st.level:
                            base = to_module[path].split(".")
                            if not path.endswith("__init__.py"):
                                base = base[:-1]
                            base = base[: len(base) - (st.level - 1)]
                            target = ".".join(base + ([st.module] if st.module else []))
                        else:
                            target = st.module or ""
                        tp = mod_path.get(target)
                        if tp is not None and (tp, al.name) in top:
                            return (tp, al.name)
                        return None
        return None

    def defines(cd):
        out = set()
        for st in cd.body:
            if isinstance(st, (ast.FunctionDef, ast.AsyncFunctionDef, ast.ClassDef)):
                out.add(st.name)
            elif isinstance(st, ast.Assign):
                out |= {t.id for t in st.targets if isinstance(t, ast.Name)}
            elif isinstance(st, ast.AnnAssign) and isinstance(st.target, ast.Name) and st.value is not None:
                out.add(st.target.id)
        return out

    def mro_defines(key, seen=()):
        if key is None or key in seen:
            return set()
        cd = top[key]
        out = defines(cd)
        for b in cd.bases:
            if isinstance(b, ast.Name):
                out |= mro_defines(resolve(key[0], b.id), seen + (key,))
        return out

    # every mention of a class name, module by module
    users = {}  # mixin key -> [(path, ClassDef listing it as a base)]
    other_use = set()
    for path, (tree, _src) in trees.items():
        base_slots = {id(b) for st in tree.body if isinstance(st, ast.ClassDef) for b in st.bases}
        for st in tree.body:
            if isinstance(st, ast.ClassDef):
                for b in st.bases:
                    if isinstance(b, ast.Name):
                        k = resolve(path, b.id)
                        if k is not None and k[1].startswith("_"):
                            users.setdefault(k, []).append((path, st))
        if not any(nm.startswith("_") for (p_, nm) in top):
            continue
        for n in ast.walk(tree):
            if isinstance(n, ast.Name) and id(n) not in base_slots and n.id.startswith("_") and not isinstance(n.ctx, ast.Store):
                k = resolve(path, n.id)
                if k is not None:
                    other_use.add(k)
            elif isinstance(n, ast.Attribute) and n.attr.startswith("_") and any(n.attr == nm for (_p, nm) in top):
                other_use |= {k for k in top if k[1] == n.attr}
    merged = []
    for key, us in sorted(users.items()):
        m = top[key]
        if len(us) != 1 or key in other_use or m.decorator_list or m.keywords:
            continue
        if any(not (isinstance(b, ast.Name) and b.id == "object") for b in m.bases):
            continue
        dpath, d = us[0]
        moved, ok = [], True
        for st in m.body:
            if isinstance(st, ast.Expr) and isinstance(st.value, ast.Constant):
                continue
            if isinstance(st, ast.Pass):
                continue
            if isinstance(st, ast.If) and "TYPE_CHECKING" in ast.unparse(st.test) and not st.orelse:
                continue
            if isinstance(st, ast.AnnAssign) and st.value is None:
                continue
            if isinstance(st, ast.Assign) and len(st.targets) == 1 and isinstance(st.targets[0], ast.Name) and st.targets[0].id == "__slots__":
                continue
            if isinstance(st, (ast.FunctionDef, ast.Assign, ast.AnnAssign)):
                moved.append(st)
                continue
            ok = False
        for st in moved:
            for n in ast.walk(st):
                if isinstance(n, ast.Name) and n.id in ("super", "__class__"):
                    ok = False
                if isinstance(n, ast.Attribute) and n.attr.startswith("__") and not n.attr.endswith("__"):
                    ok = False
        if not ok or not moved:
            continue
        own = defines(d)
        idx = [i for i, b in enumerate(d.bases) if isinstance(b, ast.Name) and resolve(dpath, b.id) == key][0]
        earlier = set()
        for b in d.bases[:idx]:
            if isinstance(b, ast.Name):
                earlier |= mro_defines(resolve(dpath, b.id))
        keep = []
        for st in moved:
            names = {st.name} if isinstance(st, ast.FunctionDef) else ({t.id for t in st.targets if isinstance(t, ast.Name)} if isinstance(st, ast.Assign) else {st.target.id} if isinstance(st.target, ast.Name) else set())
            if not names or (names & own) or (names & earlier):
                continue  # shadowed: the mixin's definition is never the one found
            keep.append(st)
        if any(isinstance(st, (ast.Assign, ast.AnnAssign)) for st in keep) and dpath != key[0]:
            continue  # class attributes computed from another module's globals: leave alone
        for st in keep:
            if dpath != key[0]:
                st._home = (to_module[key[0]], key[0])
            st._parent = d
        # class attributes first (methods of the subclass may not be reordered), then the methods at the end
        lead = 1 if d.body and isinstance(d.body[0], ast.Expr) and isinstance(d.body[0].value, ast.Constant) else 0
        attrs = [st for st in keep if not isinstance(st, ast.FunctionDef)]
        d.body[lead:lead] = attrs
        d.body += [st for st in keep if isinstance(st, ast.FunctionDef)]
        del d.bases[idx]
        m.body = [st for st in m.body if st not in moved] or [ast.copy_location(ast.Pass(), m)]
        merged.append((key[1], d.name))
    return merged


def _defaultdict_to_get(fn_node):
    """A local bound once to `defaultdict(int)` / `defaultdict(float)` / `defaultdict(lambda: C)` / `Counter()` and only
    read by subscript inside the value stored back under the same key (`d[k] = d[k] + e`, `d[k] += e`) is the explicit
    accumulator `d = {}` ... `d[k] = d.get(k, 0) + e`.  Returns whether anything changed."""
    cands = {}
    stores = {}
    for n in ast.walk(fn_node):
        if isinstance(n, ast.Name) and isinstance(n.ctx, ast.Store):
            stores[n.id] = stores.get(n.id, 0) + 1
        if isinstance(n, (ast.Assign, ast.AnnAssign)) and n.value is not None:
            tg = n.targets[0] if isinstance(n, ast.Assign) and len(n.targets) == 1 else getattr(n, "target", None)
            v = n.value
            if isinstance(tg, ast.Name) and isinstance(v, ast.Call) and not v.keywords:
                f = v.func.attr if isinstance(v.func, ast.Attribute) else v.func.id if isinstance(v.func, ast.Name) else None
                dflt = None
                if f == "defaultdict" and len(v.args) == 1:
                    a = v.args[0]
                    if isinstance(a, ast.Name) and a.id in ("int", "float"):
                        dflt = ast.Constant(value=0 if a.id == "int" else 0.0)
                    elif isinstance(a, ast.Lambda) and not a.args.args and isinstance(a.body, ast.Constant):
                        dflt = ast.Constant(value=a.body.value)
                elif f == "Counter" and not v.args:
                    dflt = ast.Constant(value=0)
                if dflt is not None:
                    cands[tg.id] = (n, dflt)
    cands = {k: v for k, v in cands.items() if stores.get(k) == 1 and k not in {a.arg for a in fn_node.args.args}}
    if not cands:
        return False
    # every Load-subscript of the candidate must sit in the value of a store under the same key
    ok_reads = {}
    for n in ast.walk(fn_node):
        if isinstance(n, ast.Assign) and len(n.targets) == 1 and isinstance(n.targets[0], ast.Subscript) and isinstance(n.targets[0].value, ast.Name) and n.targets[0].value.id in cands:
            key = ast.dump(n.targets[0].slice)
            for x in ast.walk(n.value):
                if isinstance(x, ast.Subscript) and isinstance(x.value, ast.Name) and x.value.id == n.targets[0].value.id and ast.dump(x.slice) == key:
                    ok_reads[id(x)] = True
    # ... unless the table is never looked at as a whole (only subscripted): the keys a read inserts cannot be observed then
    whole = set()
    for n in ast.walk(fn_node):
        for ch in ast.iter_child_nodes(n):
            if isinstance(ch, ast.Name) and ch.id in cands and not isinstance(ch.ctx, ast.Store) and not (isinstance(n, ast.Subscript) and ch is n.value):
                whole.add(ch.id)
    for n in ast.walk(fn_node):
        if isinstance(n, ast.Subscript) and isinstance(n.ctx, ast.Load) and isinstance(n.value, ast.Name) and n.value.id in cands and id(n) not in ok_reads and n.value.id in whole:
            cands.pop(n.value.id, None)
        if isinstance(n, (ast.FunctionDef, ast.Lambda)) and n is not fn_node:
            for x in ast.walk(n):
                if isinstance(x, ast.Name) and x.id in cands:
                    cands.pop(x.id, None)
    if not cands:
        return False

    class R(ast.NodeTransformer):
        def visit_Subscript(self, n):
            self.generic_visit(n)
            if isinstance(n.ctx, ast.Load) and isinstance(n.value, ast.Name) and n.value.id in cands:
                return ast.copy_location(ast.Call(func=ast.Attribute(value=n.value, attr="get", ctx=ast.Load()), args=[n.slice, _clone(cands[n.value.id][1])], keywords=[]), n)
            return n

        def visit_AugAssign(self, n):
            self.generic_visit(n)
            t = n.target
            if isinstance(t, ast.Subscript) and isinstance(t.value, ast.Name) and t.value.id in cands:
                read = ast.Call(func=ast.Attribute(value=_clone(t.value), attr="get", ctx=ast.Load()), args=[_clone(t.slice), _clone(cands[t.value.id][1])], keywords=[])
                read.func.value.ctx = ast.Load()
                return ast.copy_location(ast.Assign(targets=[t], value=ast.BinOp(left=read, op=n.op, right=n.value), lineno=n.lineno), n)
            return n

    R().visit(fn_node)
    for name, (st, _d) in cands.items():
        st.value = ast.copy_location(ast.Dict(keys=[], values=[]), st.value)
    ast.fix_missing_locations(fn_node)
    return True


_PURE_TEST_CALLS = {"isinstance", "issubclass", "type", "len", "callable", "hasattr", "IsNumber", "id", "bool"}


def _forward_test_locals(fn_node):
    """`same = type(self) == type(other)` ... `if same:`  ->  `if type(self) == type(other):` for a local bound once to a
    test over names that are never re-bound (parameters, globals), free of attribute reads and of calls other than a few pure
    builtins: the tests that read the local see the condition itself (guards and facts are then about the operands).
    Other reads of the local (a `return same`) keep it.  Returns whether anything changed."""
    stores = {}
    for x in ast.walk(fn_node):
        if isinstance(x, ast.Name) and isinstance(x.ctx, (ast.Store, ast.Del)):
            stores[x.id] = stores.get(x.id, 0) + 1
        elif isinstance(x, (ast.FunctionDef, ast.AsyncFunctionDef, ast.Lambda)) and x is not fn_node:
            for a_ in ast.walk(x.args):
                if isinstance(a_, ast.arg):
                    stores[a_.arg] = stores.get(a_.arg, 0) + 1
    params = {a_.arg for a_ in ast.walk(fn_node.args) if isinstance(a_, ast.arg)}

    def testlike(e):
        if isinstance(e, ast.Compare):
            return all(plain(x) for x in [e.left] + e.comparators)
        if isinstance(e, ast.BoolOp):
            return all(testlike(v) for v in e.values)
        if isinstance(e, ast.UnaryOp) and isinstance(e.op, ast.Not):
            return testlike(e.operand)
        return isinstance(e, ast.Call) and isinstance(e.func, ast.Name) and e.func.id in _PURE_TEST_CALLS and e.func.id not in stores and not e.keywords and all(plain(x) for x in e.args)

    def plain(e):
        if isinstance(e, ast.Constant):
            return True
        if isinstance(e, ast.Name):
            return stores.get(e.id, 0) == 0
        if isinstance(e, ast.Tuple):
            return all(plain(x) for x in e.elts)
        return isinstance(e, ast.Call) and isinstance(e.func, ast.Name) and e.func.id in _PURE_TEST_CALLS and e.func.id not in stores and not e.keywords and all(plain(x) for x in e.args)

    cands = {}
    for x in ast.walk(fn_node):
        if isinstance(x, ast.Assign) and len(x.targets) == 1 and isinstance(x.targets[0], ast.Name) and stores.get(x.targets[0].id) == 1 and x.targets[0].id not in params and testlike(x.value):
            cands[x.targets[0].id] = x.value
    if not cands:
        return False
    changed = [False]

    def subst(e):
        """replace candidate names in test position (through and / or / not)"""
        if isinstance(e, ast.Name) and isinstance(e.ctx, ast.Load) and e.id in cands:
            changed[0] = True
            return ast.copy_location(_clone(cands[e.id]), e)
        if isinstance(e, ast.BoolOp):
            e.values = [subst(v) for v in e.values]
        elif isinstance(e, ast.UnaryOp) and isinstance(e.op, ast.Not):
            e.operand = subst(e.operand)
        return e

    for x in ast.walk(fn_node):
        if isinstance(x, (ast.If, ast.While, ast.IfExp)):
            x.test = subst(x.test)
    if changed[0]:
        ast.fix_missing_locations(fn_node)
    return changed[0]


def _counted_while_to_for(fn_node):
    """`n = N; while n > 0: BODY; n -= 1` (n used nowhere else) -> `for _ in range(N): BODY`, and
    `i = 0; while i < N: BODY; i += 1` (i not stored in BODY, not used outside the pair, N's names not stored in BODY)
    -> `for i in range(N): BODY`.  `range(X).stop` as N is X.  Returns whether anything changed."""
    uses = {}
    for x in ast.walk(fn_node):
        if isinstance(x, ast.Name):
            uses[x.id] = uses.get(x.id, 0) + 1
    changed = [False]

    def names(e, store_only=False):
        return {x.id for x in ast.walk(e) if isinstance(x, ast.Name) and (not store_only or isinstance(x.ctx, (ast.Store, ast.Del)))}

    def bound(e):
        if isinstance(e, ast.Attribute) and e.attr == "stop" and isinstance(e.value, ast.Call) and isinstance(e.value.func, ast.Name) and e.value.func.id == "range" and len(e.value.args) == 1 and not e.value.keywords:
            return e.value.args[0]
        return e

    def block(stmts):
        for st in stmts:
            if isinstance(st, (ast.FunctionDef, ast.AsyncFunctionDef, ast.ClassDef)):
                continue
            for fld in ("body", "orelse", "finalbody"):
                sub = getattr(st, fld, None)
                if isinstance(sub, list) and sub and isinstance(sub[0], ast.stmt):
                    block(sub)
            for h in getattr(st, "handlers", []) or []:
                block(h.body)
        i = 0
        while i + 1 < len(stmts):
            a, w = stmts[i], stmts[i + 1]
            i += 1
            if not (isinstance(a, ast.Assign) and len(a.targets) == 1 and isinstance(a.targets[0], ast.Name) and isinstance(w, ast.While) and not w.orelse and w.body):
                continue
            v = a.targets[0].id
            last = w.body[-1]
            if not (isinstance(last, ast.AugAssign) and isinstance(last.target, ast.Name) and last.target.id == v and isinstance(last.value, ast.Constant) and last.value.value == 1 and type(last.value.value) is int):
                continue
            body = w.body[:-1]
            if any(isinstance(x, ast.Continue) for b in body for x in ast.walk(b)):
                continue
            t = w.test
            if not (isinstance(t, ast.Compare) and len(t.ops) == 1):
                continue
            l, op, r = t.left, t.ops[0], t.comparators[0]
            if isinstance(l, ast.Constant) and isinstance(r, ast.Name):  # 0 < n  ==  n > 0
                flip = {ast.Lt: ast.Gt, ast.LtE: ast.GtE, ast.Gt: ast.Lt, ast.GtE: ast.LtE}.get(type(op))
                if flip is None:
                    continue
                l, op, r = r, flip(), l
            if not (isinstance(l, ast.Name) and l.id == v):
                continue
            in_body = sum(1 for b in body for x in ast.walk(b) if isinstance(x, ast.Name) and x.id == v)
            new = None
            if isinstance(last.op, ast.Sub) and uses.get(v) == 3 and in_body == 0 and isinstance(r, ast.Constant) and ((isinstance(op, ast.Gt) and r.value == 0) or (isinstance(op, ast.GtE) and r.value == 1)) and type(r.value) is int:
                new = ast.For(target=ast.Name(id="_", ctx=ast.Store()), iter=ast.Call(func=ast.Name(id="range", ctx=ast.Load()), args=[bound(a.value)], keywords=[]), body=body or [ast.Pass()], orelse=[], lineno=w.lineno)
            elif isinstance(last.op, ast.Add) and isinstance(op, ast.Lt) and isinstance(a.value, ast.Constant) and a.value.value == 0 and type(a.value.value) is int and uses.get(v) == 3 + in_body and v not in {n_ for b in body for n_ in names(b, True)} and not (names(r) & {n_ for b in body for n_ in names(b, True)}) and not any(isinstance(x, ast.Call) for x in ast.walk(r)):
                new = ast.For(target=ast.Name(id=v, ctx=ast.Store()), iter=ast.Call(func=ast.Name(id="range", ctx=ast.Load()), args=[bound(r)], keywords=[]), body=body or [ast.Pass()], orelse=[], lineno=w.lineno)
            if new is not None:
                ast.copy_location(new, w)
                stmts[i - 1:i + 1] = [new]
                changed[0] = True

    block(fn_node.body)
    return changed[0]


def desugar(model):
    """`return a if c else b` and `x = a if c else b` become if/else statements, so that every rule sees
    the branch structure (conditions as dominating facts, one return per alternative)."""
    n = 0
    for q, fn in list(model.funcs.items()):
        if fn.path.endswith("posc.py"):
            continue
        if False and not any(isinstance(x, (ast.IfExp, ast.AnnAssign)) or (isinstance(x, ast.Assign) and isinstance(x.targets[0], (ast.Tuple, ast.List)) and isinstance(x.value, (ast.Tuple, ast.List))) for x in ast.walk(fn.node)):
            continue
        cw = any(isinstance(x, ast.While) for x in ast.walk(fn.node)) and _counted_while_to_for(fn.node)
        cw = (fn.parent is None and any(isinstance(x, ast.Call) and isinstance(x.func, (ast.Name, ast.Attribute)) and (x.func.id if isinstance(x.func, ast.Name) else x.func.attr) in ("defaultdict", "Counter") for x in ast.walk(fn.node)) and _defaultdict_to_get(fn.node)) or cw
        cw = (fn.parent is None and _forward_test_locals(fn.node)) or cw
        new, ch = _desugar_body(fn.node.body)
        if ch or cw:
            fn.node.body = new
            ast.fix_missing_locations(fn.node)
            relink(fn.node)
            n += 1
    for q, fn in list(model.funcs.items()):
        if fn.path.endswith("posc.py") or fn.parent is not None:
            continue
        if getattr(fn.node, "_parent", None) is None and not any(hasattr(x, "_parent") for x in fn.node.body[:1]):
            relink(fn.node)
        if _inline_method_aliases(fn.node):
            ast.fix_missing_locations(fn.node)
            relink(fn.node)
            n += 1
    model.desugared = n
    return n


# ---------------------------------------------------------------------------------------------------
def undo_private_renames(model):
    """A private function of the baseline that vanished while exactly one new function with the same
    parameter list appeared in the same class (or module) was renamed: give it its baseline name back,
    in the definition and at every reference, so that the rules anchored on it still find it.
    Returns [(old name, new name, where)].  Anything ambiguous is left alone (the rule that needs the
    anchor then answers with an analysis error)."""
    from .anchors import PRIVATE_SIGNATURES

    renames = []
    for key, params in sorted(PRIVATE_SIGNATURES.items()):
        path, cls, name = key.split(":")
        here = [f for f in model.funcs.values() if f.path == path and (f.cls or "") == cls and f.parent is None]
        if not here or any(f.name == name for f in here):
            continue
        if model.by_name.get(name):
            continue  # the name lives on elsewhere (moved): not a plain rename
        cands = [f for f in here if f.name not in KNOWN_FUNCTIONS and not f.name.startswith("__") and list(f.params) == list(params)]
        if len(cands) != 1:
            continue
        g = cands[0]
        new = g.name
        if len(model.by_name.get(new, [])) != 1:
            continue
        # references in the whole library
        for rel, (tree, _src) in model.trees.items():
            for n in ast.walk(tree):
                if isinstance(n, ast.Attribute) and n.attr == new:
                    n.attr = name
                elif isinstance(n, ast.Name) and n.id == new:
                    n.id = name
        g.node.name = name
        old_qual = g.qual
        g.name = name
        g.qual = old_qual[: -len(new)] + name
        model.funcs[g.qual] = model.funcs.pop(old_qual)
        model.by_name[name].append(g)
        model.by_name[new].remove(g)
        if cls and model.classes.get(cls) and model.classes[cls].methods.get(new) is g:
            del model.classes[cls].methods[new]
            model.classes[cls].methods[name] = g
        if not cls and model.module_funcs.get(g.module, {}).get(new) is g:
            del model.module_funcs[g.module][new]
            model.module_funcs[g.module][name] = g
        # nested functions keep their qualified prefix consistent
        for q2 in [q2 for q2 in list(model.funcs) if q2.startswith(old_qual + ".")]:
            f2 = model.funcs.pop(q2)
            f2.qual = g.qual + q2[len(old_qual):]
            model.funcs[f2.qual] = f2
        renames.append((name, new, "%s%s" % (cls + "." if cls else "", path)))
    model.renames = renames
    return renames
