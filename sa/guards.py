"""A5 guard analysis: a small forward abstract interpretation that tracks what is known about the
*type* of one variable (the `other` parameter of a comparison dunder) along every path and inside
short-circuit expressions, and reports every use of that variable that needs something an arbitrary
object does not have (attribute reads, method calls, float()/len()/iter() conversions).

Abstract state of the tracked variable: (types, has)
  types  None = any object;  else a set of atoms, the object is an instance of one of them:
         ('cls', C) repo class C or a subclass      ('builtin', name) int/float/...
         ('iface', I) implements interface class I
  has    attribute names known to exist (hasattr guards)
Guard idioms understood (every one the repo uses, plus the obvious alternatives):
  isinstance(v, C | (C1, C2) | tuple-constant | tuple + tuple)      type(self) is/==/is not/!= type(v)
  self.__class__ is v.__class__     IsImplementation(v, I)     hasattr(v, "x")
  Base.__eq__(self, v) / super().__eq__(v) / self.helper(v) used as a truth value (callee analysed
  with the caller's state; its truthy-return state flows back)     try: ... except AttributeError
Nothing is executed; builtin types are looked up with dir() of the builtin itself.
"""
import ast
import builtins

from .cfg import CFG
from .report import AnalysisError

TOP = (None, frozenset())
CONVERSIONS = {"float": "__float__", "int": "__int__", "len": "__len__", "iter": "__iter__", "tuple": "__iter__",
               "list": "__iter__", "abs": "__abs__", "round": "__round__", "sorted": "__iter__", "set": "__iter__"}
OBJECT_ATTRS = set(dir(object))


def join(a, b):
    if a is None:
        return b
    if b is None:
        return a
    ta, ha = a
    tb, hb = b
    t = None if (ta is None or tb is None) else (ta | tb)
    return (t, ha & hb)


class Use:
    def __init__(self, fn, node, need, state, chain):
        self.fn = fn
        self.node = node
        self.need = need  # attribute / protocol dunder needed
        self.state = state
        self.chain = chain  # tuple of quals from the root to fn

    def key(self):
        return "%s:%s" % (self.fn.qual.split(".", 2)[-1], self.need)


class GuardAnalysis:
    def __init__(self, model):
        self.m = model
        self._memo = {}
        self._busy = set()
        self._ret_state = {}

    # ------------------------------------------------------------------ atoms
    def sub(self, a, c):
        if a == c:
            return True
        if a[0] == "cls" and c[0] == "cls":
            return c[1] in self.m.mro(a[1])
        if a[0] == "builtin" and c[0] == "builtin":
            ta, tc = getattr(builtins, a[1], None), getattr(builtins, c[1], None)
            return isinstance(ta, type) and isinstance(tc, type) and issubclass(ta, tc)
        return False

    def defines(self, atom, need):
        if need in OBJECT_ATTRS:
            return True
        if atom[0] in ("cls", "iface"):
            if atom[1] not in self.m.classes:
                return False
            return need in self.m.defined_names(atom[1])
        if atom[0] == "builtin":
            t = getattr(builtins, atom[1], None)
            return t is not None and hasattr(t, need)
        return False

    def allowed(self, need, st):
        types, has = st
        if need in has or need in OBJECT_ATTRS:
            return True
        if types is None:
            return False
        return all(self.defines(a, need) for a in types)

    def class_atoms(self, e, fn):
        """Atoms named by the second argument of isinstance; None when not understood."""
        if isinstance(e, ast.Name):
            if e.id in self.m.classes:
                return [("cls", e.id)]
            if isinstance(getattr(builtins, e.id, None), type):
                return [("builtin", e.id)]
            # module-level tuple constant (NumberType = (int, float))
            tree = self.m.trees[fn.path][0]
            for st in tree.body:
                if isinstance(st, ast.Assign) and any(isinstance(t, ast.Name) and t.id == e.id for t in st.targets):
                    return self.class_atoms(st.value, fn)
                if isinstance(st, ast.AnnAssign) and isinstance(st.target, ast.Name) and st.target.id == e.id and st.value is not None:
                    return self.class_atoms(st.value, fn)
            return None
        if isinstance(e, ast.Attribute):
            if e.attr in self.m.classes:
                return [("cls", e.attr)]
            return [("ext", ast.unparse(e))]
        if isinstance(e, ast.Starred):
            return self.class_atoms(e.value, fn)  # (A, *OTHERS)
        if isinstance(e, ast.Tuple):
            out = []
            for x in e.elts:
                a = self.class_atoms(x, fn)
                if a is None:
                    return None
                out += a
            return out
        if isinstance(e, ast.BinOp) and isinstance(e.op, ast.Add):
            a, b = self.class_atoms(e.left, fn), self.class_atoms(e.right, fn)
            return None if (a is None or b is None) else a + b
        return None

    def narrow_isinstance(self, st, atoms, positive):
        types, has = st
        if positive:
            if types is None:
                return (frozenset(atoms), has)
            new = set()
            for c in atoms:
                subs = {a for a in types if self.sub(a, c)}
                new |= subs if subs else {c}
            return (frozenset(new), has)
        if types is None:
            return st
        return (frozenset(a for a in types if not any(self.sub(a, c) for c in atoms)), has)

    # ------------------------------------------------------------------ function analysis
    def analyze(self, fn, var, st_in, chain=()):
        """Analyse fn with variable `var` (a parameter) in state st_in.
        Returns (uses, st_truthy_return, st_falsy_return)."""
        key = (fn.qual, var, st_in)
        if key in self._memo:
            return self._memo[key]
        if key in self._busy or len(chain) > 4:
            return ([], st_in, st_in)
        self._busy.add(key)
        try:
            res = _FnRun(self, fn, var, st_in, chain + (fn.qual,)).run()
        finally:
            self._busy.discard(key)
        self._memo[key] = res
        return res


class _FnRun:
    def __init__(self, ga, fn, var, st_in, chain):
        self.ga = ga
        self.m = ga.m
        self.fn = fn
        self.var = var
        self.st_in = st_in
        self.chain = chain
        self.uses = {}
        self._ret_state = "unset"
        self.temps = {}
        self.temps_changed = False
        self.selfname = fn.params[0] if (fn.is_method and fn.params and not fn.is_staticmethod) else None

    def use(self, node, need, st):
        # inside a try whose handler swallows AttributeError/TypeError the use cannot escape
        if self._swallowed(node):
            return
        k = (id(node), need)
        old = self.uses.get(k)
        if old is not None:
            st = join(old.state, st)
        self.uses[k] = Use(self.fn, node, need, st, self.chain)

    def _swallowed(self, node):
        p = getattr(node, "_parent", None)
        child = node
        while p is not None and p is not self.fn.node:
            if isinstance(p, ast.Try) and child in p.body:
                for h in p.handlers:
                    names = []
                    if h.type is None:
                        names = ["BaseException"]
                    elif isinstance(h.type, ast.Tuple):
                        names = [ast.unparse(x).split(".")[-1] for x in h.type.elts]
                    else:
                        names = [ast.unparse(h.type).split(".")[-1]]
                    if any(n in ("AttributeError", "Exception", "BaseException") for n in names):
                        if not any(isinstance(x, ast.Raise) for s in h.body for x in ast.walk(s)):
                            return True
            child = p
            p = getattr(p, "_parent", None)
        return False

    def is_var(self, e):
        return isinstance(e, ast.Name) and e.id == self.var

    # ------------------------------------------------------------------ expressions
    def ev(self, e, st):
        """Visit e in evaluation order under state st; returns (state if truthy, state if falsy)."""
        if e is None:
            return st, st
        if isinstance(e, ast.BoolOp):
            cur = st
            outs = None
            if isinstance(e.op, ast.And):
                for v in e.values:
                    t, f = self.ev(v, cur)
                    outs = join(outs, f)
                    cur = t
                return cur, outs
            for v in e.values:
                t, f = self.ev(v, cur)
                outs = join(outs, t)
                cur = f
            return outs, cur
        if isinstance(e, ast.UnaryOp) and isinstance(e.op, ast.Not):
            t, f = self.ev(e.operand, st)
            return f, t
        if isinstance(e, ast.IfExp):
            t, f = self.ev(e.test, st)
            bt, bf = self.ev(e.body, t)
            ot, of = self.ev(e.orelse, f)
            return join(bt, ot), join(bf, of)
        if isinstance(e, ast.Compare):
            g = self._type_compare(e)
            if g is not None:
                positive = g
                new = (frozenset([("cls", self.fn.cls)]), st[1]) if self.fn.cls else st
                return (new, st) if positive else (st, new)
            for x in [e.left] + list(e.comparators):
                self.ev(x, st)
            return st, st
        if isinstance(e, ast.Call):
            return self._call(e, st)
        if isinstance(e, ast.Attribute):
            if self.is_var(e.value):
                if not self.ga.allowed(e.attr, st):
                    self.use(e, e.attr, st)
                else:
                    self.use_ok(e, e.attr, st)
                return st, st
            self.ev(e.value, st)
            return st, st
        if isinstance(e, ast.Constant):
            if e.value is False or e.value is None:
                return None, st
            if e.value is True:
                return st, None
            return st, st
        for c in ast.iter_child_nodes(e):
            if isinstance(c, ast.expr):
                self.ev(c, st)
            elif isinstance(c, ast.comprehension):
                self.ev(c.iter, st)
                for i in c.ifs:
                    self.ev(i, st)
            elif isinstance(c, ast.keyword):
                self.ev(c.value, st)
        return st, st

    def use_ok(self, node, need, st):
        k = (id(node), need)
        if k not in self.uses:
            u = Use(self.fn, node, need, st, self.chain)
            u.ok = True
            self.uses[k] = u

    def _type_compare(self, e):
        """type(self) is type(v) & co -> True (positive test) / False (negative test) / None."""
        if len(e.ops) != 1 or not isinstance(e.ops[0], (ast.Is, ast.IsNot, ast.Eq, ast.NotEq)):
            return None

        def type_of(x):
            if isinstance(x, ast.Call) and isinstance(x.func, ast.Name) and x.func.id == "type" and len(x.args) == 1 and isinstance(x.args[0], ast.Name):
                return x.args[0].id
            if isinstance(x, ast.Attribute) and x.attr == "__class__" and isinstance(x.value, ast.Name):
                return x.value.id
            return None

        a, b = type_of(e.left), type_of(e.comparators[0])
        if a is None or b is None or self.selfname is None:
            return None
        if {a, b} == {self.selfname, self.var}:
            return isinstance(e.ops[0], (ast.Is, ast.Eq))
        return None

    def _call(self, e, st):
        f = e.func
        # ---- guard calls
        if isinstance(f, ast.Name) and f.id == "isinstance" and len(e.args) == 2 and self.is_var(e.args[0]):
            atoms = self.ga.class_atoms(e.args[1], self.fn)
            if atoms is None:
                return st, st
            return self.ga.narrow_isinstance(st, atoms, True), self.ga.narrow_isinstance(st, atoms, False)
        if isinstance(f, ast.Name) and f.id == "IsImplementation" and len(e.args) == 2 and self.is_var(e.args[0]):
            iface = ast.unparse(e.args[1]).split(".")[-1]
            return (frozenset([("iface", iface)]), st[1]), st
        if isinstance(f, ast.Name) and f.id == "hasattr" and len(e.args) == 2 and self.is_var(e.args[0]) and isinstance(e.args[1], ast.Constant):
            return (st[0], st[1] | {e.args[1].value}), st
        if isinstance(f, ast.Name) and f.id in ("getattr", "id", "type", "repr", "str", "bool", "hash", "callable", "print"):
            for a in e.args[1:]:
                self.ev(a, st)
            return st, st
        if isinstance(f, ast.Name) and f.id in CONVERSIONS and e.args and self.is_var(e.args[0]):
            need = CONVERSIONS[f.id]
            if not self.ga.allowed(need, st):
                self.use(e, "%s()" % f.id, st)
            else:
                self.use_ok(e, "%s()" % f.id, st)
            return st, st
        # ---- method call on the variable itself: other.M(...)
        if isinstance(f, ast.Attribute) and self.is_var(f.value):
            if not self.ga.allowed(f.attr, st):
                self.use(f, f.attr, st)
            else:
                self.use_ok(f, f.attr, st)
            for a in e.args:
                self.ev(a, st)
            for k in e.keywords:
                self.ev(k.value, st)
            return st, st
        # ---- the variable handed to a repo function
        callee, idx = self._resolve(e)
        for a in e.args:
            if not self.is_var(a):
                self.ev(a, st)
        for k in e.keywords:
            self.ev(k.value, st)
        if not (isinstance(f, ast.Name)):
            self.ev(f.value if isinstance(f, ast.Attribute) else f, st)
        if callee is not None and idx is not None:
            uses, t, fl = self.ga.analyze(callee, callee.params[idx], st, self.chain)
            for u in uses:
                k = (id(u.node), u.need)
                if k not in self.uses:
                    self.uses[k] = u
            return (t if t is not None else st), (fl if fl is not None else st)
        return st, st

    def _resolve(self, e):
        """(callee Func, index of the callee parameter that receives the tracked variable)."""
        pos = [i for i, a in enumerate(e.args) if self.is_var(a)]
        if not pos:
            return None, None
        f = e.func
        m = self.m
        if isinstance(f, ast.Attribute):
            # explicit unbound call: Base.meth(self, other)
            if isinstance(f.value, ast.Name) and f.value.id in m.classes:
                g = m.lookup(f.value.id, f.attr)
                if g is not None and pos[0] < len(g.params):
                    return g, pos[0]
                return None, None
            if isinstance(f.value, ast.Name) and f.value.id == self.selfname and self.fn.cls:
                g = m.lookup(self.fn.cls, f.attr)
                if g is not None and pos[0] + 1 < len(g.params):
                    return g, pos[0] + 1
                return None, None
            if isinstance(f.value, ast.Call) and isinstance(f.value.func, ast.Name) and f.value.func.id == "super" and self.fn.cls:
                for c in m.mro(self.fn.cls)[1:]:
                    if f.attr in m.classes[c].methods:
                        g = m.classes[c].methods[f.attr]
                        if pos[0] + 1 < len(g.params):
                            return g, pos[0] + 1
                return None, None
            return None, None
        if isinstance(f, ast.Name):
            g = m.module_funcs.get(self.fn.module, {}).get(f.id)
            if g is not None and pos[0] < len(g.params):
                return g, pos[0]
        return None, None

    # ------------------------------------------------------------------ statements / CFG
    def run(self):
        fn = self.fn
        cfg = CFG(fn.node)
        IN = {cfg.ENTRY: self.st_in}
        OUT = {}  # (node, label) -> state
        truthy = None
        falsy = None
        work = [cfg.ENTRY]
        seen_out = {}
        rounds = 0
        order = sorted(cfg.kind)
        changed = True
        st_at = {cfg.ENTRY: self.st_in}
        while changed and rounds < 20:
            changed = False
            self.temps_changed = False
            rounds += 1
            for n in order:
                if n == cfg.ENTRY:
                    st = self.st_in
                else:
                    st = None
                    got = False
                    for (p, lab) in cfg.pred[n]:
                        if (p, lab) in OUT:
                            s = OUT[(p, lab)]
                            if s is None:
                                continue
                            st = s if not got else join(st, s)
                            got = True
                    if not got:
                        continue
                outs = self._transfer(cfg, n, st)
                for lab, s in outs.items():
                    if OUT.get((n, lab), "unset") != s:
                        OUT[(n, lab)] = s
                        changed = True
            changed = changed or self.temps_changed
        # returns
        self.uses_final = {}
        for n in cfg.returns():
            st = None
            got = False
            for (p, lab) in cfg.pred[n]:
                s = OUT.get((p, lab))
                if s is None:
                    continue
                st = s if not got else join(st, s)
                got = True
            if not got:
                continue
            node = cfg.ast[n]
            # state of the *returned value* when it is the tracked variable or a constructed object
            rv = self._value_state(node.value, st) if node.value is not None else None
            if node.value is not None:
                self._ret_state = rv if self._ret_state == "unset" else join(self._ret_state, rv)
            t, f = self.ev(node.value, st) if node.value is not None else (None, st)
            truthy = join(truthy, t) if t is not None else truthy
            falsy = join(falsy, f) if f is not None else falsy
        uses = list(self.uses.values())
        self.ga._ret_state[(fn.qual, self.var, self.st_in)] = self._ret_state
        return (uses, truthy, falsy)

    def _transfer(self, cfg, n, st):
        kind = cfg.kind[n]
        node = cfg.ast[n]
        labels = {lab for (_, lab) in cfg.succ[n]}
        if kind == "test":
            t, f = self.ev(node, st)
            out = {}
            for lab in labels:
                out[lab] = t if lab == "T" else f if lab == "F" else st
            return out
        if kind in ("stmt",):
            new = st
            if isinstance(node, (ast.Assign, ast.AnnAssign, ast.AugAssign)):
                value = node.value
                self.ev(value, st)
                targets = node.targets if isinstance(node, ast.Assign) else [node.target]
                for t in targets:
                    if isinstance(t, ast.Name) and t.id != self.var and isinstance(node, (ast.Assign, ast.AnnAssign)) and value is not None:
                        # a temporary that may hold the tracked value (result variable of an inlined helper):
                        # the join of everything assigned to it
                        vs = self._value_state(value, st)
                        old_t = self.temps.get(t.id, "unset")
                        new_t = vs if old_t == "unset" else join(old_t, vs)
                        if new_t != old_t:
                            self.temps[t.id] = new_t
                            self.temps_changed = True
                    if isinstance(t, ast.Name) and t.id == self.var:
                        new = self._value_state(value, st)
                    elif any(isinstance(x, ast.Name) and x.id == self.var for x in ast.walk(t)):
                        new = TOP
                    elif not isinstance(t, ast.Name):
                        self.ev(t, st)
            elif isinstance(node, ast.Expr):
                self.ev(node.value, st)
            elif isinstance(node, ast.Delete):
                pass
            return {lab: (new if lab != "exc" else st) for lab in labels}
        if kind == "loop":
            self.ev(node.iter, st)
            new = st
            if any(isinstance(x, ast.Name) and x.id == self.var for x in ast.walk(node.target)):
                new = TOP
            return {lab: (new if lab == "T" else st) for lab in labels}
        if kind == "return":
            return {lab: st for lab in labels}
        if kind == "raise":
            if node.exc is not None:
                self.ev(node.exc, st)
            return {lab: st for lab in labels}
        if kind == "assert":
            t, f = self.ev(node.test, st)
            return {lab: (t if lab is None else st) for lab in labels}
        if kind == "with":
            for it in node.items:
                self.ev(it.context_expr, st)
            return {lab: st for lab in labels}
        return {lab: st for lab in labels}

    def _value_state(self, value, st):
        """State of the tracked variable after `var = value`."""
        if isinstance(value, ast.Call) and isinstance(value.func, ast.Name):
            if value.func.id in self.m.classes:
                return (frozenset([("cls", value.func.id)]), frozenset())
            if value.func.id == "cast" and len(value.args) == 2 and self.is_var(value.args[1]):
                return st
            if isinstance(getattr(builtins, value.func.id, None), type):
                return (frozenset([("builtin", value.func.id)]), frozenset())
        if self.is_var(value):
            return st
        if isinstance(value, ast.Name) and value.id in self.temps:
            return self.temps[value.id]
        # var = helper(var): the helper's returned-value state for this argument state
        if isinstance(value, ast.Call) and any(self.is_var(a) for a in value.args):
            callee, idx = self._resolve(value)
            if callee is not None and idx is not None:
                self.ga.analyze(callee, callee.params[idx], st, self.chain)
                rs = self.ga._ret_state.get((callee.qual, callee.params[idx], st), "unset")
                if rs != "unset" and rs is not None:
                    return rs
        return TOP


def show_state(st):
    if st is None:
        return "unreachable"
    types, has = st
    if types is None:
        s = "any object"
    else:
        s = " | ".join(sorted(a[1] for a in types)) or "nothing"
    if has:
        s += " with " + ",".join(sorted(has))
    return s
