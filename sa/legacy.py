"""The legacy-spelling rewrite as data: verify structurally that FixUnitIfIsLegacy is a fold of
str.replace over a literal list, and return that list (used by C16, C14 and C19)."""
import ast

from .report import AnalysisError

FIXER = "FixUnitIfIsLegacy"


def _literal_pairs(node):
    if isinstance(node, ast.AnnAssign):
        node = node.value
    if not isinstance(node, (ast.List, ast.Tuple)):
        return None
    out = []
    for e in node.elts:
        if not (isinstance(e, (ast.Tuple, ast.List)) and len(e.elts) == 2 and all(isinstance(x, ast.Constant) and isinstance(x.value, str) for x in e.elts)):
            return None
        out.append((e.elts[0].value, e.elts[1].value, e.lineno))
    return out


def chain(model):
    """Returns (pairs [(legacy, current, line)], fixer Func, info dict).  Raises AnalysisError when
    the fixer is not recognisably `for a, b in LITERAL: s = s.replace(a, b)` returning
    (changed?, s)."""
    fns = [f for f in model.by_name.get(FIXER, []) if f.cls is None]
    if len(fns) != 1:
        raise AnalysisError("anchor function %s not found (or ambiguous)" % FIXER)
    fn = fns[0]
    if len(fn.params) != 1:
        raise AnalysisError("%s: expected one parameter" % FIXER)
    p = fn.params[0]
    loops = [n for n in ast.walk(fn.node) if isinstance(n, ast.For)]
    if len(loops) != 1:
        raise AnalysisError("%s: expected exactly one loop over the substitution list" % FIXER)
    lp = loops[0]
    if isinstance(lp.target, ast.Name) and len(lp.body) == 1 and isinstance(lp.body[0], ast.Assign) and isinstance(lp.body[0].value, ast.Call) \
            and len(lp.body[0].value.args) in (1, 2) and isinstance(lp.body[0].value.args[0], ast.Starred) and isinstance(lp.body[0].value.args[0].value, ast.Name) \
            and lp.body[0].value.args[0].value.id == lp.target.id and not lp.body[0].value.keywords \
            and sum(1 for x in ast.walk(lp) if isinstance(x, ast.Name) and x.id == lp.target.id) == 2:
        # `for pair in TABLE: s = s.replace(*pair)` is `for a, b in TABLE: s = s.replace(a, b)` (the table holds pairs: checked below)
        nm = lp.target.id
        lp.target = ast.copy_location(ast.Tuple(elts=[ast.Name(id=nm + "__0", ctx=ast.Store()), ast.Name(id=nm + "__1", ctx=ast.Store())], ctx=ast.Store()), lp.target)
        lp.body[0].value.args = [ast.Name(id=nm + "__0", ctx=ast.Load()), ast.Name(id=nm + "__1", ctx=ast.Load())] + lp.body[0].value.args[1:]  # (a count may follow)
        ast.fix_missing_locations(lp)
    if not (isinstance(lp.target, ast.Tuple) and len(lp.target.elts) == 2 and all(isinstance(x, ast.Name) for x in lp.target.elts)):
        raise AnalysisError("%s: loop target is not a pair" % FIXER)
    a, b = lp.target.elts[0].id, lp.target.elts[1].id
    # body, one of the recognised "replace a by b in V" idioms:
    #   V = V.replace(a, b)              every occurrence
    #   V = V.replace(a, b, K)           the first K occurrences (K a literal)
    #   h, f, t = V.partition(a) ; if f: V = h + b + t      the first occurrence
    body = [s for s in lp.body if not isinstance(s, ast.Pass)]
    # `if a in V: V = V.replace(a, ...)` is the bare replace: without an occurrence replace returns V unchanged
    if (len(body) == 1 and isinstance(body[0], ast.If) and not body[0].orelse and len(body[0].body) == 1 and isinstance(body[0].body[0], ast.Assign)
            and isinstance(body[0].test, ast.Compare) and len(body[0].test.ops) == 1 and isinstance(body[0].test.ops[0], ast.In)
            and isinstance(body[0].test.left, ast.Name) and isinstance(body[0].test.comparators[0], ast.Name)):
        g, inner = body[0], body[0].body[0]
        c = inner.value
        if (isinstance(c, ast.Call) and isinstance(c.func, ast.Attribute) and c.func.attr == "replace" and isinstance(c.func.value, ast.Name)
                and c.func.value.id == g.test.comparators[0].id and c.args and isinstance(c.args[0], ast.Name) and c.args[0].id == g.test.left.id):
            body = [inner]
    count = None
    if len(body) == 1 and isinstance(body[0], ast.Assign) and len(body[0].targets) == 1 and isinstance(body[0].targets[0], ast.Name):
        v = body[0].targets[0].id
        call = body[0].value
        ok = (isinstance(call, ast.Call) and isinstance(call.func, ast.Attribute) and call.func.attr == "replace"
              and isinstance(call.func.value, ast.Name) and call.func.value.id == v and len(call.args) in (2, 3) and not call.keywords
              and all(isinstance(x, ast.Name) for x in call.args[:2]))
        if not ok:
            raise AnalysisError("%s: loop body is not `s = s.replace(x, y)`" % FIXER)
        if len(call.args) == 3:
            if not (isinstance(call.args[2], ast.Constant) and isinstance(call.args[2].value, int)):
                raise AnalysisError("%s: replace count is not a literal" % FIXER)
            count = call.args[2].value
        order = (call.args[0].id, call.args[1].id)
    elif (len(body) == 2 and isinstance(body[0], ast.Assign) and isinstance(body[0].targets[0], ast.Tuple) and len(body[0].targets[0].elts) == 3
          and isinstance(body[0].value, ast.Call) and isinstance(body[0].value.func, ast.Attribute) and body[0].value.func.attr == "partition"
          and isinstance(body[0].value.func.value, ast.Name) and len(body[0].value.args) == 1 and isinstance(body[0].value.args[0], ast.Name)
          and isinstance(body[1], ast.If) and not body[1].orelse and len(body[1].body) == 1 and isinstance(body[1].body[0], ast.Assign)):
        h, f, t = (x.id if isinstance(x, ast.Name) else None for x in body[0].targets[0].elts)
        v = body[0].value.func.value.id
        asg = body[1].body[0]
        cat = asg.value
        parts = []
        while isinstance(cat, ast.BinOp) and isinstance(cat.op, ast.Add):
            parts.insert(0, cat.right)
            cat = cat.left
        parts.insert(0, cat)
        names = [x.id if isinstance(x, ast.Name) else None for x in parts]
        if not (isinstance(body[1].test, ast.Name) and body[1].test.id == f and isinstance(asg.targets[0], ast.Name) and asg.targets[0].id == v
                and len(names) == 3 and names[0] == h and names[2] == t and names[1] is not None):
            raise AnalysisError("%s: partition idiom not recognised" % FIXER)
        count = 1
        order = (body[0].value.args[0].id, names[1])
        body = [asg]
    else:
        raise AnalysisError("%s: loop body is not a recognised replace idiom" % FIXER)
    if set(order) != {a, b}:
        raise AnalysisError("%s: replace operands are not the loop variables" % FIXER)
    swapped = order != (a, b)
    # V initialised from the parameter
    inits = [s for s in ast.walk(fn.node) if isinstance(s, ast.Assign) and any(isinstance(t, ast.Name) and t.id == v for t in s.targets) and s is not body[0]]
    if v != p and not (inits and all(isinstance(i_.value, ast.Name) and i_.value.id == p for i_ in inits)):
        raise AnalysisError("%s: accumulator is not initialised from the parameter" % FIXER)
    # the list
    it = lp.iter
    pairs = None
    if isinstance(it, ast.Name):
        tree = model.tree(fn.path)
        for st in tree.body:
            tg = None
            if isinstance(st, ast.Assign) and len(st.targets) == 1 and isinstance(st.targets[0], ast.Name):
                tg = st.targets[0].id
                val = st.value
            elif isinstance(st, ast.AnnAssign) and isinstance(st.target, ast.Name) and st.value is not None:
                tg = st.target.id
                val = st.value
            if tg == it.id:
                pairs = _literal_pairs(val)
                if pairs is None:
                    pairs = _zipped_pairs(tree, val)
        # the list must not be mutated elsewhere in the library
        for rel, (tree2, _) in model.trees.items():
            if rel.endswith("posc.py"):
                continue
            for n in ast.walk(tree2):
                if isinstance(n, ast.Attribute) and isinstance(n.value, ast.Name) and n.value.id == it.id and n.attr in ("append", "extend", "insert", "pop", "remove", "clear", "sort", "reverse"):
                    raise AnalysisError("substitution list %s is mutated at %s:%d" % (it.id, rel, n.lineno))
    else:
        pairs = _literal_pairs(it)
    if pairs is None:
        raise AnalysisError("%s: substitution list is not a literal list of string pairs" % FIXER)
    if swapped:
        pairs = [(y, x, l) for x, y, l in pairs]
    pairs = PairList(pairs)
    pairs.count = count
    # returns: (param != V, V) on the normal path
    rets = [n for n in ast.walk(fn.node) if isinstance(n, ast.Return)]
    main = [r for r in rets if isinstance(r.value, ast.Tuple) and len(r.value.elts) == 2 and isinstance(r.value.elts[1], ast.Name) and r.value.elts[1].id == v]
    if not main:
        raise AnalysisError("%s: no `return changed, rewritten` found" % FIXER)
    flag = main[0].value.elts[0]

    def is_changed_test(e):
        return (isinstance(e, ast.Compare) and len(e.ops) == 1 and isinstance(e.ops[0], ast.NotEq)
                and {ast.unparse(e.left), ast.unparse(e.comparators[0])} == {p, v})

    if isinstance(flag, ast.Name):
        # a flag local: `changed = unit != fixed` on the normal path (and a constant False where nothing was rewritten)
        vals = [s_.value for s_ in ast.walk(fn.node) if isinstance(s_, ast.Assign) and any(isinstance(t_, ast.Name) and t_.id == flag.id for t_ in s_.targets)]
        flag_ok = any(is_changed_test(x) for x in vals) and all(is_changed_test(x) or (isinstance(x, ast.Constant) and x.value is False) for x in vals)
    else:
        flag_ok = is_changed_test(flag)
    return pairs, fn, {"flag_is_changed_test": flag_ok, "flag_expr": ast.unparse(flag), "return": main[0]}


def _module_literal(tree, name):
    for st in tree.body:
        if isinstance(st, ast.Assign) and len(st.targets) == 1 and isinstance(st.targets[0], ast.Name) and st.targets[0].id == name:
            return st.value
        if isinstance(st, ast.AnnAssign) and isinstance(st.target, ast.Name) and st.target.id == name and st.value is not None:
            return st.value
    return None


def _zipped_pairs(tree, node):
    """tuple(zip(A, B)) / list(zip(A, B)) / zip(A, B) over two module-level literal sequences of strings of equal length."""
    if isinstance(node, ast.Call) and isinstance(node.func, ast.Name) and node.func.id in ("tuple", "list") and len(node.args) == 1 and not node.keywords:
        node = node.args[0]
    if not (isinstance(node, ast.Call) and isinstance(node.func, ast.Name) and node.func.id == "zip" and len(node.args) == 2 and not node.keywords):
        return None
    seqs = []
    for a in node.args:
        lit = _module_literal(tree, a.id) if isinstance(a, ast.Name) else a
        if not (isinstance(lit, (ast.Tuple, ast.List)) and all(isinstance(x, ast.Constant) and isinstance(x.value, str) for x in lit.elts)):
            return None
        seqs.append(lit.elts)
    if len(seqs[0]) != len(seqs[1]):
        raise AnalysisError("%s: the two zipped spelling sequences have different lengths" % FIXER)
    return [(x.value, y.value, x.lineno) for x, y in zip(*seqs)]


class PairList(list):
    """Substitution pairs plus how many occurrences each step replaces (None = all)."""

    count = None


def apply(pairs, s):
    count = getattr(pairs, "count", None)
    for a, b, _ in pairs:
        s = s.replace(a, b) if count is None else s.replace(a, b, count)
    return s


def fixed_arg(t):
    """If term t is FixUnitIfIsLegacy(arg)[1] return arg, else None."""
    if t[0] == "sub" and t[2] == ("const", 1) and t[1][0] == "call" and t[1][1] == ("name", FIXER) and len(t[1][2]) == 1:
        return t[1][2][0]
    return None


def flag_arg(t):
    if t[0] == "sub" and t[2] == ("const", 0) and t[1][0] == "call" and t[1][1] == ("name", FIXER) and len(t[1][2]) == 1:
        return t[1][2][0]
    return None
