"""Entry point: ./check <property id> [--tier quick|thorough] [--replay FILE]"""
import importlib
import json
import os
import sys
import time
import traceback

from . import report
from .report import AnalysisError, Report


class Ctx:
    """Lazily built shared analyses (one process = one property run)."""

    def __init__(self, overlay=None, root=None):
        self._overlay = overlay
        self._root = root
        self._model = None
        self._tables = None
        self._prov = None
        self._effects = None

    @property
    def model(self):
        if self._model is None:
            from .srcmodel import Model

            self._model = Model(root=self._root, overlay=self._overlay)
        return self._model

    @property
    def tables(self):
        if self._tables is None:
            from . import tables

            self._tables = tables.extract(self.model)
        return self._tables

    @property
    def prov(self):
        if self._prov is None:
            from . import prov

            a = prov.Analyzer(self.model)
            a.run()
            self._prov = a
        return self._prov

    @property
    def effects(self):
        if self._effects is None:
            from . import effects

            self._effects = effects.Effects(self.model, self.prov)
        return self._effects


def evaluate(prop, tier="quick", seed=0, overlay=None, root=None):
    """Run all rules of a property; returns (Report, rule module)."""
    mod = importlib.import_module("sa.rules." + prop.lower())
    rep = Report(prop, tier, seed)
    ctx = Ctx(overlay=overlay, root=root)
    try:
        mod.run(rep, ctx)
    except AnalysisError as e:
        rep.error(prop, str(e))
    except Exception as e:
        rep.error(prop, "analyser crashed: %r\n%s" % (e, traceback.format_exc(limit=8)))
    return rep, mod


def main(argv):
    if not argv or argv[0].startswith("-"):
        print("usage: ./check <property id> [--tier quick|thorough] [--replay FILE]")
        return 2
    prop = argv[0].upper()
    tier = os.environ.get("VERIF_TIER", "quick")
    replay = None
    i = 1
    while i < len(argv):
        if argv[i] == "--tier":
            tier = argv[i + 1]
            i += 2
        elif argv[i] == "--replay":
            replay = argv[i + 1]
            i += 2
        else:
            print("unknown argument %s" % argv[i])
            return 2
    if tier not in ("quick", "thorough"):
        tier = "quick"
    try:
        seed = int(os.environ.get("VERIF_SEED", "0"))
    except ValueError:
        seed = 0
    replay_key = None
    if replay:
        try:
            with open(replay) as f:
                d = json.load(f)
            replay_key = (d["rule"], d["key"])
        except Exception as e:
            print("ANALYSIS-ERROR property=%s cannot read replay file %s: %s" % (prop, replay, e))
            return 2
    try:
        rep, mod = evaluate(prop, tier, seed)
        if tier == "thorough":
            from . import controls

            controls.run_thorough(rep, mod, prop, seed)
        return report.finish(
            rep,
            explanation=mod.EXPLANATION,
            trusted_base=list(getattr(mod, "TRUSTED", [])) + COMMON_TRUSTED,
            assumptions=list(getattr(mod, "ASSUMPTIONS", [])) + COMMON_ASSUMPTIONS,
            exhaustive=getattr(mod, "EXHAUSTIVE", False),
            replay_key=replay_key,
        )
    except ModuleNotFoundError as e:
        print("ANALYSIS-ERROR property=%s no rule module: %s" % (prop, e))
        return 2
    except Exception as e:  # never let a traceback look like a violation
        print("ANALYSIS-ERROR property=%s analyser crashed: %r" % (prop, e))
        traceback.print_exc(limit=8, file=sys.stdout)
        return 2


COMMON_TRUSTED = [
    "CPython ast module (parser)",
    "the sa/ engine of /verif (source model, CFG, provenance, table interpreter, algebra)",
    "Python semantics of the constructs the rules reason about (attribute lookup, MRO, "
    "functools.total_ordering, copy/pickle protocol hooks, str.replace)",
]
COMMON_ASSUMPTIONS = [
    "the library is analysed from source under <repo>/src/barril without its tests; nothing is imported or executed",
    "assert statements are enabled; no monkey-patching of barril at run time",
    "callers outside the repository do not mutate containers they hand to or receive from barril",
    "what is decided are the structural clauses named in coverage.rules (necessary conditions of the property), "
    "not the runtime behaviour itself; clauses not decided are listed in coverage.not_decided",
]

if __name__ == "__main__":
    sys.exit(main(sys.argv[1:]))
