"""A3 provenance / ownership analysis (DESIGN.md Appendix A).

An abstract value says what an object, its elements and their elements may *be*:
    FRESH (allocated in this function), IMM (str/number/tuple/function), SELF,
    F(class, attr, depth) (reachable from a field), P(i, depth) (reachable from parameter i),
    U (unknown)
plus an optional tuple shape (per-position values) and element shape.  Flow-insensitive per
variable, context-insensitive; function summaries (returns / mutates / captures) are iterated to
a fixpoint over the class-hierarchy call graph.  Nothing is executed.
"""
import ast
import collections

from .typeinfer import TypeInfer

FRESH = ("FRESH",)
IMM = ("IMM",)
UNK = ("U",)
SELF = ("SELF",)
fs = frozenset


class V:
    __slots__ = ("lv", "shape", "eshape", "_key")

    def __init__(self, l0=(), l1=None, l2=None, shape=None, eshape=None):
        l0 = fs(l0)
        l1 = fs(l0 if l1 is None else l1)
        l2 = fs(l1 if l2 is None else l2)
        self.lv = (l0, l1, l2)
        self.shape = shape
        self.eshape = eshape
        self._key = None

    def key(self):
        if self._key is None:
            self._key = (
                self.lv,
                tuple(p.key() for p in self.shape) if self.shape is not None else None,
                self.eshape.key() if self.eshape is not None else None,
            )
        return self._key

    def __eq__(self, o):
        return isinstance(o, V) and self.key() == o.key()

    def __hash__(self):
        return hash(self.key())

    def __repr__(self):
        r = "/".join(fmt_atoms(x) for x in self.lv)
        if self.shape is not None:
            r += " shape(" + ", ".join(fmt_atoms(p.lv[0]) for p in self.shape) + ")"
        return r


BOT = V(())
FRESH_ALL = V({FRESH})
IMM_ALL = V({IMM})
UNK_ALL = V({UNK})
SELF_V = V({SELF})


def _depth_of(v, n=0):
    if v is None or n > 3:
        return n
    d = n
    if v.shape is not None:
        d = max([d] + [_depth_of(p, n + 1) for p in v.shape])
    if v.eshape is not None:
        d = max(d, _depth_of(v.eshape, n + 1))
    return d


def _trim(v, n=0):
    """Bound shape nesting (termination of the fixpoint)."""
    if v is None:
        return None
    if n >= 3:
        return V(v.lv[0], v.lv[1], v.lv[2])
    if v.shape is None and v.eshape is None:
        return v
    return V(v.lv[0], v.lv[1], v.lv[2], tuple(_trim(p, n + 1) for p in v.shape) if v.shape is not None else None, _trim(v.eshape, n + 1))


def tup(parts):
    parts = tuple(parts)
    if not parts:
        return IMM_ALL
    l1 = fs().union(*[p.lv[0] for p in parts])
    l2 = fs().union(*[p.lv[1] for p in parts])
    return V({IMM}, l1, l2, shape=parts)


def join(*vs):
    vs = [v for v in vs if v is not None and v is not BOT]
    if not vs:
        return BOT
    if len(vs) == 1:
        return vs[0]
    lv = [fs().union(*[v.lv[i] for v in vs]) for i in range(3)]
    shape = None
    if all(v.shape is not None for v in vs) and len({len(v.shape) for v in vs}) == 1:
        shape = tuple(join(*[v.shape[i] for v in vs]) for i in range(len(vs[0].shape)))
    es = [v.eshape for v in vs]
    eshape = join(*es) if all(e is not None for e in es) else None
    return _trim(V(lv[0], lv[1], lv[2], shape, eshape))


def elem(v, idx=None):
    if v.shape is not None:
        if idx is not None and -len(v.shape) <= idx < len(v.shape):
            return v.shape[idx]
        return join(*v.shape)
    if v.eshape is not None:
        return v.eshape
    return V(v.lv[1], v.lv[2], v.lv[2])


def fresh_outer(v):
    return V({FRESH}, v.lv[1], v.lv[2], None, elem(v) if (v.eshape is not None or v.shape is not None) else None)


def wrap(v):
    return _trim(V({FRESH}, v.lv[0], v.lv[1], None, v if v.shape is not None else None))


def field(cls, attr):
    return V({("F", cls, attr, 0)}, {("F", cls, attr, 1)}, {("F", cls, attr, 2)})


def param(i):
    return V({("P", i, 0)}, {("P", i, 1)}, {("P", i, 2)})


SHALLOW = {"list", "tuple", "set", "frozenset", "sorted", "reversed", "iter"}
IMMFUNCS = {"len", "str", "int", "float", "bool", "abs", "round", "hash", "isinstance", "type", "repr", "hasattr", "id",
            "min", "max", "sum", "any", "all", "callable", "issubclass", "range", "format", "chr", "ord", "pow", "divmod", "eval"}
MUTATORS = {"append", "extend", "insert", "pop", "remove", "clear", "update", "setdefault", "sort", "reverse", "popitem",
            "move_to_end", "add", "discard", "__setitem__", "__delitem__"}
REPO_MUTATORS = {"SetNumber", "SetFraction", "set_numerator", "set_denominator", "reduce"}
STRMETH = {"format", "join", "replace", "lower", "upper", "title", "strip", "split", "startswith", "endswith", "find",
           "is_integer", "match", "group", "getvalue", "rstrip", "lstrip", "count", "index"}
IMM_ANN = {"str", "int", "float", "bool", "bytes", "None", "complex"}


def ann_is_imm(a):
    if a is None:
        return False
    if isinstance(a, ast.Constant):
        return a.value is None or (isinstance(a.value, str) and a.value in IMM_ANN)
    if isinstance(a, ast.Name):
        return a.id in IMM_ANN
    if isinstance(a, ast.Subscript) and isinstance(a.value, ast.Name) and a.value.id in ("Optional", "Union"):
        sl = a.slice
        els = sl.elts if isinstance(sl, ast.Tuple) else [sl]
        return all(ann_is_imm(e) for e in els)
    return False


class Summary:
    def __init__(self):
        self.ret = BOT
        self.mut = set()  # (param index, depth)
        self.sinks = []
        self.captures = {}  # (cls, attr) -> V
        self.env = {}
        self.calls = []  # (call node, [callee Func])


class Analyzer:
    def __init__(self, model, skip=None):
        self.m = model
        self.skip = skip or (lambda q: q.endswith("posc.FillUnitDatabaseWithPosc"))
        self.sum = {q: Summary() for q in model.funcs}
        self.ti = TypeInfer(model)
        self.props = collections.defaultdict(list)  # property name -> [(class, getter Func)]
        self.setters = collections.defaultdict(list)
        for cname, ci in model.classes.items():
            for pname, (g, s) in ci.properties.items():
                if g is not None:
                    self.props[pname].append((cname, g))
                if s is not None:
                    self.setters[pname].append((cname, s))
        self._owners = None
        self._imm = {}
        self.rounds = 0

    # ------------------------------------------------------------------ call resolution
    def callees(self, call, fn):
        f = call.func
        m = self.m
        if isinstance(f, ast.Name):
            if f.id in m.classes:
                return [("ctor", f.id, m.lookup(f.id, "__init__"))]
            out = []
            for x in m.by_name.get(f.id, []):
                if x.cls is None and x.parent is None:
                    out.append(("fn", None, x))
                elif x.parent is not None and (x.parent is fn or x.parent is fn.parent or fn.qual.startswith(x.parent.qual)):
                    out.append(("fn", None, x))
            return out
        if isinstance(f, ast.Attribute):
            name, recv = f.attr, f.value
            cands = [x for x in m.by_name.get(name, []) if x.cls and x.is_method]
            # aliases registered in by_name are Func objects of the original; keep those defined for the name
            if isinstance(recv, ast.Name) and recv.id in ("self", "cls") and fn.cls:
                fam = m.family(fn.cls)
                hits = []
                for c in fam:
                    g = m.lookup(c, name)
                    if g is not None and g not in hits:
                        hits.append(g)
                return [("meth", x.cls, x) for x in hits]
            if isinstance(recv, ast.Name) and recv.id in m.classes:
                hit = m.lookup(recv.id, name)
                return [("meth", hit.cls, hit)] if hit else []
            if isinstance(recv, ast.Call) and isinstance(recv.func, ast.Name) and recv.func.id == "super" and fn.cls:
                for c in m.mro(fn.cls)[1:]:
                    if name in m.classes[c].methods:
                        g = m.classes[c].methods[name]
                        return [("meth", g.cls, g)]
                return []
            classes = self.ti.expr_classes(recv, fn)
            if classes:
                hits = []
                for c in classes:
                    for c2 in [c] + m.subclasses(c):
                        g = m.lookup(c2, name)
                        if g is not None and g not in hits:
                            hits.append(g)
                return [("meth", x.cls, x) for x in hits]
            if name.startswith("__") and name.endswith("__"):
                return []
            return [("meth", x.cls, x) for x in dict.fromkeys(cands)]
        return []

    def field_owner(self, attr):
        if self._owners is None:
            self._owners = collections.defaultdict(set)
            for fnn in self.m.funcs.values():
                if not fnn.cls or self.skip(fnn.qual) or not fnn.params:
                    continue
                me = fnn.params[0]
                for e in ast.walk(fnn.node):
                    if isinstance(e, ast.Attribute) and isinstance(e.ctx, ast.Store) and isinstance(e.value, ast.Name) and e.value.id == me:
                        self._owners[e.attr].add(fnn.cls)
            for cname, c in self.m.classes.items():
                for a in c.annotations:
                    self._owners[a].add(cname)
                for a in c.class_attrs:
                    if a not in c.methods and a not in c.properties:
                        self._owners[a].add(cname)
        return sorted(self._owners.get(attr, ()))

    def field_imm(self, cls, attr):
        """A field that can only ever hold immutable scalars (str/number/bool/None), judged from
        annotations: class-level annotation, or every store's right-hand side is a scalar-annotated
        parameter, a call of a function with a scalar return annotation, a constant or another
        such field."""
        key = (cls, attr)
        if key in self._imm:
            return self._imm[key]
        self._imm[key] = False  # cycle guard
        res = False
        for c in self.m.mro(cls) if cls in self.m.classes else []:
            ann = self.m.classes[c].annotations.get(attr)
            if ann is not None:
                res = ann_is_imm(ann)
                self._imm[key] = res
                return res
        from .terms import field_stores

        stores = field_stores(self.m, cls, attr) if cls in self.m.classes else []
        if stores:
            res = all(self._expr_imm(v, fn) for fn, v, st in stores)
        self._imm[key] = res
        return res

    def _expr_imm(self, e, fn, depth=0):
        if depth > 5:
            return False
        if isinstance(e, (ast.Constant, ast.JoinedStr, ast.Compare)):
            return True
        if isinstance(e, ast.Name):
            ann = fn.param_annotation(e.id)
            if ann is not None:
                # a rebinding of the parameter must be immutable as well
                rebinds = [n.value for n in ast.walk(fn.node) if isinstance(n, ast.Assign) and any(isinstance(t, ast.Name) and t.id == e.id for t in n.targets)]
                return ann_is_imm(ann) and all(self._expr_imm(r, fn, depth + 1) for r in rebinds)
            defs = [n.value for n in ast.walk(fn.node) if isinstance(n, ast.Assign) and any(isinstance(t, ast.Name) and t.id == e.id for t in n.targets)]
            tupled = any(isinstance(n, ast.Assign) and any(isinstance(t, (ast.Tuple, ast.List)) and any(isinstance(x, ast.Name) and x.id == e.id for x in t.elts) for t in n.targets) for n in ast.walk(fn.node))
            looped = any(isinstance(n, (ast.For, ast.comprehension)) and any(isinstance(x, ast.Name) and x.id == e.id for x in ast.walk(n.target)) for n in ast.walk(fn.node))
            return bool(defs) and not tupled and not looped and all(self._expr_imm(d, fn, depth + 1) for d in defs)
        if isinstance(e, ast.Call):
            if isinstance(e.func, ast.Name) and e.func.id in ("str", "int", "float", "bool", "len", "hash", "repr", "abs", "round"):
                return True
            cal = [g for _, _, g in self.callees(e, fn) if g is not None]
            return bool(cal) and all(ann_is_imm(g.node.returns) for g in cal)
        if isinstance(e, ast.Attribute) and isinstance(e.value, ast.Name) and fn.params and e.value.id == fn.params[0] and fn.cls:
            return self.field_imm(self.owner_in_family(fn.cls, e.attr), e.attr)
        if isinstance(e, ast.Attribute):
            classes = self.ti.expr_classes(e.value, fn)
            if classes:
                return all(self.field_imm(self.owner_in_family(c, e.attr), e.attr) for c in classes)
            return False
        if isinstance(e, ast.BinOp):
            return self._expr_imm(e.left, fn, depth + 1) and self._expr_imm(e.right, fn, depth + 1)
        if isinstance(e, ast.IfExp):
            return self._expr_imm(e.body, fn, depth + 1) and self._expr_imm(e.orelse, fn, depth + 1)
        if isinstance(e, ast.BoolOp):
            return all(self._expr_imm(v, fn, depth + 1) for v in e.values)
        return False

    def owner_in_family(self, cls, attr):
        owners = set(self.field_owner(attr))
        for c in self.m.mro(cls):
            if c in owners:
                return c
        for c in self.m.subclasses(cls):
            if c in owners:
                return c
        return cls

    # ------------------------------------------------------------------ substitution
    def subst(self, v, binding):
        def sub_lv(v):
            out = [set(), set(), set()]
            for lvl in range(3):
                for at in v.lv[lvl]:
                    if at[0] == "P":
                        b = binding.get(at[1])
                        if b is None:
                            out[lvl].add(IMM)
                        else:
                            out[lvl] |= b.lv[min(2, at[2])]
                    elif at == SELF:
                        out[lvl] |= (binding.get(0) or FRESH_ALL).lv[0]
                    else:
                        out[lvl].add(at)
            return out

        o = sub_lv(v)
        shape = tuple(self.subst(p, binding) for p in v.shape) if v.shape is not None else None
        eshape = self.subst(v.eshape, binding) if v.eshape is not None else None
        return V(o[0], o[1], o[2], shape, eshape)

    def bindret(self, g, binding):
        return self.subst(self.sum[g.qual].ret, binding)

    # ------------------------------------------------------------------ one function
    def own_nodes(self, fn):
        out = []

        def walk(body):
            for n in body:
                if isinstance(n, (ast.FunctionDef, ast.AsyncFunctionDef, ast.ClassDef)):
                    out.append(n)
                    continue
                out.append(n)
                for fld in ("body", "orelse", "finalbody"):
                    sub = getattr(n, fld, None)
                    if isinstance(sub, list):
                        walk(sub)
                for h in getattr(n, "handlers", []) or []:
                    out.append(h)
                    walk(h.body)

        walk(fn.node.body)
        return out

    def analyze(self, fn):
        fa = FuncAnalysis(self, fn)
        fa.run()
        return fa

    def run(self, rounds=8):
        order = [f for f in self.m.funcs.values() if not self.skip(f.qual)]
        for r in range(rounds):
            before = {q: (x.ret, fs(x.mut), fs(x.captures.items())) for q, x in self.sum.items()}
            for fn in order:
                self.analyze(fn)
            self.rounds = r + 1
            if before == {q: (x.ret, fs(x.mut), fs(x.captures.items())) for q, x in self.sum.items()}:
                return r
        return rounds

    # ------------------------------------------------------------------ queries for rules
    def value(self, fn, expr):
        """Abstract value of an expression of fn, using fn's final environment."""
        fa = FuncAnalysis(self, fn, env=dict(self.sum[fn.qual].env), record=False)
        return fa.ev(expr)

    def sinks(self):
        for q, sm in self.sum.items():
            for sk in sm.sinks:
                yield self.m.funcs[q], sk


class FuncAnalysis:
    def __init__(self, an, fn, env=None, record=True):
        self.an = an
        self.m = an.m
        self.fn = fn
        self.sm = an.sum[fn.qual]
        self.record = record
        self.env = env if env is not None else {}
        self.sinks = []
        self.seen = set()
        self.caps = {}
        self.calls = []
        self.mut = set()
        a = fn.node.args
        self.allargs = a.posonlyargs + a.args + ([a.vararg] if a.vararg else []) + a.kwonlyargs + ([a.kwarg] if a.kwarg else [])
        self.is_method = fn.cls is not None and fn.is_method and not fn.is_staticmethod and bool(fn.params)
        if env is None:
            for i, p in enumerate(self.allargs):
                self.env[p.arg] = IMM_ALL if ann_is_imm(p.annotation) else param(i)
            if self.is_method:
                self.env[fn.params[0]] = SELF_V
            # closure variables of the enclosing function
            if fn.parent is not None:
                penv = an.sum[fn.parent.qual].env
                for k, v in penv.items():
                    if k not in self.env:
                        self.env[k] = self._outer(v)

    def _outer(self, v):
        """A value of the enclosing function seen from a nested one: parameters of the outer
        function are not parameters here."""
        def conv(atoms):
            return fs(UNK if a[0] == "P" else a for a in atoms)

        return V(conv(v.lv[0]), conv(v.lv[1]), conv(v.lv[2]))

    # -------------------------------------------------------------- evaluation
    def ev(self, e):
        m = self.m
        if e is None or isinstance(e, (ast.Constant, ast.JoinedStr, ast.Lambda)):
            return IMM_ALL
        if isinstance(e, ast.Name):
            v = self.env.get(e.id)
            if v is not None:
                return v
            return IMM_ALL if (e.id in ("None", "True", "False") or e.id in m.classes or e.id[:1].isupper()) else UNK_ALL
        if isinstance(e, ast.Tuple):
            if any(isinstance(x, ast.Starred) for x in e.elts):
                return fresh_outer(join(*[self.ev(x.value if isinstance(x, ast.Starred) else x) for x in e.elts]))
            return tup([self.ev(x) for x in e.elts])
        if isinstance(e, (ast.List, ast.Set)):
            parts = [elem(self.ev(x.value)) if isinstance(x, ast.Starred) else self.ev(x) for x in e.elts]
            return wrap(join(*parts)) if parts else FRESH_ALL
        if isinstance(e, ast.Dict):
            return wrap(join(*[self.ev(v) for v in e.values])) if e.values else FRESH_ALL
        if isinstance(e, (ast.ListComp, ast.SetComp, ast.GeneratorExp, ast.DictComp)):
            for g in e.generators:
                self.assign(g.target, elem(self.ev(g.iter)))
                for c in g.ifs:
                    self.ev(c)
            return wrap(self.ev(e.value) if isinstance(e, ast.DictComp) else self.ev(e.elt))
        if isinstance(e, ast.BinOp):
            l, r = self.ev(e.left), self.ev(e.right)
            if (l.lv[0] | r.lv[0]) <= {IMM} and l.shape is None and r.shape is None:
                return IMM_ALL
            if isinstance(e.op, (ast.Add, ast.Mult)):
                return V({FRESH}, l.lv[1] | r.lv[1], l.lv[2] | r.lv[2])
            if isinstance(e.op, ast.Mod) and l.lv[0] <= {IMM}:
                return IMM_ALL
            return UNK_ALL
        if isinstance(e, (ast.UnaryOp, ast.Compare)):
            for sub in ast.iter_child_nodes(e):
                if isinstance(sub, ast.expr):
                    self.ev(sub)
            return IMM_ALL
        if isinstance(e, ast.BoolOp):
            return join(*[self.ev(v) for v in e.values])
        if isinstance(e, ast.IfExp):
            self.ev(e.test)
            return join(self.ev(e.body), self.ev(e.orelse))
        if isinstance(e, ast.Starred):
            return self.ev(e.value)
        if isinstance(e, ast.Subscript):
            b = self.ev(e.value)
            if isinstance(e.slice, ast.Slice):
                return fresh_outer(b)
            self.ev(e.slice)
            idx = e.slice.value if isinstance(e.slice, ast.Constant) and isinstance(e.slice.value, int) else None
            if idx is None and isinstance(e.slice, ast.UnaryOp) and isinstance(e.slice.op, ast.USub) and isinstance(e.slice.operand, ast.Constant):
                idx = -e.slice.operand.value
            return elem(b, idx)
        if isinstance(e, ast.Attribute):
            return self.ev_attr(e)
        if isinstance(e, ast.Call):
            return self.ev_call(e)
        if isinstance(e, ast.NamedExpr):
            v = self.ev(e.value)
            self.assign(e.target, v)
            return v
        if isinstance(e, (ast.Yield, ast.YieldFrom, ast.Await)):
            return self.ev(e.value) if e.value else IMM_ALL
        return UNK_ALL

    def ev_attr(self, e):
        m, an, fn = self.m, self.an, self.fn
        b = self.ev(e.value)
        outs = []
        if SELF in b.lv[0] and fn.cls:
            prop = m.lookup_property(fn.cls, e.attr)
            fam = m.family(fn.cls)
            ps = [g for c, g in an.props.get(e.attr, []) if c in fam and g]
            if ps:
                outs += [an.bindret(g, {0: b}) for g in dict.fromkeys(ps)]
            elif m.lookup(fn.cls, e.attr) or any(m.lookup(c, e.attr) for c in fam):
                return IMM_ALL
            else:
                own = an.owner_in_family(fn.cls, e.attr)
                outs.append(IMM_ALL if an.field_imm(own, e.attr) else field(own, e.attr))
            rest = b.lv[0] - {SELF}
            if not rest:
                return join(*outs)
        classes = an.ti.expr_classes(e.value, fn)
        if classes:
            for c in classes:
                prop = m.lookup_property(c, e.attr)
                if prop and prop[0] is not None:
                    outs.append(an.bindret(prop[0], {0: b}))
                elif m.lookup(c, e.attr):
                    outs.append(IMM_ALL)
                else:
                    own = an.owner_in_family(c, e.attr)
                    outs.append(IMM_ALL if an.field_imm(own, e.attr) else field(own, e.attr))
            return join(*outs)
        ps = [g for c, g in an.props.get(e.attr, []) if g]
        outs += [an.bindret(g, {0: b}) for g in dict.fromkeys(ps)]
        owners = an.field_owner(e.attr)
        outs += [IMM_ALL if an.field_imm(o, e.attr) else field(o, e.attr) for o in owners] or ([field(None, e.attr)] if not ps else [])
        return join(*outs)

    def ev_call(self, c):
        m, an, fn = self.m, self.an, self.fn
        f = c.func
        args = [self.ev(x) for x in c.args]
        kws = {k.arg: self.ev(k.value) for k in c.keywords}
        a0 = args[0] if args else BOT
        if isinstance(f, ast.Name):
            n = f.id
            if n in IMMFUNCS:
                return IMM_ALL
            if n in SHALLOW:
                return fresh_outer(a0) if args else FRESH_ALL
            if n in ("dict", "OrderedDict", "defaultdict"):
                if not args:
                    return FRESH_ALL
                e = elem(a0)
                if e.shape is not None and len(e.shape) == 2:
                    return wrap(e.shape[1])
                return V({FRESH}, a0.lv[1] | a0.lv[2], a0.lv[2])
            if n == "zip":
                return wrap(tup([elem(x) for x in args]))
            if n == "enumerate":
                return wrap(tup([IMM_ALL, elem(a0)]))
            if n == "next":
                return elem(a0)
            if n == "cast":
                return args[1] if len(args) > 1 else UNK_ALL
            if n == "deepcopy":
                return FRESH_ALL
            if n == "getattr":
                return UNK_ALL
            if n == "super":
                return SELF_V
            if n == "property":
                return IMM_ALL
        recv = None
        base = None
        if isinstance(f, ast.Attribute):
            recv = self.ev(f.value)
            src = ast.unparse(f)
            if src in ("copy.deepcopy",):
                return FRESH_ALL
            if src == "copy.copy":
                return fresh_outer(a0)
            repo_named = [x for x in m.by_name.get(f.attr, []) if x.cls]
            if f.attr == "items" and not repo_named:
                return wrap(tup([IMM_ALL, elem(recv)]))
            if f.attr == "values" and not repo_named:
                return wrap(elem(recv))
            if f.attr == "keys" and not repo_named:
                return wrap(IMM_ALL)
            if f.attr in STRMETH and not repo_named:
                return IMM_ALL
            if f.attr in ("get", "pop", "setdefault", "popitem") and not repo_named:
                if f.attr != "get":
                    self.sink(c, f.value, "call." + f.attr)
                return join(elem(recv), args[1] if len(args) > 1 else None)
            if f.attr in MUTATORS and not repo_named:
                self.sink(c, f.value, "call." + f.attr)
                if isinstance(f.value, ast.Name) and args and f.attr in ("append", "add", "insert", "extend", "update"):
                    x = args[-1]
                    x = elem(x) if f.attr in ("extend", "update") else x
                    old = self.env.get(f.value.id) or BOT
                    es = None
                    if old.eshape is not None and x.shape is not None:
                        es = join(old.eshape, x)
                    elif x.shape is not None and not old.lv[1]:
                        es = x
                    self.env[f.value.id] = _trim(V(old.lv[0], old.lv[1] | x.lv[0], old.lv[2] | x.lv[1], old.shape, es))
                return IMM_ALL
            if f.attr == "copy" and SELF not in recv.lv[0]:
                base = fresh_outer(recv)
            if f.attr in REPO_MUTATORS:
                self.sink(c, f.value, "call." + f.attr)
        outs = [base] if base is not None else []
        cal = an.callees(c, fn)
        if self.record:
            self.calls.append((c, [g for _, _, g in cal if g is not None]))
        for kind, cls, g in cal:
            if g is None or an.skip(g.qual):
                outs.append(FRESH_ALL)
                continue
            gp = g.params
            binding = {}
            off = 0
            if kind in ("meth", "ctor") and g.is_method and not g.is_staticmethod and gp:
                explicit = kind == "meth" and isinstance(f, ast.Attribute) and isinstance(f.value, ast.Name) and f.value.id in m.classes and not g.is_classmethod
                if explicit:
                    off = 0
                else:
                    binding[0] = recv if (kind == "meth" and recv is not None) else FRESH_ALL
                    off = 1
            for i, x in enumerate(args):
                if i + off < len(gp):
                    binding[i + off] = x
            for k, x in kws.items():
                if k in gp:
                    binding[gp.index(k)] = x
            outs.append(FRESH_ALL if kind == "ctor" else an.bindret(g, binding))
            gs = an.sum[g.qual]
            for (pi, d) in list(gs.mut):
                b = binding.get(pi)
                if b is None:
                    continue
                atoms = b.lv[min(2, d)]
                self.sinks.append(dict(node=c, kind="via", callee=g.qual, param=gp[pi] if pi < len(gp) else "?", depth=d,
                                       atoms=atoms, fn=fn.qual, target=""))
                for at in atoms:
                    if at[0] == "P":
                        self.mut.add((at[1], min(2, at[2])))
            if gs is not self.sm:
                for (fcls, fattr), v in list(gs.captures.items()):
                    sv = an.subst(v, binding)
                    if any(at[0] in ("P", "F") for lv in sv.lv[:2] for at in lv):
                        if kind == "ctor" or SELF not in (binding.get(0) or BOT).lv[0]:
                            # captured into another object: remembered as a capture of that class' field
                            self.caps_other(fcls, fattr, sv, c)
                        else:
                            self.caps[(fcls, fattr)] = join(self.caps.get((fcls, fattr)), V(sv.lv[0], sv.lv[1], sv.lv[2]))
        if not cal and not outs:
            return FRESH_ALL if (isinstance(f, ast.Name) and f.id[:1].isupper()) else UNK_ALL
        return join(*outs)

    def caps_other(self, fcls, fattr, sv, node):
        self.caps[(fcls, fattr)] = join(self.caps.get((fcls, fattr)), V(sv.lv[0], sv.lv[1], sv.lv[2]))
        self.cap_sites.append(dict(node=node, cls=fcls, attr=fattr, value=sv, fn=self.fn.qual))

    cap_sites = None

    # -------------------------------------------------------------- effects
    def sink(self, node, target_expr, kind):
        if id(node) in self.seen:
            return
        self.seen.add(id(node))
        v = self.ev(target_expr)
        self.sinks.append(dict(node=node, kind=kind, atoms=v.lv[0], fn=self.fn.qual, target=ast.unparse(target_expr), value=v))
        for at in v.lv[0]:
            if at[0] == "P":
                self.mut.add((at[1], at[2]))

    def assign(self, t, v):
        if isinstance(t, ast.Name):
            self.env[t.id] = join(self.env.get(t.id), v)
        elif isinstance(t, (ast.Tuple, ast.List)):
            n = len(t.elts)
            for i, x in enumerate(t.elts):
                if isinstance(x, ast.Starred):
                    self.assign(x.value, fresh_outer(v))
                else:
                    self.assign(x, elem(v, i if (v.shape is not None and len(v.shape) == n) else None))
        elif isinstance(t, ast.Subscript):
            self.sink(t, t.value, "substore")
            if isinstance(t.value, ast.Name):
                old = self.env.get(t.value.id) or BOT
                self.env[t.value.id] = V(old.lv[0], old.lv[1] | v.lv[0], old.lv[2] | v.lv[1])
        elif isinstance(t, ast.Attribute):
            b = self.ev(t.value)
            if SELF in b.lv[0] and self.fn.cls:
                owner = self.an.owner_in_family(self.fn.cls, t.attr)
                self.caps[(owner, t.attr)] = join(self.caps.get((owner, t.attr)), V(v.lv[0], v.lv[1], v.lv[2]))
                self.self_stores.append((t, v))
            else:
                self.sink(t, t.value, "attrstore." + t.attr)

    self_stores = None

    def run(self):
        fn, an = self.fn, self.an
        nodes = an.own_nodes(fn)
        rets = []
        for _ in range(3):
            self.sinks, self.seen, self.caps, self.calls, self.mut = [], set(), {}, [], set()
            self.cap_sites, self.self_stores = [], []
            rets = []
            for n in nodes:
                if isinstance(n, ast.Assign):
                    v = self.ev(n.value)
                    for t in n.targets:
                        self.assign(t, v)
                elif isinstance(n, ast.AnnAssign) and n.value is not None:
                    self.assign(n.target, self.ev(n.value))
                elif isinstance(n, ast.AugAssign):
                    v = self.ev(n.value)
                    if isinstance(n.target, ast.Name):
                        old = self.env.get(n.target.id) or BOT
                        if not old.lv[0] <= {IMM}:
                            self.sink(n, n.target, "augassign")
                        self.env[n.target.id] = join(old, V((), v.lv[1], v.lv[2]))
                    elif isinstance(n.target, (ast.Subscript, ast.Attribute)):
                        self.sink(n, n.target.value, "augassign")
                elif isinstance(n, (ast.For, ast.AsyncFor)):
                    self.assign(n.target, elem(self.ev(n.iter)))
                elif isinstance(n, (ast.With, ast.AsyncWith)):
                    for it in n.items:
                        v = self.ev(it.context_expr)
                        if it.optional_vars is not None:
                            self.assign(it.optional_vars, v)
                elif isinstance(n, ast.Delete):
                    for t in n.targets:
                        if isinstance(t, (ast.Subscript, ast.Attribute)):
                            self.sink(n, t.value, "del")
                elif isinstance(n, ast.Return):
                    rets.append(self.ev(n.value))
                elif isinstance(n, ast.Expr):
                    v = self.ev(n.value)
                    if isinstance(n.value, ast.Yield):
                        rets.append(wrap(v))
                    elif isinstance(n.value, ast.YieldFrom):
                        rets.append(v)
                elif isinstance(n, (ast.If, ast.While, ast.Assert)):
                    self.ev(n.test)
                elif isinstance(n, ast.Raise):
                    self.ev(n.exc)
                elif isinstance(n, ast.ExceptHandler) and n.name:
                    self.env[n.name] = FRESH_ALL
                elif isinstance(n, (ast.FunctionDef, ast.AsyncFunctionDef)):
                    self.env[n.name] = FRESH_ALL
        sm = self.sm
        sm.ret = join(*rets) if rets else IMM_ALL
        sm.sinks = self.sinks
        sm.captures = self.caps
        sm.mut = set(self.mut)
        sm.env = self.env
        sm.calls = self.calls
        sm.cap_sites = self.cap_sites
        sm.self_stores = self.self_stores


def fmt_atoms(atoms):
    def f(a):
        if a[0] == "F":
            return "%s.%s@%d" % (a[1] or "*", a[2], a[3])
        if a[0] == "P":
            return "param%d@%d" % (a[1], a[2])
        return a[0]

    return "{" + ", ".join(sorted(f(a) for a in atoms)) + "}"


def is_fresh(atoms):
    return atoms <= {FRESH, IMM}
