"""Obligations, evidence, known findings, exit codes, replay files.

Exit codes (DESIGN.md §1):
  0  every obligation discharged or listed as a known finding
  1  at least one obligation violated by a construct not in known_findings.json
  2  ANALYSIS-ERROR: a rule could not be evaluated (anchor vanished, idiom not recognised,
     instance floor not met, fixture self-check failed, analyser crashed)
"""
import hashlib
import json
import os
import re
import sys
import time
import traceback

VERIF = os.path.dirname(os.path.dirname(os.path.abspath(__file__)))
EVIDENCE_DIR = os.environ.get("VERIF_EVIDENCE_DIR") or os.path.join(VERIF, "evidence")  # override: scratch runs against mutants
VIOL_DIR = os.path.join(EVIDENCE_DIR, "violations")
KNOWN_FILE = os.path.join(VERIF, "known_findings.json")


class AnalysisError(Exception):
    """The rule cannot be evaluated on this tree (never a violation, never a pass)."""


def norm(text):
    """Normalise statement text for keys: collapse whitespace."""
    return re.sub(r"\s+", " ", text).strip()


class Obligation:
    __slots__ = ("rule", "key", "status", "what", "file", "line", "func", "facts")

    def __init__(self, rule, key, status, what, file=None, line=None, func=None, facts=None):
        self.rule = rule
        self.key = key
        self.status = status  # 'discharged' | 'violated' | 'known'
        self.what = what
        self.file = file
        self.line = line
        self.func = func
        self.facts = facts or {}

    def as_dict(self):
        return {
            "rule": self.rule,
            "key": self.key,
            "status": self.status,
            "what": self.what,
            "file": self.file,
            "line": self.line,
            "func": self.func,
            "facts": self.facts,
        }


class Report:
    """Collects obligations of one property run."""

    def __init__(self, prop, tier="quick", seed=0):
        self.prop = prop
        self.tier = tier
        self.seed = seed
        self.obligations = []
        self.errors = []  # (rule, message)
        self.notes = []
        self.rule_texts = {}  # rule id -> one-line description
        self.analysed = {}  # free-form counters: what was analysed
        self.not_decided = []
        self.controls = None
        self.t0 = time.time()
        self.extra_trusted = []

    # ------------------------------------------------------------------ recording
    def rule(self, rid, text):
        self.rule_texts[rid] = text

    def ok(self, rule, key, what, node=None, fn=None, file=None, line=None, facts=None):
        self._add(rule, key, "discharged", what, node, fn, file, line, facts)

    def bad(self, rule, key, what, node=None, fn=None, file=None, line=None, facts=None):
        self._add(rule, key, "violated", what, node, fn, file, line, facts)

    def check(self, cond, rule, key, what_ok, what_bad=None, **kw):
        if cond:
            self.ok(rule, key, what_ok, **kw)
        else:
            self.bad(rule, key, what_bad or ("NOT: " + what_ok), **kw)
        return cond

    def _add(self, rule, key, status, what, node, fn, file, line, facts):
        if fn is not None:
            file = file or fn.path
            func = fn.qual
            if line is None and node is None:
                line = fn.node.lineno
        else:
            func = None
        if node is not None and line is None:
            line = getattr(node, "lineno", None)
        self.obligations.append(Obligation(rule, key, status, what, file, line, func, facts))

    def error(self, rule, msg):
        self.errors.append((rule, msg))

    def note(self, msg):
        self.notes.append(msg)

    def count(self, name, n=1):
        self.analysed[name] = self.analysed.get(name, 0) + n

    def floor(self, rule, name, got, minimum):
        """Instance floor: fewer matches than confirmed by hand -> analysis error."""
        self.analysed[rule + ":" + name] = got
        if got < minimum:
            raise AnalysisError(
                "%s: instance floor not met for %s: found %d, expected at least %d"
                % (rule, name, got, minimum)
            )

    # ------------------------------------------------------------------ finishing
    def run_rule(self, rid, text, fn, *args, **kw):
        """Run one rule function; crashes and AnalysisErrors become ANALYSIS-ERROR entries."""
        self.rule(rid, text)
        try:
            fn(self, *args, **kw)
        except AnalysisError as e:
            self.error(rid, str(e))
        except Exception as e:  # analyser crash: never a violation
            tb = traceback.format_exc(limit=6)
            self.error(rid, "analyser crashed: %r\n%s" % (e, tb))


def borrow(rep, rule_fn, ctx, old, new, *args, keep=None):
    """Evaluate a rule function of another property and record its obligations under rule id
    `new` (sibling properties share structural clauses; the obligations are re-evaluated on the
    current tree, not copied from an evidence file).  `keep`: optional predicate on obligations."""
    tmp = Report(rep.prop, rep.tier, rep.seed)
    rule_fn(tmp, ctx, *args)
    for o in tmp.obligations:
        if keep is not None and not keep(o):
            continue
        o.rule = o.rule.replace(old, new)
        rep.obligations.append(o)
    for r, msg in tmp.errors:
        rep.errors.append((r.replace(old, new), msg))
    for k, v in tmp.analysed.items():
        rep.analysed[k.replace(old, new)] = v


def load_known():
    if not os.path.exists(KNOWN_FILE):
        return []
    with open(KNOWN_FILE) as f:
        data = json.load(f)
    return data.get("findings", [])


def finish(rep, explanation, trusted_base, assumptions, exhaustive=False, replay_key=None):
    """Match known findings, write evidence + replay files, print markers, return exit code."""
    known = [k for k in load_known() if k.get("property") == rep.prop and k.get("status") == "known"]
    known_idx = {(k["rule"], k["key"]): k for k in known}
    seen_known = set()
    violated = []
    for ob in rep.obligations:
        if ob.status == "violated":
            k = known_idx.get((ob.rule, ob.key))
            if k is not None:
                ob.status = "known"
                seen_known.add((ob.rule, ob.key))
            else:
                violated.append(ob)

    n_ob = len(rep.obligations)
    n_dis = sum(1 for o in rep.obligations if o.status == "discharged")
    n_known = sum(1 for o in rep.obligations if o.status == "known")
    distinct = len({(o.rule, o.key) for o in rep.obligations})

    os.makedirs(VIOL_DIR, exist_ok=True)
    out = []
    for (rule, key) in sorted(seen_known):
        k = known_idx[(rule, key)]
        out.append("KNOWN-FINDING: property=%s rule=%s key=%s what=%s" % (rep.prop, rule, key, k.get("what", "")))
    # listed known findings that no longer show up: informational only
    for (rule, key), k in sorted(known_idx.items()):
        if (rule, key) not in seen_known:
            rep.note("listed known finding no longer present: %s %s" % (rule, key))

    replay_paths = []
    MAXPRINT = 40
    for i, ob in enumerate(violated):
        h = hashlib.sha1(("%s|%s" % (ob.rule, ob.key)).encode()).hexdigest()[:12]
        path = os.path.join(VIOL_DIR, "%s-%s.json" % (rep.prop, h))
        with open(path, "w") as f:
            json.dump({"property": rep.prop, **ob.as_dict()}, f, indent=1, sort_keys=True)
        rel = os.path.relpath(path, VERIF)
        replay_paths.append(rel)
        loc = "%s:%s" % (ob.file or "?", ob.line or "?")
        if i == MAXPRINT:
            out.append("... and %d more violations (each has a replay file under evidence/violations/; see the evidence file)" % (len(violated) - MAXPRINT))
        if i >= MAXPRINT:
            continue
        out.append(
            "%s in %s: rule %s — %s [instance %s]" % (loc, ob.func or "<table>", ob.rule, ob.what, ob.key)
        )
        out.append("VIOLATION property=%s replay=%s" % (rep.prop, rel))
    for rule, msg in rep.errors:
        out.append("ANALYSIS-ERROR property=%s rule=%s %s" % (rep.prop, rule, msg.replace("\n", "\n    ")))

    samples = _samples(rep)
    coverage = {
        "explanation": explanation,
        "obligations": n_ob,
        "discharged": n_dis,
        "known_findings": n_known,
        "violated": len(violated),
        "evaluations": n_ob,
        "distinct_nontrivial": distinct,
        "rule": "one obligation per rule instance (table row, sink, call site, return path, dunder, ...); "
        "distinct = distinct (rule, key) pairs; every obligation is non-trivial in that its rule "
        "inspected a construct of the current tree",
        "rules": rep.rule_texts,
        "per_rule": _per_rule(rep),
        "analysed": rep.analysed,
        "samples": samples,
        "checker_cmd": "./check %s --tier %s" % (rep.prop, rep.tier),
        "trusted_base": trusted_base + rep.extra_trusted,
        "exhaustive": bool(exhaustive),
        "not_decided": rep.not_decided,
        "notes": rep.notes,
        "analysis_errors": [{"rule": r, "message": m} for r, m in rep.errors],
    }
    if rep.controls is not None:
        coverage["controls"] = rep.controls
    ev = {
        "property_id": rep.prop,
        "tier": rep.tier,
        "seed": rep.seed,
        "level": "other",
        "coverage": coverage,
        "assumptions": assumptions,
        "wall_s": round(time.time() - rep.t0, 3),
        "violations": len(violated),
    }
    os.makedirs(EVIDENCE_DIR, exist_ok=True)
    with open(os.path.join(EVIDENCE_DIR, rep.prop + ".json"), "w") as f:
        json.dump(ev, f, indent=1, sort_keys=True)

    for line in out:
        print(line)
    summary = "%s %s: %d obligations, %d discharged, %d known findings, %d violated, %d analysis errors (%.2fs)" % (
        rep.prop, rep.tier, n_ob, n_dis, n_known, len(violated), len(rep.errors), time.time() - rep.t0)
    print(summary)
    if replay_key is not None:
        still = [o for o in violated if (o.rule, o.key) == replay_key] or [
            o for o in rep.obligations if (o.rule, o.key) == replay_key and o.status == "known"]
        print("REPLAY %s %s: %s" % (replay_key[0], replay_key[1], "still violated" if still else "not violated on this tree"))
    sys.stdout.flush()
    if violated:
        return 1
    if rep.errors:
        return 2
    return 0


def _per_rule(rep):
    out = {}
    for o in rep.obligations:
        d = out.setdefault(o.rule, {"obligations": 0, "discharged": 0, "known": 0, "violated": 0})
        d["obligations"] += 1
        d[o.status] += 1
    return out


def _samples(rep, per_rule=2):
    """A few obligations per rule, chosen by seed, written out."""
    import random

    rnd = random.Random(rep.seed)
    by_rule = {}
    for o in rep.obligations:
        by_rule.setdefault(o.rule, []).append(o)
    out = []
    for rule in sorted(by_rule):
        obs = by_rule[rule]
        bad = [o for o in obs if o.status != "discharged"][:3]
        pick = bad + rnd.sample(obs, min(per_rule, len(obs)))
        seen = set()
        for o in pick:
            if (o.rule, o.key) in seen:
                continue
            seen.add((o.rule, o.key))
            d = {"rule": o.rule, "key": o.key, "status": o.status, "what": o.what}
            if o.file:
                d["at"] = "%s:%s" % (o.file, o.line)
            if o.func:
                d["in"] = o.func
            out.append(d)
    return out
