"""Conversion-route recognisers (A6) shared by C01/R4 and C02/R1.

A *route* is a function that turns a value in a source unit into a value in a target unit by
applying `info(target).frombase(info(source).tobase(value))`.  The recognisers work on normalised
terms (sa.terms), i.e. after substituting locals, so renaming or inlining locals does not matter;
what matters are the *roles*: which unit expression is looked up for `tobase`, which for
`frombase`, and which expression is the value.
"""
import ast

from . import terms
from .cfg import CFG
from .report import AnalysisError
from .terms import Resolver, alternatives, show

LOOKUP = "GetInfo"


def match_getinfo(t):
    """GetInfo call term -> dict(db, qt, unit, flags) or None."""
    if t[0] == "call" and t[1] == ("field", LOOKUP) and len(t[2]) >= 2:
        t = ("call", ("attr", ("self",), LOOKUP), t[2], t[3])
    if t[0] == "call" and t[1][0] == "attr" and t[1][2] == LOOKUP and len(t[2]) >= 2:
        return {"db": t[1][1], "qt": t[2][0], "unit": t[2][1], "flags": tuple(sorted(t[3])) + tuple(("pos%d" % i, a) for i, a in enumerate(t[2][2:]))}
    return None


def expand_field(model, cls, t):
    """('field', attr) with a unique store in the class family -> the stored term (in the storing
    method's own context), else None."""
    if t[0] != "field":
        return None
    stores = terms.field_stores(model, cls, t[1])
    if len(stores) != 1:
        return None
    fn, value, _ = stores[0]
    return Resolver(model, fn).term(value)


def match_conv(model, cls, t):
    """Term of the form INFO_TO.frombase(INFO_FROM.tobase(V)) -> dict or None.  INFO_FROM.tobase may
    be a field whose unique initialising store is such an attribute read (the cached to-base
    function of a simple Quantity)."""
    if t[0] != "call" or len(t[2]) != 1 or t[3]:
        return None
    outer_f, inner = t[1], t[2][0]
    if outer_f[0] == "field" and cls:
        outer_f = expand_field(model, cls, outer_f) or outer_f
    if not (outer_f[0] == "attr" and outer_f[2] in ("frombase", "tobase")):
        return None
    if inner[0] != "call" or len(inner[2]) != 1 or inner[3]:
        return None
    inner_f = inner[1]
    if inner_f[0] == "field" and cls:
        inner_f = expand_field(model, cls, inner_f) or inner_f
    if not (inner_f[0] == "attr" and inner_f[2] in ("frombase", "tobase")):
        return None
    return {
        "outer_attr": outer_f[2],
        "inner_attr": inner_f[2],
        "outer_info": outer_f[1],
        "inner_info": inner_f[1],
        "value": inner[2][0],
    }


def strip_phi_self(t):
    return t


class RouteSpec:
    """Roles of a route in terms of its public signature.  role = ('param', index) or
    ('field', attr) ; value_elem: the value is an element of the value parameter."""

    def __init__(self, qual, source, target, value, why):
        self.qual = qual
        self.source = source
        self.target = target
        self.value = value
        self.why = why


def role_matches(t, role, elem=False):
    """Does term t denote exactly the role (a parameter by position or a self field)?  A phi is
    accepted only if every alternative denotes the role (e.g. a parameter and its cast)."""
    alts = alternatives(t)
    for a in alts:
        if elem:
            if a[0] == "elem":
                a = a[1]
            else:
                return False
        if role[0] == "param":
            if not (a[0] == "param" and a[1] == role[1]):
                return False
        elif role[0] == "field":
            if not (a[0] == "field" and a[1] == role[1]):
                return False
        else:
            return False
    return bool(alts)


def conv_returns(model, fn):
    """[(return stmt, term, match dict, is_elementwise)] for every return of fn whose value is a
    conversion (directly, or a container built from a generator of conversions)."""
    res = Resolver(model, fn)
    out = []
    for n in ast.walk(fn.node):
        if not (isinstance(n, ast.Return) and n.value is not None):
            continue
        # only returns of this function, not of nested defs
        p = n
        owner = None
        while p is not None:
            p = getattr(p, "_parent", None)
            if isinstance(p, (ast.FunctionDef, ast.AsyncFunctionDef, ast.Lambda)):
                owner = p
                break
        if owner is not fn.node:
            continue
        t = res.term(n.value)
        for alt in alternatives(t):
            m = match_conv(model, fn.cls, alt)
            if m:
                out.append((n, alt, m, False, None))
                continue
            # container(gen(conv(elem(value)) for ...))
            if alt[0] == "call" and len(alt[2]) == 1 and alt[2][0][0] == "gen":
                g = alt[2][0]
                m = match_conv(model, fn.cls, g[1])
                if m:
                    ctor = alt[1][1] if alt[1][0] == "name" else None
                    out.append((n, alt, m, True, ctor))
            elif alt[0] == "gen":
                m = match_conv(model, fn.cls, alt[1])
                if m:
                    out.append((n, alt, m, True, None))
    return out, res


def unit_eq_tests(cfg, res, a_role_pred, b_role_pred):
    """CFG test leaves that compare (==, !=) two terms satisfying the role predicates, in either
    order.  Returns [(node id, positive_is_equal)]."""
    out = []
    for nid in cfg.nodes("test"):
        e = cfg.ast[nid]
        if isinstance(e, ast.Compare) and len(e.ops) == 1 and isinstance(e.ops[0], (ast.Eq, ast.NotEq)):
            l = res.term(e.left)
            r = res.term(e.comparators[0])
            if (a_role_pred(l) and b_role_pred(r)) or (a_role_pred(r) and b_role_pred(l)):
                out.append((nid, isinstance(e.ops[0], ast.Eq)))
    return out


def guarded_by_inequality(cfg, target, tests):
    """Every path to target takes the 'units differ' outcome of one of the tests."""
    dom = cfg.dominating_edges(target)
    for nid, pos_is_eq in tests:
        if (nid, "F" if pos_is_eq else "T") in dom:
            return True
    return False
