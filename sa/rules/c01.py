"""C01  Unit conversion is invertible, path-independent and increasing for every unit pair."""
import ast
from fractions import Fraction

from .. import routes, tables
from ..algebra import Poly, Rat, mobius_of
from ..cfg import CFG
from ..convmodel import X, ConvModel
from ..report import AnalysisError, norm
from ..terms import walk, Resolver, alternatives, show

PROP = "C01"
EXHAUSTIVE = True
EXPLANATION = (
    "Static decision of the structural clauses of C01 on the current source. R1: the two conversion "
    "factories are inverse as rational functions for every coefficient tuple (identity in Q(a,b,c,d)(x)). "
    "R2 (exhaustive over every AddUnit row of every shipped filler, recovered by constant propagation over "
    "posc.py / FillSimple): frombase o tobase == x and tobase o frombase == x exactly in Q(x), the to-base map "
    "is affine with non-zero denominator and strictly positive slope (so every in-type conversion is a strictly "
    "increasing total map). R3: AddUnitBase registers one identity function in both directions. R4: every "
    "conversion route returns info(target).frombase(info(source).tobase(value)) with source/target/value in "
    "their roles and is guarded by the same-unit shortcut that returns the value unchanged (u->u exact; "
    "u->w == u->v->w then follows algebraically from R1/R2). R5: UnitInfo/AddUnit keep the two directions in "
    "their slots. Float rounding of u->v->u is bounded from syntax only for homogeneous rows (two roundings "
    "per direction); for affine rows only the real-arithmetic identity is claimed."
)
TRUSTED = ["exact rational arithmetic of fractions.Fraction", "decimal literal text -> Fraction conversion"]
ASSUMPTIONS = [
    "numpy evaluates the scalar formula element-wise (library semantics, trusted)",
    "overflow is excluded by the property's bounded magnitude range",
]

ROUTES = [
    routes.RouteSpec("UnitDatabase.Convert", ("param", 2), ("param", 3), ("param", 4),
                     "public API Convert(category_or_quantity_type, from_unit, to_unit, value)"),
    routes.RouteSpec("RegisterConversion.RegisterNumpyConversion.ConvertNumpyArray", ("param", 2), ("param", 3), ("param", 4),
                     "conversion-type protocol func(db, quantity_type, from_unit, to_unit, value)"),
    routes.RouteSpec("Quantity.ConvertScalarValue", ("field", "_unit"), ("param", 2), ("param", 1),
                     "ConvertScalarValue(value, to_unit) converts from the quantity's own unit"),
]


def run(rep, ctx):
    m = ctx.model
    cm = ConvModel(m)
    rep.run_rule("C01.R1", "the conversion factory pair is an inverse pair of rational functions for every coefficient tuple", r1_factories, ctx, cm)
    rep.run_rule("C01.R2", "every AddUnit row: frombase o tobase == x == tobase o frombase in Q(x); to-base map affine, total, slope > 0", r2_rows, ctx, cm)
    rep.run_rule("C01.R3", "AddUnitBase registers the same identity function for both directions", r3_base, ctx, cm)
    rep.run_rule("C01.R4", "conversion routes: frombase(target)(tobase(source)(value)) with correct roles, guarded by the same-unit shortcut", r4_routes, ctx)
    from . import c15
    from ..report import borrow
    rep.rule("C01.R6", "conversion routes keep no state of their own: no cache of resolved conversions outside the known memo tables (shared with C15.R4)")
    try:
        borrow(rep, c15.r4_no_unlisted_memo, ctx, "C15.R4", "C01.R6", keep=lambda o: o.status == "violated" and any(r_ in o.key for r_ in ("Convert", "GetInfo", "ConvertScalarValue", "GetAbstractValue")))
        rep.ok("C01.R6", "conversion-routes:stateless", "no conversion route writes database or quantity state outside the known memo tables")
    except AnalysisError as e:
        rep.error("C01.R6", str(e))
    rep.run_rule("C01.R5", "UnitInfo / AddUnit keep to-base and from-base in their own slots", r5_wiring, ctx)
    rep.not_decided += [
        "float rounding of affine (offset) conversions next to -a/b (cancellation cannot be bounded from syntax)",
        "numpy's vectorised evaluation being element-wise",
    ]


# ---------------------------------------------------------------------------------------------
def _factory_pairs(ctx):
    pairs = {}
    for cfgname in tables.CONFIGS:
        for row in ctx.tables[cfgname].units.values():
            if isinstance(row.tobase, tables.Closure) and isinstance(row.frombase, tables.Closure):
                pairs.setdefault((row.tobase.factory.qual, row.frombase.factory.qual), (row.tobase.factory, row.frombase.factory))
    return pairs


def r1_factories(rep, ctx, cm):
    pairs = _factory_pairs(ctx)
    rep.floor("C01.R1", "factory pairs", len(pairs), 1)
    for (qa, qb), (fa, fb) in sorted(pairs.items()):
        f = cm.factory_rat(fa)
        g = cm.factory_rat(fb)
        if len(fa.params) != len(fb.params):
            rep.bad("C01.R1", "%s|%s" % (fa.name, fb.name), "factories take different numbers of coefficients", fn=fb)
            continue
        # rename g's coefficient symbols to f's by position (both get the same tuple in a row)
        for pa, pb in zip(fa.params, fb.params):
            if pa != pb:
                v = Rat(Poly.var(pa))
                g = Rat(g.n.subst(pb, v.n, v.d)[0], g.d.subst(pb, v.n, v.d)[0])
        gf = g.compose("x", f)
        fg = f.compose("x", g)
        ok = gf.same(X) and fg.same(X)
        mb_n, mb_d = f.n, f.d
        slope_num = (f.n.coeff("x", 1) * f.d.coeff("x", 0) - f.n.coeff("x", 0) * f.d.coeff("x", 1))
        rep.check(ok, "C01.R1", "%s|%s" % (fa.name, fb.name),
                  "g(f(x)) == x and f(g(x)) == x as rational functions over symbolic coefficients; f'(x) numerator = %r" % (slope_num,),
                  "the factories are not inverse for equal coefficient tuples: g(f(x)) = %r" % (gf,), fn=fb,
                  facts={"f": repr(f), "g": repr(g)})


def r2_rows(rep, ctx, cm):
    seen_regs = {}
    n_rows = 0
    hom = aff = 0
    for cfgname in tables.CONFIGS:
        tb = ctx.tables[cfgname]
        for reg, msg in tb.problems:
            raise AnalysisError("%s:%d: %s" % (reg.path, reg.line, msg))
        for row in tb.units.values():
            if row.base:
                continue
            rid = id(row.reg.node)
            if rid in seen_regs:
                continue  # the same source row reached through another configuration
            seen_regs[rid] = cfgname
            n_rows += 1
            key = "%s:%s" % ("posc" if cfgname.startswith("posc") else cfgname, row.symbol)
            kw = dict(file=row.reg.path, line=row.reg.line)
            if row.tobase is None or row.frombase is None:
                raise AnalysisError("%s:%d: AddUnit row %r without both conversions" % (row.reg.path, row.reg.line, row.symbol))
            f = cm.rat(row.tobase)
            g = cm.rat(row.frombase)
            gf = g.compose("x", f)
            fg = f.compose("x", g)
            if not (gf.same(X) and fg.same(X)):
                mb = mobius_of(gf)
                shown = repr(gf)
                if mb and mb[3] == 0 and mb[2] != 0:
                    shown = "%s + %s*x" % (mb[0] / mb[2], mb[1] / mb[2])
                rep.bad("C01.R2", key, "unit %r (%s): frombase(tobase(x)) = %s, not x (tobase=%r frombase=%r)"
                        % (row.symbol, row.qt, shown, row.tobase, row.frombase), **kw)
                continue
            mb = mobius_of(f)
            if mb is None:
                raise AnalysisError("%s:%d: to-base function of %r is not a Moebius map; monotonicity not decidable" % (row.reg.path, row.reg.line, row.symbol))
            A, B, C, D = mb
            if D != 0 or C == 0:
                rep.bad("C01.R2", key, "unit %r: to-base map (%s + %s x)/(%s + %s x) has a pole / is not total on the reals" % (row.symbol, A, B, C, D), **kw)
                continue
            slope = B / C
            if slope <= 0:
                rep.bad("C01.R2", key, "unit %r: to-base slope %s is not positive (conversion not strictly increasing)" % (row.symbol, slope), **kw)
                continue
            if A == 0:
                hom += 1
            else:
                aff += 1
            rep.ok("C01.R2", key, "unit %r: inverse pair, affine, slope %s > 0%s" % (row.symbol, _short(slope), "" if A == 0 else ", offset %s" % _short(A / C)), **kw)
    rep.floor("C01.R2", "AddUnit rows", n_rows, 1000 + 6)
    rep.count("rows homogeneous (2 roundings per direction; u->v->u relative error <= 8u/(1-8u))", hom)
    rep.count("rows affine (real-arithmetic identity only)", aff)
    # the configuration without categories must register the same unit rows
    a = [id(r.reg.node) for r in ctx.tables["posc"].units.values()]
    b = [id(r.reg.node) for r in ctx.tables["posc-nocat"].units.values()]
    rep.check(a == b, "C01.R2", "config:posc-nocat", "the POSC filler without categories registers the same %d unit rows" % len(a),
              "the POSC filler without categories registers different unit rows")
    rep.count("interpreted filler statements", ctx.tables["_statements"])


def _short(fr):
    s = str(fr)
    return s if len(s) <= 24 else "%.12g" % float(fr)


def r3_base(rep, ctx, cm):
    m = ctx.model
    fn = m.method("UnitDatabase", "AddUnitBase")
    addunit = m.method("UnitDatabase", "AddUnit")
    calls = [n for n in ast.walk(fn.node) if isinstance(n, ast.Call) and isinstance(n.func, ast.Attribute) and n.func.attr == "AddUnit"]
    rep.floor("C01.R3", "AddUnit call in AddUnitBase", len(calls), 1)
    for c in calls:
        pos = addunit.params[1:]
        bound = dict(zip(pos, c.args))
        for k in c.keywords:
            bound[k.arg] = k.value
        key = "AddUnitBase:" + norm(ast.unparse(c))
        fb, tb_ = bound.get("frombase"), bound.get("tobase")
        if fb is None or tb_ is None:
            rep.bad("C01.R3", key, "AddUnitBase does not pass both conversion functions", node=c, fn=fn)
            continue
        ok = True
        why = []
        for name, e in (("frombase", fb), ("tobase", tb_)):
            rat = None
            if isinstance(e, ast.Name):
                sub = m.funcs.get(fn.qual + "." + e.id)
                if sub is not None:
                    rat = cm.rat(tables.FuncRef(sub))
            elif isinstance(e, ast.Lambda):
                rat = cm.rat(tables.LambdaRef(e, fn.path))
            elif isinstance(e, ast.Constant) and isinstance(e.value, str):
                rat = cm.rat(e.value)
            if rat is None:
                raise AnalysisError("AddUnitBase: %s argument %s is not a local function, lambda or formula" % (name, ast.unparse(e)))
            if not rat.same(X):
                ok = False
                why.append("%s is %r, not the identity" % (name, rat))
        rep.check(ok, "C01.R3", key, "both directions of a base unit are the identity function", "; ".join(why), node=c, fn=fn)
    nbase = sum(1 for r in ctx.tables["posc"].units.values() if r.base) + sum(1 for r in ctx.tables["simple"].units.values() if r.base)
    rep.floor("C01.R3", "base rows", nbase, 150)


def r4_routes(rep, ctx):
    m = ctx.model
    n_conv = 0
    for spec in ROUTES:
        fn = m.func(spec.qual)
        convs, res = routes.conv_returns(m, fn)
        if not convs:
            raise AnalysisError("%s: no return of the form frombase(tobase(value)) recognised" % spec.qual)
        cfg = CFG(fn.node)
        for (ret, term, mt, elementwise, ctor) in convs:
            n_conv += 1
            key = "%s:%s" % (spec.qual, norm(ast.unparse(ret)))
            problems = []
            if mt["outer_attr"] != "frombase" or mt["inner_attr"] != "tobase":
                problems.append("applies %s after %s (must be frombase after tobase)" % (mt["outer_attr"], mt["inner_attr"]))
            gi_to = _info(m, fn, mt["outer_info"])
            gi_from = _info(m, fn, mt["inner_info"])
            if gi_to is None or gi_from is None:
                raise AnalysisError("%s: unit info lookup not recognised in %s" % (spec.qual, show(term)))
            if not routes.role_matches(gi_to["unit"], spec.target):
                problems.append("from-base function is looked up for %s, not for the target unit" % show(gi_to["unit"]))
            if not routes.role_matches(gi_from["unit"], spec.source) and not _same_as_stored_field(m, fn, gi_from["unit"], spec.source):
                problems.append("to-base function is looked up for %s, not for the source unit" % show(gi_from["unit"]))
            if not routes.role_matches(mt["value"], spec.value, elem=elementwise):
                problems.append("converted value is %s, not the value argument%s" % (show(mt["value"]), " element" if elementwise else ""))
            if gi_to["qt"] != gi_from["qt"] and not _field_equiv(m, fn, gi_to["qt"], gi_from["qt"]):
                problems.append("source and target are looked up in different quantity types")
            rep.check(not problems, "C01.R4", key, "route returns frombase(target)(tobase(source)(value)) [%s]" % spec.why,
                      "; ".join(problems), node=ret, fn=fn, facts={"term": show(term, 400)})
            # same-unit shortcut
            _shortcut(rep, m, fn, cfg, res, spec, ret)
    # every return of a route is a conversion, the unchanged value under equal units, or a delegation
    n_ret = 0
    for spec in ROUTES:
        n_ret += _classify_returns(rep, m, spec)
    rep.floor("C01.R4", "returns of conversion routes classified", n_ret, 5)
    if not any(o.rule == "C01.R4" and o.status == "violated" for o in rep.obligations):
        rep.floor("C01.R4", "conversion returns", n_conv, len(ROUTES))
    else:
        rep.analysed["C01.R4:conversion returns"] = n_conv
    # the registered-conversion hand-off inside Convert passes (from, to, value) positionally
    conv = m.func("UnitDatabase.Convert")
    res = Resolver(m, conv)
    cfg = CFG(conv.node)
    spec = ROUTES[0]
    handoffs = 0
    for n in ast.walk(conv.node):
        if isinstance(n, ast.Return) and isinstance(n.value, ast.Call):
            t = res.term(n.value)
            if t[0] == "call" and any(_is_computed_callable(a) for a in alternatives(t[1])):
                handoffs += 1
                args = t[2]
                ok = len(args) == 5 and routes.role_matches(args[2], spec.source) and routes.role_matches(args[3], spec.target) and routes.role_matches(args[4], spec.value)
                rep.check(ok, "C01.R4", "UnitDatabase.Convert:handoff", "registered conversion function receives (db, quantity type, from, to, value) in protocol order",
                          "registered conversion function is called with arguments out of protocol order: %s" % show(t, 300), node=n, fn=conv)
                _shortcut(rep, m, conv, cfg, res, spec, n, tag="handoff")
    rep.floor("C01.R4", "hand-off to registered conversion types", handoffs, 1)


def _is_computed_callable(x):
    """The conversion function registered for the value's type: an element of the registry of additional
    conversions, however it is fetched (loop variable, subscript, or the result of a lookup helper)."""
    if x[0] == "elem" or (x[0] == "sub" and x[1][0] == "elem"):
        return True
    if x[0] == "sub" and any(s == ("field", "_additional_conversions") for s in walk(x)):
        return True
    if x[0] == "call" and x[1][0] == "field" and "Conversion" in x[1][1]:
        return True
    # next(func for class_, func in registry.items() if ...): the first matching entry
    if x[0] == "call" and x[1] == ("name", "next") and any(s == ("field", "_additional_conversions") for s in walk(x)):
        return True
    return False


def _same_as_stored_field(m, fn, t, role):
    """The looked-up unit is a local of the constructor that is also what the constructor stores into the
    role's field (`self._unit = unit` ... `GetInfo(qt, unit)`): the same value, spelled through the local."""
    if role[0] != "field" or not fn.cls:
        return False
    from ..terms import field_stores
    for sfn, value, st in field_stores(m, fn.cls, role[1]):
        if Resolver(m, sfn).term(value) == t:
            return True
    return False


def _field_equiv(m, fn, a, b):
    """a is ('field', F) and b is the term some method of the class stores into F (or vice versa)."""
    for x, y in ((a, b), (b, a)):
        if x[0] == "field" and _same_as_stored_field(m, fn, y, ("field", x[1])):
            return True
    return False


def _classify_returns(rep, m, spec):
    from ..terms import params_in, walk as twalk

    fn = m.func(spec.qual)
    res = Resolver(m, fn)
    cfg = CFG(fn.node)
    n = 0

    def role_index(role):
        return role[1] if role[0] == "param" else None

    src_i, tgt_i, val_i = role_index(spec.source), role_index(spec.target), role_index(spec.value)

    def derived_only_from(t, role):
        if role[0] == "param":
            ps = params_in(t)
            return ps == {role[1]}
        return any(x == ("field", role[1]) for x in twalk(t)) and not params_in(t)

    eq_tests = []
    for nid in cfg.nodes("test"):
        e = cfg.ast[nid]
        if isinstance(e, ast.Compare) and len(e.ops) == 1 and isinstance(e.ops[0], (ast.Eq, ast.NotEq)):
            l, r = res.term(e.left), res.term(e.comparators[0])
            if (derived_only_from(l, spec.source) and derived_only_from(r, spec.target)) or (derived_only_from(r, spec.source) and derived_only_from(l, spec.target)):
                eq_tests.append((nid, "T" if isinstance(e.ops[0], ast.Eq) else "F"))

    def is_conv(a):
        return routes.match_conv(m, fn.cls, a) is not None

    for node in ast.walk(fn.node):
        if not (isinstance(node, ast.Return) and node.value is not None):
            continue
        p = node
        owner = None
        while p is not None:
            p = getattr(p, "_parent", None)
            if isinstance(p, (ast.FunctionDef, ast.AsyncFunctionDef, ast.Lambda)):
                owner = p
                break
        if owner is not fn.node:
            continue
        n += 1
        t = res.term(node.value)
        key = "%s:return-kind:%s" % (spec.qual, norm(ast.unparse(node))[:70])
        problems = []
        kinds = set()
        for a in alternatives(t):
            if is_conv(a):
                kinds.add("conversion")
            elif routes.role_matches(a, spec.value):
                dom = cfg.dominating_edges(cfg.node_of(node))
                if any((nid, lab) in dom for nid, lab in eq_tests):
                    kinds.add("unchanged value under equal units")
                else:
                    problems.append("returns the value unconverted on a path that is not guarded by 'source unit == target unit'")
            elif a[0] == "call" and a[2] and len(a[2]) == 1 and a[2][0][0] == "gen":
                el = alternatives(a[2][0][1])
                if all(is_conv(x) for x in el):
                    kinds.add("element-wise conversion")
                else:
                    problems.append("the element-wise branch yields %s for some elements instead of the conversion" % [show(x, 50) for x in el if not is_conv(x)])
            elif a[0] == "gen":
                el = alternatives(a[1])
                if all(is_conv(x) for x in el):
                    kinds.add("element-wise conversion")
                else:
                    problems.append("the element-wise branch yields unconverted elements")
            elif a[0] == "call" and (a[1][0] == "field" or (a[1][0] == "attr" and a[1][1] == ("self",))):
                kinds.add("delegation to %s" % (a[1][1] if a[1][0] == "field" else a[1][2]))
            elif a[0] == "call" and any(_is_computed_callable(x) for x in alternatives(a[1])):
                kinds.add("hand-off to a registered conversion function")
            else:
                problems.append("can return %s, which is neither a conversion of the value nor the value itself under equal units" % show(a, 80))
        rep.check(not problems, "C01.R4", key, "return is: %s" % ", ".join(sorted(kinds)), "%s %s" % (spec.qual.split(".")[-1], "; ".join(problems)), node=node, fn=fn)
    return n


def _info(m, fn, t):
    for alt in alternatives(t):
        gi = routes.match_getinfo(alt)
        if gi:
            return gi
    return None


def _shortcut(rep, m, fn, cfg, res, spec, ret, tag="conv"):
    src_pred = lambda t: routes.role_matches(t, spec.source)
    tgt_pred = lambda t: routes.role_matches(t, spec.target)
    tests = routes.unit_eq_tests(cfg, res, src_pred, tgt_pred)
    key = "%s:shortcut:%s" % (spec.qual, norm(ast.unparse(ret)))
    if spec.qual.endswith("ConvertNumpyArray"):
        # reached only through the hand-off in Convert, which is checked there
        return
    node = cfg.node_of(ret)
    guarded = routes.guarded_by_inequality(cfg, node, tests)
    # the equal branch must return the value unchanged
    unchanged = False
    for nid, pos_is_eq in tests:
        lab = "T" if pos_is_eq else "F"
        for r in cfg.returns():
            st = cfg.ast[r]
            if st.value is None:
                continue
            if (nid, lab) in cfg.dominating_edges(r) and routes.role_matches(res.term(st.value), spec.value):
                unchanged = True
    rep.check(guarded and unchanged, "C01.R4", key,
              "conversion is reached only when source and target unit differ; equal units return the value unchanged (u->u exact)",
              ("conversion is reachable with equal source and target unit (no dominating same-unit test)" if not guarded else
               "the same-unit branch does not return the value argument unchanged"), node=ret, fn=fn)


def r5_wiring(rep, ctx):
    m = ctx.model
    init = m.method("UnitInfo", "__init__")
    res = Resolver(m, init)
    n = 0
    for attr in ("tobase", "frombase"):
        other = "frombase" if attr == "tobase" else "tobase"
        stores = [s for s in res.field_stores(attr, "UnitInfo") if s[0] is init]
        if not stores:
            raise AnalysisError("UnitInfo.__init__: no store of self.%s" % attr)
        for fn_, value, st in stores:
            n += 1
            t = res.term(value)
            ps = {p[2] for p in _params(t)}
            ok = attr in ps and other not in ps
            rep.check(ok, "C01.R5", "UnitInfo.__init__:self.%s" % attr, "self.%s derives from the %s argument only" % (attr, attr),
                      "self.%s derives from arguments %s" % (attr, sorted(ps)), node=st, fn=init, facts={"term": show(t, 300)})
    add = m.method("UnitDatabase", "AddUnit")
    ares = Resolver(m, add)
    for c in ast.walk(add.node):
        if isinstance(c, ast.Call) and isinstance(c.func, ast.Name) and c.func.id == "UnitInfo":
            n += 1
            pos = init.params[1:]
            bound = dict(zip(pos, c.args))
            for k in c.keywords:
                bound[k.arg] = k.value
            ok = True
            why = []
            for attr in ("tobase", "frombase"):
                e = bound.get(attr)
                t = ares.term(e) if e is not None else ("const", None)
                if not (t[0] == "param" and t[2] == attr):
                    ok = False
                    why.append("UnitInfo %s receives %s" % (attr, show(t)))
            rep.check(ok, "C01.R5", "UnitDatabase.AddUnit:UnitInfo(...)", "AddUnit forwards frombase/tobase to the same-named UnitInfo slots", "; ".join(why), node=c, fn=add)
    rep.floor("C01.R5", "wiring sites", n, 1)


def _params(t):
    from ..terms import walk

    return [s for s in walk(t) if isinstance(s, tuple) and s and s[0] == "param"]
