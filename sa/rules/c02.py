"""C02  All conversion routes agree and keep physical value, category and type."""
import ast

from .. import routes
from ..cfg import CFG
from ..facts import facts as nfacts
from ..report import AnalysisError, borrow, norm
from ..srcmodel import own_nodes, own_statements, program_order
from ..terms import Resolver, alternatives, show, walk

PROP = "C02"
EXHAUSTIVE = False
EXPLANATION = (
    "R1 route agreement: the conversion routes (Quantity.ConvertScalarValue, UnitDatabase.Convert on numbers and "
    "element-wise on lists/tuples, the registered numpy conversion) all normalise to "
    "frombase(info(target))(tobase(info(source))(value)) with the same unit-info lookup (same callee, same flags), roles "
    "not swapped, every return classified (shared with C01.R4); the list/tuple branch returns a tuple exactly for tuple "
    "input; _ConvertWithExp delegates to Convert for exponent 1 and otherwise converts the e-th root and raises the "
    "result to the target exponent, sign restored. R2 delegation chain: every higher route hands its own unit / the "
    "requested unit / its value to one of those routes with the right roles (Scalar.GetAbstractValue, Quantity.Convert, "
    "CreateCopy, the category-default value of Scalar and FractionScalar converted from the category's default unit to "
    "the requested one, Array.GetAbstractValue and FromScalars, FixedArray.IndexAsScalar / ChangingIndex, "
    "ConvertToCurrent). R3 own-unit identity: every route that is asked for the object's own unit returns the stored "
    "value before any lookup (simple and derived). R4 category preservation: every re-expression route builds its result "
    "with a quantity or category that derives from the source object's quantity / category."
)
ASSUMPTIONS = ["numpy evaluates the scalar conversion formula element-wise"]
TRUSTED = []


def run(rep, ctx):
    from . import c01
    rep.rule("C02.R1", "all conversion routes normalise to frombase(target) o tobase(source) with the same lookup and classified returns")
    try:
        borrow(rep, c01.r4_routes, ctx, "C01.R4", "C02.R1")
    except AnalysisError as e:
        rep.error("C02.R1", str(e))
    rep.run_rule("C02.R1", "all conversion routes normalise to frombase(target) o tobase(source) with the same lookup and classified returns", r1_agreement, ctx)
    rep.run_rule("C02.R2", "every higher-level route delegates with the right roles (source unit, target unit, value)", r2_delegation, ctx)
    rep.run_rule("C02.R3", "asking for the own unit returns the stored value before any lookup", r3_own_unit, ctx)
    rep.run_rule("C02.R4", "re-expressed objects are built with the source's category / quantity", r4_category, ctx)
    rep.not_decided += [
        "numeric equality element by element beyond route identity",
        "that numpy's vectorised evaluation is element-wise (trusted)",
    ]


# ------------------------------------------------------------------------------------------------
def r1_agreement(rep, ctx):
    m = ctx.model
    # same lookup flags on every GetInfo used for conversion
    flags = {}
    for qual in ("UnitDatabase.Convert", "RegisterConversion.RegisterNumpyConversion.ConvertNumpyArray", "Quantity.ConvertScalarValue", "Quantity.__init__"):
        fn = m.func(qual)
        for c in own_nodes(fn.node):
            if isinstance(c, ast.Call) and isinstance(c.func, ast.Attribute) and c.func.attr == "GetInfo":
                from ..facts import bind_args
                gi = m.method("UnitDatabase", "GetInfo")
                b = bind_args(c, gi)
                kw = tuple(sorted((k_, ast.unparse(v_)) for k_, v_ in b.items() if k_ not in ("quantity_type", "unit")))
                flags.setdefault(kw, []).append("%s:%d" % (qual.split(".")[-1], c.lineno))
    rep.check(len(flags) == 1, "C02.R1", "lookup-flags-agree", "every conversion route looks unit infos up with the same flags %s" % (list(flags)[0] if flags else None,),
              "conversion routes look unit infos up with different flags: %s (one container kind / route accepts units another rejects)" % {str(k): v for k, v in flags.items()}, fn=m.func("UnitDatabase.Convert"))
    # container kind of the element-wise branch
    cv = m.func("UnitDatabase.Convert")
    ccfg = CFG(cv.node)
    cres = Resolver(m, cv)
    CV = ("param", cv.params.index("value"), "value")
    IS_TUPLE = ("call", ("name", "isinstance"), (CV, ("name", "tuple")), ())
    kinds = {}

    def under(node, kind):
        for k, l_, r_, pos in nfacts(ccfg, ccfg.node_of(node)):
            if k == "truth" and cres.term(l_) == IS_TUPLE:
                kinds[kind] = pos if kinds.get(kind, pos) == pos else None

    for r in own_nodes(cv.node):
        if isinstance(r, ast.Return) and r.value is not None and not isinstance(r.value, ast.Call):
            # a list built by a comprehension and returned as it is
            v_ = r.value
            srcs = [v_] if isinstance(v_, ast.ListComp) else [getattr(st_, "value", None) for st_, _t in cres.origins(v_)] if isinstance(v_, ast.Name) else []
            if srcs and all(isinstance(x_, ast.ListComp) for x_ in srcs):
                under(r, "list")
            elif isinstance(v_, ast.Name):
                # a local that holds the container built in one arm or the other (the result variable of an inlined
                # helper): each `tuple(...)` / `list(...)` is judged where it is built
                for st_, t_ in cres.origins(v_):
                    for a_ in alternatives(t_):
                        if st_ is not None and a_[0] == "call" and a_[1] in (("name", "tuple"), ("name", "list")) and a_[1][1] not in cres.defs:
                            under(st_, a_[1][1])
            continue
        if not (isinstance(r, ast.Return) and isinstance(r.value, ast.Call) and isinstance(r.value.func, ast.Name)):
            continue
        f = r.value.func
        if f.id in ("tuple", "list") and f.id not in cres.defs:
            under(r, f.id)
            continue
        for st, t in cres.origins(f):
            if st is not None and isinstance(st, (ast.Assign, ast.AnnAssign)) and isinstance(st.value, ast.IfExp) and cres.term(st.value.test) == IS_TUPLE:
                for branch, pos in ((st.value.body, True), (st.value.orelse, False)):
                    bt = cres.term(branch)
                    if bt in (("name", "tuple"), ("name", "list")):
                        kinds[bt[1]] = pos if kinds.get(bt[1], pos) == pos else None
            elif t in (("name", "tuple"), ("name", "list")) and st is not None:
                under(st, t[1])
    ok = kinds.get("tuple") is True and kinds.get("list") is False
    rep.check(ok, "C02.R1", "Convert:container-kind", "the element-wise branch returns a tuple exactly for tuple input and a list otherwise", "the element-wise branch chooses its container as %s (tuple/list under isinstance(value, tuple) being)" % kinds, fn=cv)
    # _ConvertWithExp shape, on normalised terms of what it returns
    fn = m.method("UnitDatabase", "_ConvertWithExp")
    res = Resolver(m, fn)
    cfg = res.cfg
    if cfg is None:
        raise AnalysisError("_ConvertWithExp: no flow graph")
    P = {p: i for i, p in enumerate(fn.params)}
    VALUE = ("param", P["value"], "value")
    QT = ("param", P["quantity_type"], "quantity_type")

    def pair(which, idx):
        return ("sub", ("sub", ("param", P[which], which), ("const", 0)), ("const", idx))

    FROM_U, FROM_E, TO_U, TO_E = pair("from_unit_exps", 0), pair("from_unit_exps", 1), pair("to_unit_exps", 0), pair("to_unit_exps", 1)
    POW = (("attr", ("name", "math"), "pow"), ("name", "pow"))

    def is_conv(t):
        """Convert(quantity type, source unit, target unit, X) on the own database -> X"""
        if t[0] == "call" and t[1] == ("field", "Convert") and len(t[2]) == 4:
            return t[2][3] if (t[2][0], t[2][1], t[2][2]) == (QT, FROM_U, TO_U) else False
        return None

    def magnitude(t):
        return all(x == VALUE or x == ("call", ("name", "abs"), (VALUE,), ()) for x in alternatives(t))

    def has_abs(t):
        return any(x == ("call", ("name", "abs"), (VALUE,), ()) for x in alternatives(t))

    def is_root(t):
        if t[0] == "call" and t[1] in POW and len(t[2]) == 2 and magnitude(t[2][0]):
            e = t[2][1]
            return e[0] == "op" and e[1] == "Div" and e[2][0][0] == "const" and e[2][0][1] == 1 and e[2][1] == FROM_E
        return False

    def shape(t):
        """'same' | 'plain' | 'power' | 'neg-power' | ('bad-conv', t) | None"""
        if t == VALUE:
            return "same"
        c = is_conv(t)
        if c is False:
            return ("bad-conv", t)
        if c is not None:
            return "plain" if c == VALUE else None
        if t[0] == "op" and t[1] == "USub" and len(t[2]) == 1:
            return "neg-power" if shape(t[2][0]) == "power" and any(has_abs(x[2][0]) for x in walk(t) if x[0] == "call" and x[1] in POW and len(x[2]) == 2) else None
        if t[0] == "call" and t[1] in POW and len(t[2]) == 2 and t[2][1] == TO_E:
            c = is_conv(t[2][0])
            if c is False:
                return ("bad-conv", t)
            if c is not None and all(is_root(x) for x in alternatives(c)):
                return "power"
        return None

    def exps_are_one(node):
        """from_exp == to_exp == 1 holds on every path to node (equalities collected from the facts)."""
        eqs = []
        for k, l_, r_, pos in nfacts(cfg, node):
            if k == "eq" and pos:
                eqs.append({res.term(l_), res.term(r_)})
            elif k == "truth" and pos and isinstance(l_, ast.Compare) and all(isinstance(o, ast.Eq) for o in l_.ops):
                eqs.append({res.term(x) for x in [l_.left] + l_.comparators})
        cls = {("const", 1)}
        changed = True
        while changed:
            changed = False
            for s_ in eqs:
                if s_ & cls and not s_ <= cls:
                    cls |= s_
                    changed = True
        return FROM_E in cls and TO_E in cls

    def negative_guard(node):
        for k, l_, r_, pos in nfacts(cfg, node):
            if not pos:
                continue
            if k in ("lt", "gt") and r_ is not None:
                lo, hi = (l_, r_) if k == "lt" else (r_, l_)
                if res.term(lo) == VALUE and isinstance(hi, ast.Constant) and hi.value == 0:
                    return True
            if k == "truth" and isinstance(l_, ast.Name):
                org = res.origins(l_)

                def is_neg_test(t):
                    if t[0] == "call" and t[1] == ("name", "bool") and len(t[2]) == 1:
                        t = t[2][0]
                    return t[0] == "op" and len(t[2]) == 2 and ((t[1] == "cmp:Lt" and t[2][0] == VALUE and t[2][1][0] == "const" and t[2][1][1] == 0)
                                                                 or (t[1] == "cmp:Gt" and t[2][1] == VALUE and t[2][0][0] == "const" and t[2][0][1] == 0))

                if org and all(is_neg_test(t) for st, t in org):
                    return True
                trues = [st for st, t in org if t == ("const", True)]
                if trues and all(t[0] == "const" and isinstance(t[1], bool) for st, t in org) and all(st is not None and negative_guard(cfg.node_of(st)) for st in trues):
                    return True
        return False

    seen = {}
    for r in sorted((x for x in own_nodes(fn.node) if isinstance(x, ast.Return) and x.value is not None), key=program_order(fn.node)):
        t = res.term(r.value)
        for a_ in alternatives(t):
            sh = shape(a_)
            if isinstance(sh, tuple):
                rep.bad("C02.R1", "_ConvertWithExp:delegation", "delegates with %s instead of Convert(quantity type, source unit, target unit, ...)" % show(a_, 120), node=r, fn=fn)
                continue
            if sh is None:
                abs_exp = [x for x in walk(a_) if x[0] == "call" and x[1] == ("name", "abs") and len(x[2]) == 1 and x[2][0] in (FROM_E, TO_E)]
                if abs_exp and any(x[0] == "call" and x[1] in POW for x in walk(a_)):
                    rep.bad("C02.R1", "_ConvertWithExp:root-convert-power", "the root / power is taken with the absolute value of the exponent (%s): a unit with a negative exponent (1/ft -> 1/m) is converted in the wrong direction" % show(abs_exp[0], 60), node=r, fn=fn)
                    seen.setdefault("power", []).append(r)
                    seen.setdefault("neg-power", []).append(r)
                    continue
                if a_[0] == "call" and a_[1] in POW and len(a_[2]) == 2 and a_[2][1] == TO_E and any(b_[0] == "op" and b_[1] == "USub" for b_ in alternatives(a_[2][0])):
                    rep.bad("C02.R1", "_ConvertWithExp:sign", "the sign of a negative value is put back *before* raising to the target exponent (%s): an even exponent loses it" % show(a_, 100), node=r, fn=fn)
                    seen.setdefault("power", []).append(r)
                    seen.setdefault("neg-power", []).append(r)
                    continue
                unrooted = [x for x in walk(a_) if x[0] == "call" and x[1] == ("field", "Convert") and len(x[2]) == 4 and magnitude(x[2][3])]
                if unrooted and any(x[0] == "call" and x[1] in POW for x in walk(a_)):
                    rep.bad("C02.R1", "_ConvertWithExp:root-convert-power", "the value raised to the exponent is converted without its root being taken first (%s): the exponent arm does not take the root before and the power after the conversion" % show(a_, 120), node=r, fn=fn)
                    seen.setdefault("power", []).append(r)
                    continue
                if any(x[0] == "call" and (x[1] in POW or x[1] == ("field", "Convert")) for x in walk(a_)):
                    raise AnalysisError("_ConvertWithExp returns %s: not the root-convert-power idiom, the checker cannot tell whether another algorithm honours the exponent" % show(a_, 160))
                rep.bad("C02.R1", "_ConvertWithExp:returns", "returns %s, which is neither the value, its plain conversion nor the converted root raised to the exponent" % show(a_, 120), node=r, fn=fn)
                continue
            seen.setdefault(sh, []).append(r)
            if sh == "plain":
                rep.check(exps_are_one(cfg.node_of(r)), "C02.R1", "_ConvertWithExp:exponent-1", "with exponent 1 on both sides the plain conversion of the value is returned",
                          "the plain conversion of the value is returned without from_exp == to_exp == 1 being established: the exponent is ignored", node=r, fn=fn)
            if sh == "neg-power":
                rep.check(negative_guard(cfg.node_of(r)), "C02.R1", "_ConvertWithExp:sign", "the sign of a negative value is restored", "the negated power is returned without the value being negative", node=r, fn=fn)
    if "power" not in seen and "neg-power" not in seen:
        raise AnalysisError("_ConvertWithExp: the root-convert-power idiom (math.pow(value, 1.0 / from_exp) ... math.pow(value, to_exp)) was not found: the checker cannot tell whether another algorithm honours the exponent")
    rep.check("plain" in seen, "C02.R1", "_ConvertWithExp:exponent-1:present", "the exponent-1 arm exists", "no arm returns the plain conversion", fn=fn)
    rep.check("power" in seen, "C02.R1", "_ConvertWithExp:root-convert-power", "for other exponents the e-th root is converted and the result raised to the target exponent", "the exponent arm does not take the root before and the power after the conversion", fn=fn)
    rep.check("neg-power" in seen, "C02.R1", "_ConvertWithExp:sign:present", "the sign of a negative value is restored", "the sign of a negative value is not restored", fn=fn)


# ------------------------------------------------------------------------------------------------
def r2_delegation(rep, ctx):
    m = ctx.model
    n = 0
    # Scalar.GetAbstractValue
    fn = m.own_method("Scalar", "GetAbstractValue")
    res = Resolver(m, fn)
    ok = False
    for r in own_nodes(fn.node):
        if isinstance(r, ast.Return) and isinstance(r.value, ast.Call):
            t = res.term(r.value)
            if t[0] == "call" and t[1] == ("attr", ("field", "_quantity"), "ConvertScalarValue"):
                ok = list(t[2]) == [("field", "_value"), ("param", 1, "unit")]
    n += 1
    rep.check(ok, "C02.R2", "Scalar.GetAbstractValue", "the own quantity converts the stored value to the requested unit", "Scalar.GetAbstractValue does not return self._quantity.ConvertScalarValue(self._value, unit)", fn=fn)
    # Quantity.Convert
    fn = m.method("Quantity", "Convert")
    res = Resolver(m, fn)
    ok = False
    for r in own_nodes(fn.node):
        if isinstance(r, ast.Return) and isinstance(r.value, ast.Call):
            t = res.term(r.value)
            if t[0] == "call" and t[1] == ("attr", ("field", "_unit_database"), "Convert") and len(t[2]) == 4:
                ok = list(t[2]) == [("field", "_composing_categories"), ("field", "_composing_units"), ("param", 2, "to_unit"), ("param", 1, "value")]
    n += 1
    rep.check(ok, "C02.R2", "Quantity.Convert", "the database converts value from the own composing units to the requested unit within the own categories", "Quantity.Convert passes other roles to UnitDatabase.Convert", fn=fn)
    # ConvertScalarValue derived branch delegates to Convert(value, to_unit)
    fn = m.method("Quantity", "ConvertScalarValue")
    res = Resolver(m, fn)
    ok = any(isinstance(r, ast.Return) and res.term(r.value) == ("call", ("field", "Convert"), (("param", 1, "value"), ("param", 2, "to_unit")), ()) for r in own_nodes(fn.node))
    n += 1
    rep.check(ok, "C02.R2", "Quantity.ConvertScalarValue:derived", "a derived quantity converts through Quantity.Convert(value, to_unit)", "the derived branch of ConvertScalarValue does not delegate to Convert(value, to_unit)", fn=fn)
    # default values: from the category's default unit to the requested unit
    for cname in ("Scalar", "FractionScalar"):
        fn = m.own_method(cname, "_GetDefaultValue")
        if fn is None:
            raise AnalysisError("%s._GetDefaultValue not found" % cname)
        res = Resolver(m, fn, flow=False)
        ok = False
        why = "no conversion of the default value found"
        for c in own_nodes(fn.node):
            if isinstance(c, ast.Call) and isinstance(c.func, ast.Attribute) and c.func.attr in ("ConvertScalarValue", "Convert"):
                recv = res.term(c.func.value)
                args = [res.term(a) for a in c.args]
                src_ok = recv[0] == "call" and recv[1] == ("name", "ObtainQuantity") and recv[2] and recv[2][0] == ("attr", ("param", 1, "category_info"), "default_unit")
                val_ok = len(args) == 2 and any(a == ("attr", ("param", 1, "category_info"), "default_value") for a in alternatives(args[0]))
                tgt_ok = len(args) == 2 and args[1] == ("param", 2, "unit")
                ok = src_ok and val_ok and tgt_ok
                why = "converts %s from %s to %s" % (show(args[0]) if args else None, show(recv, 80), show(args[1]) if len(args) > 1 else None)
        # must-pass-through: a return that may hand back the category's default value either passed the
        # conversion or an edge on which `unit is None` holds (no unit requested)
        from ..facts import norm_fact, none_fact
        dcfg = CFG(fn.node)
        dres = Resolver(m, fn)
        conv_nodes = {dcfg.node_of(c) for c in own_nodes(fn.node) if isinstance(c, ast.Call) and isinstance(c.func, ast.Attribute) and c.func.attr in ("ConvertScalarValue", "Convert", "ConvertFractionValue")}
        none_edges = set()
        for nid in dcfg.nodes("test"):
            for lab in ("T", "F"):
                nf = none_fact(norm_fact(dcfg.ast[nid], lab == "T"))
                if nf and nf[1] and dres.term(nf[0]) == ("param", fn.params.index("unit"), "unit") if "unit" in fn.params else False:
                    none_edges |= {(nid, b_, l_) for (b_, l_) in dcfg.succ[nid] if l_ == lab}
        reach_ = dcfg.reach(dcfg.ENTRY, avoid=conv_nodes, avoid_edges=none_edges)
        for rn in dcfg.returns():
            rst = dcfg.ast[rn]
            if rst.value is None:
                continue
            rt = dres.term(rst.value)
            may_be_default = any(any(s_[0] == "attr" and s_[2] == "default_value" for s_ in walk(a_)) for a_ in alternatives(rt))
            if not may_be_default and rn in reach_ and "unit" in fn.params:
                # a constant handed back although a unit may have been requested: only as the fallback for a category
                # info that has no default value at all - inside `except AttributeError`, or where the looked-up default
                # *is* the placeholder that getattr() was given (`d = getattr(ci, 'default_value', MISSING); if d is MISSING`)
                p_ = rst
                in_handler = False
                while p_ is not None and p_ is not fn.node:
                    if isinstance(p_, ast.ExceptHandler) and p_.type is not None and "AttributeError" in ast.unparse(p_.type):
                        in_handler = True
                    p_ = getattr(p_, "_parent", None)
                is_placeholder = False
                for k_, l_, r__, pos_ in nfacts(dcfg, rn):
                    if k_ == "is" and pos_ and r__ is not None:
                        lt_, rt_ = dres.term(l_), dres.term(r__)
                        for x_, y_ in ((lt_, rt_), (rt_, lt_)):
                            al_ = alternatives(x_)
                            if len(al_) == 2 and any(a_[0] == "attr" and a_[2] == "default_value" for a_ in al_) and y_ in al_ and not (y_[0] == "attr" and y_[2] == "default_value"):
                                is_placeholder = True
                n += 1
                rep.check(in_handler or is_placeholder, "C02.R2", "%s._GetDefaultValue:fallback-only-without-default:%s" % (cname, norm(ast.unparse(rst))[:40]),
                          "a constant is returned unconverted only as the fallback for a category info without a default value",
                          "%s._GetDefaultValue can return `%s` without conversion on a path where the category has a default value and a unit was requested (a test on the default's truth value merges 'no default' with 'default is 0'): an object created from a category default in a non-default unit does not carry the amount of that default" % (cname, norm(ast.unparse(rst.value))[:30]),
                          node=rst, fn=fn)
            if may_be_default:
                n += 1
                rep.check(rn not in reach_, "C02.R2", "%s._GetDefaultValue:converted-on-every-path:%s" % (cname, norm(ast.unparse(rst))[:40]),
                          "the default value is returned unconverted only when no unit was requested",
                          "%s._GetDefaultValue can return the category's default value without converting it although a unit was requested (the conversion is skipped on some path): an object created from a category default in a non-default unit does not carry the amount of that default" % cname,
                          node=rst, fn=fn)
        n += 1
        rep.check(ok, "C02.R2", "%s._GetDefaultValue" % cname, "the category default is converted from the category's default unit to the requested unit",
                  "%s._GetDefaultValue %s: an object created from a category default in a non-default unit does not carry the amount of that default" % (cname, why), fn=fn)
    # the shared constructor asks for the default in the requested unit
    init = m.method("AbstractValueWithQuantityObject", "__init__")
    ires = Resolver(m, init)
    calls = [c for c in own_nodes(init.node) if isinstance(c, ast.Call) and isinstance(c.func, ast.Attribute) and c.func.attr == "_GetDefaultValue" and len(c.args) == 2]
    ok = len(calls) == 1
    if ok:
        # by terms: (GetCategoryInfo(<category as given>), <unit as given>); in the (value, unit, category)
        # argument order the roles are shifted by one parameter
        P = {p_: ("param", i_, p_) for i_, p_ in enumerate(init.params)}
        info_t, unit_t = ires.term(calls[0].args[0]), ires.term(calls[0].args[1])
        unit_alts = alternatives(unit_t)
        ok = P["unit"] in unit_alts and all(a_ in (P["unit"], P["value"]) for a_ in unit_alts)
        for a_ in alternatives(info_t):
            ok = ok and a_[0] == "call" and a_[1][0] == "attr" and a_[1][2] == "GetCategoryInfo" and len(a_[2]) == 1 \
                and P["category"] in alternatives(a_[2][0]) and all(c_ in (P["category"], P["unit"]) for c_ in alternatives(a_[2][0]))
    n += 1
    rep.check(ok, "C02.R2", "constructor:default-in-requested-unit", "the category-only form asks for the default value in the unit it was given", "the shared constructor does not pass (category info, requested unit) to _GetDefaultValue", fn=init)
    # CreateCopy: value in the unit the new quantity gets
    cc = m.method("AbstractValueWithQuantityObject", "CreateCopy")
    cres = Resolver(m, cc)
    st = [s for s in own_statements(cc.node) if isinstance(s, ast.Assign) and isinstance(s.targets[0], ast.Name) and s.targets[0].id == "value" and isinstance(s.value, ast.Call)]
    ok = len(st) == 1 and cres.term(st[0].value) == ("call", ("field", "GetAbstractValue"), (("param", cc.params.index("unit"), "unit"),), ())
    n += 1
    rep.check(ok, "C02.R2", "CreateCopy:value-in-new-unit", "without an explicit value the copy takes the source's value expressed in the requested unit", "CreateCopy does not take GetAbstractValue(unit) as the value of the copy", fn=cc)
    for c in own_nodes(cc.node):
        if isinstance(c, ast.Call) and isinstance(c.func, ast.Name) and c.func.id == "ObtainQuantity":
            n += 1
            rep.check(bool(c.args) and cres.term(c.args[0]) == ("param", cc.params.index("unit"), "unit"), "C02.R2", "CreateCopy:%s" % norm(ast.unparse(c)), "the copy's quantity is obtained for the same requested unit", "the copy's quantity is obtained for %s while its value is expressed in `unit`" % (ast.unparse(c.args[0]) if c.args else None), node=c, fn=cc)
    rep.floor("C02.R2", "delegations checked here", n, 6)
    # borrowed: Array.GetAbstractValue, FromScalars, IndexAsScalar/ChangingIndex, ConvertToCurrent
    from . import c10, c11, c17
    for fn_, old in ((c10.r7_getvalues, "C10.R7"), (c10.r5_from_scalars, "C10.R5"), (c11.r3_index, "C11.R3"), (c17.r7_convert, "C17.R7")):
        borrow(rep, fn_, ctx, old, "C02.R2")


# ------------------------------------------------------------------------------------------------
def r3_own_unit(rep, ctx):
    m = ctx.model
    # Quantity.ConvertScalarValue: the own-unit shortcut dominates every conversion, simple or derived
    fn = m.method("Quantity", "ConvertScalarValue")
    cfg = CFG(fn.node)
    res = Resolver(m, fn)
    tests = []
    for nid in cfg.nodes("test"):
        e = cfg.ast[nid]
        if isinstance(e, ast.Compare) and len(e.ops) == 1 and isinstance(e.ops[0], (ast.Eq, ast.NotEq)):
            l, r = res.term(e.left), res.term(e.comparators[0])
            own = lambda t: all(a in (("field", "_unit"), ("field", "unit"), ("call", ("field", "GetUnit"), (), ())) for a in alternatives(t))
            req = lambda t: t == ("param", 2, "to_unit")
            if (own(l) and req(r)) or (own(r) and req(l)):
                tests.append((nid, "F" if isinstance(e.ops[0], ast.Eq) else "T"))
    n = 0
    for r in cfg.returns():
        node = cfg.ast[r]
        t = res.term(node.value)
        if t == ("param", 1, "value"):
            continue
        n += 1
        dom = cfg.dominating_edges(r)
        ok = any(x in dom for x in tests)
        kind = "derived" if any(s == ("field", "Convert") for s in walk(t)) else "simple"
        rep.check(ok, "C02.R3", "ConvertScalarValue:%s" % kind, "the %s conversion is reached only when the requested unit differs from the own unit string" % kind,
                  "the %s branch of ConvertScalarValue converts without first comparing the requested unit with the own unit: asking a %s quantity for its own unit %s" % (kind, kind, "raises ValueError (composed-unit lookup)" if kind == "derived" else "goes through a lookup and two conversions instead of returning the stored value"),
                  node=node, fn=fn)
    rep.floor("C02.R3", "converting returns of ConvertScalarValue", n, 1)
    # Array.GetAbstractValue: own unit returns the stored values (borrowed obligation is in R2); Scalar unit None
    sfn = m.own_method("Scalar", "GetAbstractValue")
    from ..facts import facts as nfacts, none_fact
    scfg = CFG(sfn.node)
    ok = False
    sres = Resolver(m, sfn)
    for r in own_nodes(sfn.node):
        if isinstance(r, ast.Return) and r.value is not None and sres.term(r.value) == ("field", "_value"):
            for f in nfacts(scfg, scfg.node_of(r)):
                nf = none_fact(f)
                if nf and nf[1] and sres.term(nf[0]) == ("param", sfn.params.index("unit"), "unit"):
                    ok = True
    rep.check(ok, "C02.R3", "Scalar.GetAbstractValue:no-unit", "without a unit the stored value is returned", "Scalar.GetAbstractValue() does not return the stored value when no unit is given", fn=sfn)
    # UnitDatabase.Convert: equal composed units return the value
    cv = m.func("UnitDatabase.Convert")
    ccfg = CFG(cv.node)
    cres = Resolver(m, cv)
    P_VALUE = ("param", cv.params.index("value"), "value")
    ok = False
    for c in own_nodes(cv.node):
        if isinstance(c, ast.Call) and isinstance(c.func, ast.Attribute) and c.func.attr == "_ConvertWithExp" and len(c.args) >= 3:
            sides = {cres.term(c.args[1]), cres.term(c.args[2])}
            for r in own_nodes(cv.node):
                if isinstance(r, ast.Return) and r.value is not None and cres.term(r.value) == P_VALUE:
                    for k, l, r_, pos in nfacts(ccfg, ccfg.node_of(r)):
                        if k == "eq" and pos and r_ is not None and len(sides) == 2 and {cres.term(l), cres.term(r_)} == sides:
                            ok = True
    rep.check(ok, "C02.R3", "Convert:equal-composed-units", "equal composed units return the value unchanged", "UnitDatabase.Convert does not return the value for equal composed units", fn=cv)


# ------------------------------------------------------------------------------------------------
def _derives_from_source(t, source_roots):
    """Does a quantity/category term derive from the source object (self / a parameter scalar)?"""
    for s in walk(t):
        if s in source_roots:
            return True
        if s[0] == "field" and s[1] in ("_quantity", "category", "GetCategory", "GetQuantity", "quantity"):
            return True
        if s[0] == "attr" and s[2] in ("category", "GetCategory", "GetQuantity", "_quantity", "GetComposingCategories") and s[1] in source_roots:
            return True
    return False


def r4_category(rep, ctx):
    m = ctx.model
    n = 0
    # CreateCopy: unit given, category not -> ObtainQuantity(unit, <own category>)
    cc = m.method("AbstractValueWithQuantityObject", "CreateCopy")
    res = Resolver(m, cc)
    for c in own_nodes(cc.node):
        if isinstance(c, ast.Call) and isinstance(c.func, ast.Attribute) and c.func.attr == "CreateWithQuantity":
            n += 1
            q = res.term(c.args[0]) if c.args else None
            ok = False
            why = show(q, 80) if q else None
            if q == ("field", "_quantity"):
                ok = True
            elif q is not None and q[0] == "call" and q[1] == ("name", "ObtainQuantity"):
                if len(q[2]) == 2:
                    cat = q[2][1]
                    ok = cat == ("param", 3, "category") or cat == ("call", ("attr", ("field", "_quantity"), "GetCategory"), (), ())
                elif len(q[2]) == 1:
                    # only in the arm where the source has no category (empty quantity)
                    p = c
                    own_cat = ("call", ("attr", ("field", "_quantity"), "GetCategory"), (), ())

                    def cat_test(t):
                        """+1: `if <own category>`, -1: `if not <own category>`, 0: something else"""
                        if isinstance(t, ast.UnaryOp) and isinstance(t.op, ast.Not):
                            return -cat_test(t.operand)
                        return 1 if isinstance(t, (ast.Call, ast.Name)) and res.term(t) == own_cat else 0

                    while p is not None and not (isinstance(p, ast.If) and cat_test(p.test)):
                        p = getattr(p, "_parent", None)
                    ok = p is not None and any(c is x for b in (p.orelse if cat_test(p.test) > 0 else p.body) for x in ast.walk(b))
            if not ok and q is not None:
                # conditional-expression / local form: every alternative is the own quantity or ObtainQuantity(unit[, category]);
                # the category-less form is only acceptable next to the form that passes the source's category
                alts = alternatives(q)
                def kind(a):
                    if a == ("field", "_quantity"):
                        return "own"
                    if a[0] == "call" and a[1] == ("name", "ObtainQuantity") and len(a[2]) == 2:
                        c2 = a[2][1]
                        if all(x == ("param", 3, "category") or x == ("call", ("attr", ("field", "_quantity"), "GetCategory"), (), ()) for x in alternatives(c2)):
                            return "with-category"
                    if a[0] == "call" and a[1] == ("name", "ObtainQuantity") and len(a[2]) == 1:
                        return "bare"
                    return "other"
                kinds_ = {kind(a) for a in alts}
                has_cat_test = any(isinstance(x, (ast.If, ast.IfExp)) and any(s2 == ("call", ("attr", ("field", "_quantity"), "GetCategory"), (), ()) for s2 in walk(res.term(x.test))) for x in ast.walk(cc.node))
                ok = "other" not in kinds_ and ("bare" not in kinds_ or "with-category" in kinds_)
            rep.check(ok, "C02.R4", "CreateCopy:%s" % norm(ast.unparse(c))[:80], "the copy keeps the source's quantity, or is re-expressed under the given / the source's category",
                      "CreateCopy builds the copy with %s: the category of the source is lost (falls back to the unit's default category)" % why, node=c, fn=cc)
    # ConvertScalarToCurrent
    sc = m.method("UnitSystemManager", "ConvertScalarToCurrent")
    sres = Resolver(m, sc)
    for r in own_nodes(sc.node):
        if isinstance(r, ast.Return) and isinstance(r.value, ast.Call) and ast.unparse(r.value.func) == "Scalar":
            n += 1
            args = [sres.term(a) for a in r.value.args]
            starred = any(isinstance(a, ast.Starred) for a in r.value.args)
            ok = not starred and len(args) == 3 and args[2][0] == "call" and args[2][1][0] == "attr" and args[2][1][2] == "GetCategory" and args[2][1][1][0] == "param"
            rep.check(ok, "C02.R4", "ConvertScalarToCurrent:result", "the converted Scalar is built with the source scalar's category", "ConvertScalarToCurrent builds `%s`: the category of the source is dropped (e.g. depth becomes length)" % ast.unparse(r.value), node=r, fn=sc)
    # IndexAsScalar: the quantity is the own or the given one
    ia = m.own_method("FixedArray", "IndexAsScalar")
    ires = Resolver(m, ia)
    for r in own_nodes(ia.node):
        if isinstance(r, ast.Return) and isinstance(r.value, ast.Call):
            n += 1
            q = ires.term(r.value.args[0]) if r.value.args else None
            ok = q is not None and all(a == ("param", 2, "quantity") or a == ("call", ("field", "GetQuantity"), (), ()) for a in alternatives(q))
            rep.check(ok, "C02.R4", "IndexAsScalar:quantity", "the Scalar gets the requested quantity or the array's own", "IndexAsScalar builds the Scalar with %s" % (show(q) if q else None), node=r, fn=ia)
    # FromScalars: category given or the first scalar's
    fs = m.method("Array", "FromScalars")
    fres = Resolver(m, fs)
    PCAT = ("param", fs.params.index("category"), "category")
    PSC = ("param", fs.params.index("scalars"), "scalars")
    n += 1
    ok = False
    # the constructing call that receives the converted values: its category is `category or <first scalar>.category`
    for c in own_nodes(fs.node):
        if isinstance(c, ast.Call) and isinstance(c.func, ast.Name) and c.func.id == fs.params[0]:
            kw = {k.arg: k.value for k in c.keywords}
            if "category" not in kw or "values" not in kw or (isinstance(kw["values"], ast.List) and not kw["values"].elts):
                continue

            def first_category(first):
                recv = first[1] if first[0] == "attr" and first[2] == "category" else first[1][1] if (first[0] == "call" and first[1][0] == "attr" and first[1][2] == "GetCategory") else None
                return recv is not None and recv[0] == "call" and recv[1] == ("name", "next") and any(x == PSC for x in walk(recv))

            alts_ = alternatives(fres.term(kw["category"]))
            for a_ in alts_:
                if a_[0] == "op" and a_[1] == "Or" and len(a_[2]) == 2 and a_[2][0] == PCAT:
                    if first_category(a_[2][1]):
                        ok = True
            if not ok and len(alts_) == 2 and PCAT in alts_ and any(first_category(a_) for a_ in alts_):
                # `if not category: category = first.category`: the replacement is chosen where the given one is falsy
                fcfg = CFG(fs.node)
                for st_, t_ in fres.origins(kw["category"]):
                    if st_ is not None and t_ != PCAT and first_category(t_):
                        ok = any(k_ == "truth" and not pos_ and fres.term(l_) == PCAT for k_, l_, r__, pos_ in nfacts(fcfg, fcfg.node_of(st_)))
    rep.check(ok, "C02.R4", "FromScalars:category", "the Array takes the given category or the first scalar's", "FromScalars does not default the category to the first scalar's category", fn=fs)
    # ChangingIndex: scalars built from plain numbers / tuples take the array's unit only -> default category
    ci = m.own_method("FixedArray", "ChangingIndex")
    cres = Resolver(m, ci)
    for c in own_nodes(ci.node):
        if isinstance(c, ast.Call) and isinstance(c.func, ast.Name) and c.func.id == "Scalar":
            n += 1
            args = [cres.term(a) for a in c.args]
            has_cat = len(args) >= 3 or (args and any(s == ("call", ("field", "GetQuantity"), (), ()) for s in walk(args[0])))
            form = "tuple" if isinstance(getattr(c, "_parent", None), ast.Attribute) else "number"
            rep.check(has_cat, "C02.R4", "ChangingIndex:%s-form" % form, "the intermediate Scalar carries the array's category",
                      "ChangingIndex builds `%s` from the array's unit alone and then adopts that Scalar's quantity: the result has the unit's default category instead of the array's (FixedArray(3,'depth',..).ChangingIndex(0, 5.0) is 'length')" % norm(ast.unparse(c)), node=c, fn=ci)
    # ChangeScalars goes through CreateCopy
    ch = m.func("ChangeScalars")
    ok = any(isinstance(c, ast.Call) and isinstance(c.func, ast.Attribute) and c.func.attr == "CreateCopy" and {k.arg for k in c.keywords} == {"value", "unit"} for c in own_nodes(ch.node))
    n += 1
    rep.check(ok, "C02.R4", "ChangeScalars", "ChangeScalars re-expresses through CreateCopy(value=, unit=), which keeps the category", "ChangeScalars does not go through CreateCopy(value=, unit=)", fn=ch)
    rep.floor("C02.R4", "re-expression sites", n, 5)
