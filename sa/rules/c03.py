"""C03  Addition and subtraction are physically sound, also for derived units."""
import ast

from .. import dispatch
from ..cfg import CFG
from ..report import borrow, AnalysisError, norm
from ..srcmodel import own_nodes, own_statements, program_order
from ..facts import facts
from ..terms import Resolver, alternatives, mentions, show, walk

PROP = "C03"
EXHAUSTIVE = False
EXPLANATION = (
    "R1 value operation table: Sum hands `a + b` and Subtract `a - b`, with (quantity1, quantity2, value1, value2) "
    "unchanged and in order, to the shared same-quantity routine (so the right operand is re-expressed *before* the "
    "operation - negating or pre-combining a value before unit matching is wrong for affine units). R2 left operand "
    "wins: unit matching visits the left operand's map first (so the left unit becomes the reference unit of each "
    "quantity type) and the returned quantity is the left one except in the left-is-dimensionless arm. R3 the exponent "
    "must reach the conversion: in unit matching the exponent of each [unit, exp] entry must flow into the converted "
    "value; if it is dead, entries with exponent 1 and 2 are converted identically and one of them is wrong (non-"
    "dependence is a refutation). R4 dispatch: __add__/__sub__/__radd__/__rsub__ of Scalar and Array name Sum/Subtract "
    "with the right operand order and number callback. R5 label and value move together: whenever unit matching rewrites "
    "an entry's unit to the reference unit, the conversion of that side's value by that entry's unit pair dominates the "
    "rewrite, once per entry."
)
ASSUMPTIONS = []
TRUSTED = []


def run(rep, ctx):
    rep.run_rule("C03.R1", "Sum/Subtract pass a+b / a-b and the unchanged operands, in order, to the same-quantity routine", r1_value_ops, ctx)
    rep.run_rule("C03.R2", "the left operand's units and quantity win", r2_left_wins, ctx)
    rep.run_rule("C03.R3", "the exponent of a composing entry flows into the conversion of the value", r3_exponent_flows, ctx)
    rep.run_rule("C03.R4", "add/sub dunders of Scalar and Array dispatch to Sum/Subtract with the right operand order", r4_dispatch, ctx)
    rep.run_rule("C03.R5", "unit matching converts the value whenever (and as often as) it rewrites an entry's unit", r5_label_and_value, ctx)
    from . import c05
    from ..report import borrow
    rep.rule("C03.R6", "compatible operands are accepted: the composing-unit comparison is order-insensitive and only a real mismatch raises (shared with C05.R1)")
    try:
        borrow(rep, c05.r1_same_quantity, ctx, "C05.R1", "C03.R6")
    except AnalysisError as e:
        rep.error("C03.R6", str(e))
    from . import c20
    rep.rule("C03.R7", "the joined composing units that decide compatibility sum the exponents of every entry per unit (shared with C20.R5)")
    try:
        borrow(rep, c20.r5_sources, ctx, "C20.R5", "C03.R7", keep=lambda o: o.key.startswith("joined-exponents"))
    except AnalysisError as e:
        rep.error("C03.R7", str(e))
    from . import c10
    rep.rule("C03.R8", "Arrays add and subtract element by element through the same database operation, operands and quantities in order, also for empty arrays (shared with C10.R1 / C10.R3 / C10.R6)")
    try:
        borrow(rep, c10.r1_one_impl, ctx, "C10.R1", "C03.R8")
        borrow(rep, c10.r3b_result_quantity, ctx, "C10.R3", "C03.R8")
        borrow(rep, c10.r6_passthrough, ctx, "C10.R6", "C03.R8")
    except AnalysisError as e:
        rep.error("C03.R8", str(e))
    rep.not_decided += [
        "the numeric result of a+b / a-b (arithmetic on runtime values)",
        "false rejection of dimension-compatible operands written with different symbols (m.m + m2)",
    ]


def r1_value_ops(rep, ctx):
    m = ctx.model
    for opname in ("Sum", "Subtract"):
        fn, ret, callee, lams, args = dispatch.db_operation_facts(m, opname)
        for xr in dispatch.db_operation_facts.extra_returns:
            rep.bad("C03.R1", "UnitDatabase.%s:extra-return:%s" % (opname, norm(ast.unparse(xr))[:50]), "UnitDatabase.%s can return `%s` without going through the shared same-quantity routine (no dimension comparison, no unit matching)"
                    % (opname, norm(ast.unparse(xr))[:80]), node=xr, fn=fn)
        want = dispatch.DB_OPS[opname][1]
        why = []
        if callee != "_DoOperationWithSameQuantity":
            why.append("delegates to %s instead of the same-quantity routine" % callee)
        if args != fn.params[1:5]:
            why.append("passes %s instead of the unchanged (quantity1, quantity2, value1, value2)" % args)
        if len(lams) != 1 or lams[0] is None:
            why.append("the value operation is not a plain `lambda a, b: a OP b`")
        elif lams[0] != (want, False):
            why.append("the value operation computes a %s b%s, expected %s" % (lams[0][0].__name__, " with swapped operands" if lams[0][1] else "", want.__name__))
        rep.check(not why, "C03.R1", "UnitDatabase.%s" % opname, "%s applies %s to the operands after unit matching" % (opname, want.__name__), "UnitDatabase.%s %s" % (opname, "; ".join(why)), node=ret, fn=fn)


class _Shape:
    """How _MatchQuantities walks the two operand maps: .order = the map parameters in visiting order,
    .loops = [(entry loop, sides it runs for)], .outer = the statement reports point at."""


def _matchq(m):
    """Two accepted shapes: one loop over the literal pair of maps with the entry loop inside
    (`for c in (map1, map2): for category, unit_exp in list(c.items())`), or one entry loop per map, in sequence
    (the same loop written twice, or a per-side helper called twice)."""
    fn = m.method("UnitDatabase", "_MatchQuantities")
    sh = _Shape()
    if len(fn.params) != 5:
        raise AnalysisError("_MatchQuantities: expected (self, map1, map2, value1, value2)")
    outer = [lp for lp in own_statements(fn.node) if isinstance(lp, ast.For) and isinstance(lp.iter, ast.Tuple)]
    if len(outer) == 1:
        inner = [lp for lp in own_statements(outer[0]) if isinstance(lp, ast.For)]
        if len(inner) != 1:
            raise AnalysisError("_MatchQuantities: the loop over the entries of a map was not found")
        sh.kind = "pair-loop"
        sh.outer = outer[0]
        sh.order = [e.id if isinstance(e, ast.Name) else None for e in outer[0].iter.elts]
        sh.loops = [(inner[0], {1, 2})]
        sh.pairvar = outer[0].target.id if isinstance(outer[0].target, ast.Name) else None
        return fn, sh
    if not outer:
        res = Resolver(m, fn)
        MP = [("param", i_, p_) for i_, p_ in enumerate(fn.params)]
        loops = []
        for lp in own_statements(fn.node):
            if isinstance(lp, ast.For) and not any(isinstance(x, ast.For) for x in own_statements(lp) if x is not lp):
                roots = {x for x in walk(res.term(lp.iter)) if x in MP[1:3]}
                if len(roots) == 1:
                    loops.append((lp, {MP.index(next(iter(roots)))}))
        nested = any(isinstance(getattr(lp, "_parent", None), (ast.For, ast.While)) for lp, _ in loops)
        if len(loops) == 2 and not nested and loops[0][1] != loops[1][1]:
            sh.kind = "two-loops"
            sh.outer = loops[0][0]
            sh.order = [fn.params[next(iter(sd))] for _, sd in loops]
            sh.loops = loops
            sh.pairvar = None
            return fn, sh
    raise AnalysisError("_MatchQuantities: the loop over the two operand maps was not found (unit-matching idiom changed)")


def mq_convention(m):
    """The calling convention of _MatchQuantities, read from its return: {'map1': i, 'map2': j, 'v1': k, 'v2': l} -
    the positions of its result that hand back the two maps (absent when they are only matched in place) and
    the two matched values."""
    mqf = m.method("UnitDatabase", "_MatchQuantities")
    mres = Resolver(m, mqf)
    mrets = [r for r in own_nodes(mqf.node) if isinstance(r, ast.Return) and r.value is not None]
    if len(mrets) != 1:
        raise AnalysisError("_MatchQuantities: expected one return, found %d" % len(mrets))
    rt = mres.term(mrets[0].value)
    if rt[0] != "tuple" or len(mqf.params) != 5:
        raise AnalysisError("_MatchQuantities does not return a tuple of maps / values: %s" % show(rt, 100))
    MP = [("param", i_, p_) for i_, p_ in enumerate(mqf.params)]
    pos = {}
    for j, el in enumerate(rt[1]):
        leaves = {x for x in walk(el) if x in MP[1:]}
        if el in (MP[1], MP[2]):
            pos["map%d" % MP.index(el)] = j
        elif leaves and leaves <= {MP[3]} | set(MP[1:3]) and MP[3] in leaves:
            pos["v1"] = j
        elif leaves and leaves <= {MP[4]} | set(MP[1:3]) and MP[4] in leaves:
            pos["v2"] = j
        else:
            pos.setdefault("other", []).append(j)
    pos["return"] = mrets[0]
    pos["n"] = len(rt[1])
    return pos


def r2_left_wins(rep, ctx):
    m = ctx.model
    fn, sh = _matchq(m)
    outer, order = sh.outer, sh.order
    rep.check(order == fn.params[1:3], "C03.R2", "_MatchQuantities:left-first", "unit matching visits the left operand's map before the right one's: the left unit is the reference",
              "unit matching visits %s: the right operand's unit becomes the reference, results come out in the right operand's units" % order, node=outer, fn=fn)
    # returned values (and maps, when they are handed back) keep their sides: every position of the result is
    # one operand's map or one operand's matched value, and the callers below take them from those positions
    pos = mq_convention(m)
    if "other" in pos:
        # a position of the result that is neither one operand's map nor derived from one operand's value alone (the
        # values travel in a shared container, a pair object ...): which side it belongs to cannot be read off
        raise AnalysisError("_MatchQuantities returns `%s`: position(s) %s cannot be attributed to one operand (the matched values do not travel in variables of their own)" % (norm(ast.unparse(pos["return"].value))[:80], pos["other"]))
    ok = "v1" in pos and "v2" in pos and "other" not in pos
    rep.check(ok, "C03.R2", "_MatchQuantities:returns-sides", "unit matching returns each operand's matched value (and map) at a position of its own", "unit matching returns %s: a position mixes the operands or one operand's value is missing" % ast.unparse(pos["return"].value), fn=fn)
    if not ok:
        return
    sq = m.method("UnitDatabase", "_DoOperationWithSameQuantity")
    sres = Resolver(m, sq)
    scfg = sres.cfg
    if scfg is None:
        raise AnalysisError("_DoOperationWithSameQuantity: no flow graph")

    def root(t):
        """The operand a quantity / unit-set term is taken from: follows receivers and set()/len()-like wrappers."""
        while True:
            if t[0] == "param":
                return t[1]
            if t[0] == "call" and t[1][0] == "attr":
                t = t[1][1]
            elif t[0] == "call" and t[1][0] == "name" and t[1][1] in ("set", "frozenset", "len", "tuple", "list", "sorted") and t[2]:
                t = t[2][0]
            else:
                return None

    def left_is_dimensionless(node):
        """Does the fact 'the left operand has no composing units' hold on every path to node?"""
        for k, l, r, pos in facts(scfg, node):
            if k == "eq" and pos:
                for x, y in ((l, r), (r, l)):
                    if isinstance(y, ast.Constant) and y.value == 0 and isinstance(x, ast.Call) and isinstance(x.func, ast.Name) and x.func.id == "len" and x.args:
                        t = sres.term(x.args[0])
                        if all(root(a_) == 1 and mentions(a_, lambda s_: s_[0] == "attr" and s_[2] == "GetComposingUnitsJoiningExponents") for a_ in alternatives(t)):
                            return True
            if k == "truth" and not pos:
                t = sres.term(l)
                if all(root(a_) == 1 and mentions(a_, lambda s_: s_[0] == "attr" and s_[2] == "GetComposingUnitsJoiningExponents") for a_ in alternatives(t)):
                    return True
        return False

    n = 0
    for r in sorted((x for x in own_nodes(sq.node) if isinstance(x, ast.Return) and isinstance(x.value, ast.Tuple) and len(x.value.elts) == 2), key=program_order(sq.node)):
        n += 1
        org = sres.origins(r.value.elts[0])
        chains = sres.origin_chains
        roots = set()
        ok = True
        for (st, t), chain in zip(org, chains):
            for a_ in alternatives(t):
                ro = root(a_)
                roots.add(ro)
                if ro == 2:
                    # the right operand's quantity may be the result only where the left one is dimensionless
                    if not any(left_is_dimensionless(scfg.node_of(x)) for x in chain + [r] if x is not None):
                        ok = False
                elif ro != 1:
                    ok = False
        ok = ok and 1 in roots
        v = sres.term(r.value.elts[1])

        def val_ok(t, pi, ti):
            for a_ in alternatives(t):
                if a_ == ("param", pi, sq.params[pi]):
                    continue
                if a_[0] == "sub" and a_[2] == ("const", ti) and a_[1][0] == "call" and a_[1][1] in (("field", "_MatchQuantities"),):
                    continue
                return False
            return True

        order_ok = v[0] == "call" and len(v[2]) == 2 and val_ok(v[2][0], 3, pos["v1"]) and val_ok(v[2][1], 4, pos["v2"])
        rep.check(ok and order_ok, "C03.R2", "same-quantity:result:%d" % n, "the result carries the left operand's quantity (the right one only when the left is dimensionless) and operation(value1, value2)",
                  "the result quantity derives from operand(s) %s%s / the value operation gets %s" % (sorted(x for x in roots if x), "" if ok else " (the right one without the left being dimensionless)", show(v, 100)), node=r, fn=sq)
    rep.floor("C03.R2", "result returns", n, 1)


def _value_side(fn, res, call):
    """Which operand's value a conversion call converts: 'value1' / 'value2' (the parameter its value argument
    derives from), else None."""
    sides = set()
    for a_ in call.args[3:4]:
        for x in walk(res.term(a_)):
            if x[0] == "param" and x[2] in fn.params[3:5]:
                sides.add(x[2])
    return next(iter(sides)) if len(sides) == 1 else None


def r3_exponent_flows(rep, ctx):
    m = ctx.model
    fn, sh = _matchq(m)
    res = Resolver(m, fn)
    total = 0
    for loop, _sides in sh.loops:
        unpacks = [st for st in own_statements(loop) if isinstance(st, ast.Assign) and isinstance(st.targets[0], ast.Tuple) and len(st.targets[0].elts) == 2
                   and isinstance(st.value, ast.Name)]
        if len(unpacks) != 1:
            raise AnalysisError("_MatchQuantities: the unpacking of a [unit, exp] entry was not found")
        unit_v, exp_v = (e.id for e in unpacks[0].targets[0].elts)
        convs = [c for c in own_nodes(loop) if isinstance(c, ast.Call) and isinstance(c.func, ast.Attribute) and c.func.attr in ("Convert", "_ConvertWithExp")]
        total += len(convs)
        # def-use: does the exponent reach any conversion (directly or through locals)?
        uses = [x for x in ast.walk(fn.node) if isinstance(x, ast.Name) and x.id == exp_v and isinstance(x.ctx, ast.Load)]
        for c in convs:
            reach = any(isinstance(x, ast.Name) and x.id == exp_v for x in ast.walk(c))
            if not reach and uses:
                # through a local
                tainted = {exp_v}
                changed = True
                while changed:
                    changed = False
                    for st in own_statements(fn.node):
                        if isinstance(st, ast.Assign) and isinstance(st.targets[0], ast.Name) and st.targets[0].id not in tainted and any(isinstance(x, ast.Name) and x.id in tainted for x in ast.walk(st.value)):
                            tainted.add(st.targets[0].id)
                            changed = True
                reach = any(isinstance(x, ast.Name) and x.id in tainted for x in ast.walk(c))
            side = _value_side(fn, res, c) or ("value1" if "value1" in ast.unparse(c) else "value2")
            rep.check(reach, "C03.R3", "_MatchQuantities:exponent-reaches-conversion:%s" % side,
                      "the exponent of the entry takes part in the conversion of %s" % side,
                      "the exponent (`%s`) of a composing entry never reaches the conversion of %s: `%s` scales the value by the plain unit ratio whatever the exponent, so 1 m2 + 10000 cm2 gives 101 m2"
                      % (exp_v, side, norm(ast.unparse(c))), node=c, fn=fn, facts={"exponent_variable": exp_v, "uses_of_exponent": len(uses)})
    rep.floor("C03.R3", "conversions in unit matching", total, 1)


def r4_dispatch(rep, ctx):
    m = ctx.model
    n = dispatch.check_dunders(rep, "C03.R4", m, "Scalar", kinds=("add", "sub"), with_lambda=True)
    n += dispatch.check_dunders(rep, "C03.R4", m, "Array", kinds=("add", "sub"))
    rep.floor("C03.R4", "add/sub dunders", n, 4)


def r5_label_and_value(rep, ctx, RID="C03.R5"):
    m = ctx.model
    fn, sh = _matchq(m)
    cfg = CFG(fn.node)
    res = Resolver(m, fn)
    rewrites = [st for st in own_statements(fn.node) if isinstance(st, ast.Assign) and isinstance(st.targets[0], ast.Subscript) and isinstance(st.targets[0].slice, ast.Constant) and st.targets[0].slice.value == 0]
    if not rewrites:
        raise AnalysisError("_MatchQuantities: the rewrite of an entry's unit (`entry[0] = reference unit`) was not found")
    # conversions of an operand's value: `<v> = self.Convert(<type>, <from>, <to>, <value derived from value1 / value2>)` whose result is
    # what the function hands back for that operand
    pos = mq_convention(m)
    conv_assigns = []
    for st in own_statements(fn.node):
        if isinstance(st, ast.Assign) and isinstance(st.value, ast.Call) and isinstance(st.value.func, ast.Attribute) and st.value.func.attr in ("Convert", "_ConvertWithExp") and isinstance(st.targets[0], ast.Name):
            side = st.targets[0].id if st.targets[0].id in fn.params[3:5] else None
            if side is None:
                side = _value_side(fn, res, st.value)
                k = {"value1": "v1", "value2": "v2"}.get(side)
                elts = pos["return"].value.elts if isinstance(pos["return"].value, ast.Tuple) else []
                if k is None or k not in pos or pos[k] >= len(elts) or not any(o is st for o, _t in res.origins(elts[pos[k]])):
                    side = None
            if side is not None:
                conv_assigns.append((st, side))
    all_convs = [c for c in own_nodes(fn.node) if isinstance(c, ast.Call) and isinstance(c.func, ast.Attribute) and c.func.attr in ("Convert", "_ConvertWithExp")]
    bound = {id(st.value) for st, _sd in conv_assigns}
    loose = [c for c in all_convs if id(c) not in bound]
    if loose:
        raise AnalysisError("_MatchQuantities: the result of `%s` is not bound to a variable holding one operand's value (unit-matching idiom changed): which side it converts cannot be read off" % norm(ast.unparse(loose[0]))[:80])
    loop_of = {}
    for loop, sides in sh.loops:
        for st in own_statements(loop):
            loop_of[id(st)] = (loop, sides)
    for rw in rewrites:
        if id(rw) not in loop_of:
            raise AnalysisError("_MatchQuantities: a unit rewrite outside the entry loops")
        loop, sides = loop_of[id(rw)]
        body_nodes = {cfg.node_of(st) for st in own_statements(loop)}
        R = cfg.node_of(rw)
        conv_nodes = {cfg.node_of(st) for st, _sd in conv_assigns if cfg.node_of(st) in body_nodes}
        # within one iteration of the entry loop: every path from the loop header to the rewrite passes a conversion
        header = cfg.node_of(loop)
        r_ = cfg.reach(header, avoid=conv_nodes | {header})
        ok = bool(conv_nodes) and R not in r_
        rep.check(ok, RID, "_MatchQuantities:rewrite-needs-conversion:%s" % norm(ast.unparse(rw)), "an entry's unit is rewritten to the reference unit only after that side's value was converted in the same iteration",
                  "an entry's unit label is rewritten to the reference unit on a path of the same iteration that does not convert the value (conversion skipped, cached or deferred): the label changes but the amount does not", node=rw, fn=fn,
                  facts={"entry": fn.qual, "offending_exit": "rewrite at line %d" % rw.lineno})
    # each conversion uses this entry's unit -> the reference unit of its quantity type, on its own side's value
    from ..facts import facts as nfacts
    unit_terms = set()
    for st in own_statements(fn.node):
        if isinstance(st, ast.Assign) and isinstance(st.targets[0], ast.Tuple) and len(st.targets[0].elts) == 2 and isinstance(st.value, ast.Name):
            unit_terms.add(res.term(st.targets[0].elts[0]))
    for st, side in conv_assigns:
        t = res.term(st.value)
        args = list(t[2]) if t[0] == "call" else []
        val_ok = len(args) == 4 and any(x == ("param", fn.params.index(side), side) for x in alternatives(args[3]))
        # the conversions of one side are chained: the value handed to a conversion is the running value, i.e. what an
        # earlier conversion of the same side left (an entry converted after another must not restart from the original)
        if val_ok and len(st.value.args) >= 4 and isinstance(st.value.args[3], ast.Name):
            val_ok = any(o is st for o, _t in res.origins(st.value.args[3]))
        from_ok = len(args) == 4 and args[1] in unit_terms
        to_ok = len(args) == 4 and args[2] != args[1] and any(x[0] == "call" and x[1][0] == "attr" and x[1][2] == "get" for x in alternatives(args[2]))
        want_map = fn.params[1] if side == fn.params[3] else fn.params[2]
        other_map = fn.params[2] if side == fn.params[3] else fn.params[1]
        side_ok = False
        if id(st) in loop_of and len(loop_of[id(st)][1]) == 1:
            # an entry loop of one map: it must be the map of the value's own side
            side_ok = loop_of[id(st)][1] == {fn.params.index(want_map)}
        # (pair loop) in the arm of its own map: a dominating `c is <map of that side>` fact
        P_want, P_other = ("param", fn.params.index(want_map), want_map), ("param", fn.params.index(other_map), other_map)
        for k, l_, r_, pos_ in nfacts(cfg, cfg.node_of(st)) if not (id(st) in loop_of and len(loop_of[id(st)][1]) == 1) else ():
            pos = pos_
            operands = None
            if k == "is" and l_ is not None and r_ is not None:
                operands = {res.term(l_), res.term(r_)}
            elif k == "truth":
                # a flag hoisted out of the loop: `is_first = c is <map>`
                tt_ = res.term(l_)
                if tt_[0] == "op" and tt_[1] in ("cmp:Is", "cmp:IsNot") and len(tt_[2]) == 2:
                    operands = set(tt_[2])
                    if tt_[1] == "cmp:IsNot":
                        pos = not pos
            if operands is not None:
                if P_want in operands and pos:
                    side_ok = True
                if P_other in operands and not pos:
                    side_ok = True
        rep.check(val_ok and from_ok and to_ok and side_ok, RID, "_MatchQuantities:convert:%s" % side, "%s is converted from the entry's unit to the reference unit, in the arm of its own map" % side,
                  "`%s` does not convert %s from the entry's unit to the reference unit in the arm of its own map (value %s, from %s, to %s, arm %s)" % (norm(ast.unparse(st)), side, val_ok, from_ok, to_ok, side_ok), node=st, fn=fn)
    rep.floor(RID, "value conversions in unit matching", len(conv_assigns), 1)
    # the reference unit is the first unit seen of the quantity type
    # (on terms: a store `REF[<quantity type of the entry's category>] = <the entry's unit>` into the local map that the
    # conversions read their target unit from, reached only where no reference unit was found for that quantity type)
    from ..accum import entry_path
    firsts = []
    for st in own_statements(fn.node):
        if isinstance(st, ast.Assign) and len(st.targets) == 1 and isinstance(st.targets[0], ast.Subscript) and isinstance(st.targets[0].value, ast.Name):
            kt, vt = res.term(st.targets[0].slice), res.term(st.value)
            key_ok = kt[0] == "call" and kt[1][0] in ("field", "attr") and (kt[1][1] if kt[1][0] == "field" else kt[1][2]) == "GetCategoryQuantityType" and kt[2] and entry_path(kt[2][0])[1] == (0,)
            val_ok = entry_path(vt)[1] == (1, 0)
            if key_ok:
                firsts.append((st, val_ok))
    ok = len(firsts) == len(sh.loops) and all(v_ for _, v_ in firsts) and len({ast.unparse(st_.targets[0].value) for st_, _ in firsts}) == 1
    if ok:
        # only where the lookup of a reference unit for this quantity type came back empty
        from ..facts import none_fact
        ok = all(any((nf := none_fact(f_)) is not None and nf[1] and any(x[0] == "call" and x[1][0] == "attr" and x[1][2] == "get" for x in walk(res.term(nf[0]))) for f_ in nfacts(cfg, cfg.node_of(st_))) for st_, _ in firsts)
    rep.check(ok, RID, "_MatchQuantities:reference-unit", "the first unit met for a quantity type becomes its reference unit", "the reference unit of a quantity type is not the first unit met for it", fn=fn)
