"""C04  Multiply/divide: dimension exponents add, base-unit magnitudes multiply."""
import ast

from .. import dispatch
from ..cfg import CFG
from ..report import AnalysisError, borrow, norm
from ..srcmodel import own_nodes, own_statements
from ..terms import Resolver, alternatives, show, walk

PROP = "C04"
EXHAUSTIVE = False
EXPLANATION = (
    "R1 operator dispatch table (exhaustive, sibling agreement): for Scalar and Array each of add, sub, mul, truediv, "
    "floordiv in normal and reflected form exists, names the matching database operation, passes (self, other) resp. "
    "(other, self), and Scalar's number callback is the same operator. R2 exponent/value operation table: Multiply hands "
    "(a+b, a*b), Divide (a-b, a/b), FloorDivide (a-b, a//b) with the unchanged operands to the new-quantity routine. "
    "R3 exponent merge and zero removal: entries of the right operand are merged into the left map with "
    "operation_exp(exp1, exp2) in that order (0 for a category the left side lacks); every path to CreateDerived passes "
    "the removal loop, whose deletion test covers 'own exponent is 0' and 'per-unit total is 0'; the value operation gets "
    "(value1, value2) in order. R4 __pow__ is the (n-1)-fold product starting from self. R5 unit matching (shared with "
    "C03): the value is converted whenever an entry's unit label is rewritten, and the exponent must reach the "
    "conversion (it does not today: recorded finding)."
)
ASSUMPTIONS = []
TRUSTED = []


def run(rep, ctx):
    rep.run_rule("C04.R1", "every binary dunder of Scalar and Array dispatches to the matching operation with the right operand order", r1_dispatch, ctx)
    rep.run_rule("C04.R2", "Multiply/Divide/FloorDivide hand the matching exponent and value operators to the new-quantity routine", r2_op_table, ctx)
    rep.run_rule("C04.R3", "exponents are merged in operand order, zero exponents are removed on every path, values are combined in order", r3_merge_and_removal, ctx)
    rep.run_rule("C04.R4", "__pow__ multiplies self exponent-1 times", r4_pow, ctx)
    from . import c03
    rep.rule("C04.R5", "unit matching converts the value whenever it rewrites a unit label, scaled by the entry's exponent (shared with C03.R3/R5)")
    for fn_, old in ((c03.r3_exponent_flows, "C03.R3"), (c03.r5_label_and_value, "C03.R5")):
        try:
            if old == "C03.R5":
                fn_(rep, ctx, "C04.R5")
            else:
                borrow(rep, fn_, ctx, old, "C04.R5")
        except AnalysisError as e:
            rep.error("C04.R5", str(e))
    rep.not_decided += [
        "the numeric magnitude of products and quotients (arithmetic on runtime values)",
        "comparison with an independent dimensional-analysis model",
    ]


def r1_dispatch(rep, ctx):
    m = ctx.model
    n = dispatch.check_dunders(rep, "C04.R1", m, "Scalar", with_lambda=True)
    n += dispatch.check_dunders(rep, "C04.R1", m, "Array")
    rep.floor("C04.R1", "dunders", n, 20)
    # FixedArray inherits Array's operators (no override that bypasses them)
    for d in ("__mul__", "__truediv__", "__add__", "__sub__", "__floordiv__"):
        own = m.classes["FixedArray"].methods.get(d)
        rep.check(own is None, "C04.R1", "FixedArray.%s:inherited" % d, "FixedArray uses Array.%s" % d, "FixedArray overrides %s" % d, fn=own or m.method("Array", d))


def r2_op_table(rep, ctx):
    m = ctx.model
    for opname in ("Multiply", "Divide", "FloorDivide"):
        fn, ret, callee, lams, args = dispatch.db_operation_facts(m, opname)
        want_exp, want_val = dispatch.DB_OPS[opname]
        why = []
        if callee != "_DoOperationResultingInNewQuantity":
            why.append("delegates to %s instead of the new-quantity routine" % callee)
        if args != fn.params[1:5]:
            why.append("passes %s instead of the unchanged (quantity1, quantity2, value1, value2)" % args)
        if len(lams) != 2 or None in lams:
            why.append("does not pass two plain `lambda a, b: a OP b` operators")
        else:
            if lams[0] != (want_exp, False):
                why.append("exponents are combined with %s%s, expected %s" % (lams[0][0].__name__, " (swapped)" if lams[0][1] else "", want_exp.__name__))
            if lams[1] != (want_val, False):
                why.append("values are combined with %s%s, expected %s" % (lams[1][0].__name__, " (swapped)" if lams[1][1] else "", want_val.__name__))
        rep.check(not why, "C04.R2", "UnitDatabase.%s" % opname, "%s: exponents %s, values %s" % (opname, want_exp.__name__, want_val.__name__), "UnitDatabase.%s %s" % (opname, "; ".join(why)), node=ret, fn=fn)
    # the routine's parameters are in (exponent operator, value operator) order
    nq = m.method("UnitDatabase", "_DoOperationResultingInNewQuantity")
    rep.check(nq.params[5:7] == ["operation_exp", "operation"], "C04.R2", "new-quantity:parameter-order", "the routine takes (operation_exp, operation) in that order", "the routine's operator parameters are %s" % nq.params[5:7], fn=nq)


def r3_merge_and_removal(rep, ctx):
    m = ctx.model
    fn = m.method("UnitDatabase", "_DoOperationResultingInNewQuantity")
    cfg = CFG(fn.node)
    res = Resolver(m, fn, flow=False)
    # exponent merges: operation_exp(<left exponent or 0>, <right exponent>)
    calls = [c for c in own_nodes(fn.node) if isinstance(c, ast.Call) and isinstance(c.func, ast.Name) and c.func.id == "operation_exp"]
    rep.floor("C04.R3", "exponent merges", len(calls), 2)
    rres = Resolver(m, fn)
    def from_map(t, which):
        # an exponent taken out of map 1 / map 2 (position 1 of a [unit, exp] entry)
        return all(any(s == ("param", which, fn.params[which]) for s in walk(a)) and a[0] == "sub" and a[2] == ("const", 1) for a in alternatives(t))
    zero_seen = False
    for c in calls:
        a0, a1 = (rres.term(x) for x in c.args[:2]) if len(c.args) == 2 else (None, None)
        left_ok = a0 is not None and (a0 == ("const", 0) or from_map(a0, 1) or all(x == ("const", 0) or (x[0] == "sub" and x[2] == ("const", 1)) for x in alternatives(a0)))
        right_ok = a1 is not None and all(x[0] == "sub" and x[2] == ("const", 1) for x in alternatives(a1)) and a0 != a1
        if a0 is not None and any(x == ("const", 0) for x in alternatives(a0)):
            zero_seen = True
        names = [ast.unparse(x) for x in c.args]
        order_ok = names[0] in ("exp1", "0") and names[1] == "exp2" if all(n_ in ("exp1", "exp2", "0") for n_ in names) else (left_ok and right_ok)
        rep.check(bool(order_ok), "C04.R3", "merge:%d" % calls.index(c), "exponents are combined as operation_exp(left, right)", "exponents are combined as %s" % ast.unparse(c), node=c, fn=fn)
    rep.check(zero_seen, "C04.R3", "merge:missing-category-has-exponent-0", "a category the left operand lacks enters with exponent 0", "no merge combines exponent 0 for a category missing on the left", fn=fn)
    # the unit stored for a merged-in category is the right operand's unit
    # removal loop
    dels = [d for d in own_nodes(fn.node) if isinstance(d, ast.Delete)]
    if len(dels) != 1:
        rep.bad("C04.R3", "removal:loop", "the removal of zero-exponent categories was not found (%d deletions): a / a keeps 'length ** 0' factors" % len(dels), fn=fn)
        return
    d = dels[0]
    par = d._parent
    # the condition under which a category is deleted: the enclosing `if`, or - when the keys are
    # collected first - the filter of the comprehension that the deletion loop iterates
    cond = None
    if isinstance(par, ast.If):
        cond = par.test
    elif isinstance(par, ast.For) and isinstance(par.iter, ast.Name):
        for st in own_statements(fn.node):
            if isinstance(st, ast.Assign) and isinstance(st.targets[0], ast.Name) and st.targets[0].id == par.iter.id and isinstance(st.value, (ast.ListComp, ast.SetComp, ast.GeneratorExp)) \
                    and len(st.value.generators) == 1 and len(st.value.generators[0].ifs) == 1:
                cond = st.value.generators[0].ifs[0]
    if cond is None:
        raise AnalysisError("new-quantity routine: the condition under which a category is removed was not recognised")
    tests = cond.values if isinstance(cond, ast.BoolOp) and isinstance(cond.op, ast.Or) else [cond]
    def zero_cmp(x):
        return isinstance(x, ast.Compare) and len(x.ops) == 1 and isinstance(x.ops[0], ast.Eq) and (
            (isinstance(x.comparators[0], ast.Constant) and x.comparators[0].value == 0 and x.left) or (isinstance(x.left, ast.Constant) and x.left.value == 0 and x.comparators[0]))
    own_zero = any(zero_cmp(x) and isinstance(zero_cmp(x), ast.Name) for x in tests)
    total_zero = any(zero_cmp(x) and isinstance(zero_cmp(x), ast.Subscript) for x in tests)
    rep.check(own_zero and total_zero, "C04.R3", "removal:test", "a category is dropped when its own exponent is 0 or the total exponent of its unit is 0",
              "the removal test `%s` does not cover %s" % (ast.unparse(cond), "'own exponent is 0'" if not own_zero else "'per-unit total is 0'"), node=d, fn=fn)
    create = [c for c in own_nodes(fn.node) if isinstance(c, ast.Call) and isinstance(c.func, ast.Attribute) and c.func.attr in ("CreateDerived", "_CreateDerived")]
    if len(create) != 1:
        raise AnalysisError("new-quantity routine: CreateDerived call not found")
    loop = d
    while loop is not None and not isinstance(loop, ast.For):
        loop = getattr(loop, "_parent", None)
    L = cfg.node_of(loop)
    dom = cfg.dominated_by_node(cfg.node_of(create[0]), lambda k, a: a is loop)
    rep.check(dom, "C04.R3", "removal:dominates-creation", "every path to CreateDerived passes the removal loop", "a path reaches CreateDerived without passing the removal loop", node=create[0], fn=fn)
    arg = res.term(create[0].args[0]) if create[0].args else None
    rep.check(ast.unparse(create[0].args[0]) == ast.unparse(d.targets[0].value) if create[0].args else False, "C04.R3", "removal:same-map", "the cleaned map is the one the result is created from", "CreateDerived is given another map than the one that was cleaned", node=create[0], fn=fn)
    # per-unit totals accumulate the exponent
    acc = [st for st in own_statements(fn.node) if isinstance(st, ast.Assign) and isinstance(st.targets[0], ast.Subscript) and "only_units_expoents" in ast.unparse(st.targets[0])]
    ok = len(acc) == 1 and ast.unparse(acc[0].value).replace(" ", "") in ("existing+exp", "exp+existing", "only_units_expoents.get(unit,0)+exp", "exp+only_units_expoents.get(unit,0)")
    rep.check(ok, "C04.R3", "removal:per-unit-total", "the per-unit total adds up the exponents of all categories using that unit", "the per-unit total is %s" % [ast.unparse(a.value) for a in acc], fn=fn)
    # value operation
    rets = [r for r in own_nodes(fn.node) if isinstance(r, ast.Return) and isinstance(r.value, ast.Tuple)]
    ok = len(rets) == 1 and ast.unparse(rets[0].value.elts[1]) == "operation(value1, value2)" and ast.unparse(rets[0].value.elts[0]) == ast.unparse(create[0]._parent.targets[0]) if isinstance(create[0]._parent, ast.Assign) else False
    rep.check(bool(ok), "C04.R3", "result", "the result is (created quantity, operation(value1, value2))", "the result is %s" % (ast.unparse(rets[0].value) if rets else None), fn=fn)
    # both maps are matched copies of the operands' maps, left and right in order
    copies = [st for st in own_statements(fn.node) if isinstance(st, ast.Assign) and isinstance(st.value, ast.Call) and isinstance(st.value.func, ast.Attribute) and st.value.func.attr == "GetCategoryToUnitAndExpsCopy"]
    ok = [(ast.unparse(st.targets[0]), ast.unparse(st.value.func.value)) for st in copies] == [("category_to_unit_and_exp1", "quantity1"), ("category_to_unit_and_exp2", "quantity2")]
    rep.check(ok, "C04.R3", "operands-in-order", "map 1 is a copy of the left operand's map and map 2 of the right one's", "the working maps are %s" % [(ast.unparse(st.targets[0]), ast.unparse(st.value.func.value)) for st in copies], fn=fn)


def r4_pow(rep, ctx):
    m = ctx.model
    for cname in ("Scalar",):
        fn = m.own_method(cname, "__pow__")
        if fn is None:
            raise AnalysisError("%s.__pow__ not found" % cname)
        body = [st for st in fn.node.body if not (isinstance(st, ast.Expr) and isinstance(st.value, ast.Constant))]
        ok = len(body) == 3 and isinstance(body[0], ast.Assign) and ast.unparse(body[0]) == "result = self" and isinstance(body[1], ast.For) and isinstance(body[2], ast.Return) and ast.unparse(body[2]) == "return result"
        if not ok:
            raise AnalysisError("%s.__pow__ is not the 'result = self; for _ in range(exponent - 1): result = result * self; return result' idiom: the checker cannot tell whether another algorithm computes the n-fold product" % cname)
        lp = body[1]
        rng = ast.unparse(lp.iter).replace(" ", "")
        step = [ast.unparse(s).replace(" ", "") for s in lp.body]
        import re
        if not re.fullmatch(r"range\(exponent([+-]\d+)?\)", rng) or len(step) != 1 or not re.fullmatch(r"result=(result\*self|self\*result|result\*result|self\*self)", step[0]):
            raise AnalysisError("%s.__pow__ is not the linear 'multiply exponent-1 times' idiom (loop over %s doing %s): the checker cannot tell whether another algorithm computes the n-fold product" % (cname, rng, step))
        rep.check(rng == "range(exponent-1)", "C04.R4", "%s.__pow__:count" % cname, "the loop runs exponent - 1 times", "the loop runs %s times: a ** n is not the n-fold product" % rng, node=lp, fn=fn)
        rep.check(step in (["result=result*self"], ["result=self*result"]), "C04.R4", "%s.__pow__:step" % cname, "each step multiplies the running result by self", "each step does %s" % step, node=lp, fn=fn)
