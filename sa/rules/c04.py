"""C04  Multiply/divide: dimension exponents add, base-unit magnitudes multiply."""
import ast

from .. import dispatch
from ..cfg import CFG
from ..report import AnalysisError, borrow, norm
from ..srcmodel import own_nodes, own_statements, program_order
from ..terms import Resolver, alternatives, show, walk

PROP = "C04"
EXHAUSTIVE = False
EXPLANATION = (
    "R1 operator dispatch table (exhaustive, sibling agreement): for Scalar and Array each of add, sub, mul, truediv, "
    "floordiv in normal and reflected form exists, names the matching database operation, passes (self, other) resp. "
    "(other, self), and Scalar's number callback is the same operator. R2 exponent/value operation table: Multiply hands "
    "(a+b, a*b), Divide (a-b, a/b), FloorDivide (a-b, a//b) with the unchanged operands to the new-quantity routine. "
    "R3 exponent merge and zero removal: entries of the right operand are merged into the left map with "
    "operation_exp(exp1, exp2) in that order (0 for a category the left side lacks); every path to CreateDerived passes "
    "the removal loop, whose deletion test covers 'own exponent is 0' and 'per-unit total is 0'; the value operation gets "
    "(value1, value2) in order. R4 __pow__ is the (n-1)-fold product starting from self. R5 unit matching (shared with "
    "C03): the value is converted whenever an entry's unit label is rewritten, and the exponent must reach the "
    "conversion (it does not today: recorded finding)."
)
ASSUMPTIONS = []
TRUSTED = []


def run(rep, ctx):
    rep.run_rule("C04.R1", "every binary dunder of Scalar and Array dispatches to the matching operation with the right operand order", r1_dispatch, ctx)
    rep.run_rule("C04.R2", "Multiply/Divide/FloorDivide hand the matching exponent and value operators to the new-quantity routine", r2_op_table, ctx)
    rep.run_rule("C04.R3", "exponents are merged in operand order, zero exponents are removed on every path, values are combined in order", r3_merge_and_removal, ctx)
    from . import c13
    rep.rule("C04.R6", "the conversions applied while matching units leave the operands' stored values alone (shared with C13.R5)")
    try:
        borrow(rep, c13.r5_no_inplace_in_conversions, ctx, "C13.R5", "C04.R6")
    except AnalysisError as e:
        rep.error("C04.R6", str(e))
    rep.run_rule("C04.R4", "__pow__ multiplies self exponent-1 times", r4_pow, ctx)
    from . import c03
    rep.rule("C04.R5", "unit matching converts the value whenever it rewrites a unit label, scaled by the entry's exponent (shared with C03.R3/R5)")
    for fn_, old in ((c03.r3_exponent_flows, "C03.R3"), (c03.r5_label_and_value, "C03.R5")):
        try:
            if old == "C03.R5":
                fn_(rep, ctx, "C04.R5")
            else:
                borrow(rep, fn_, ctx, old, "C04.R5")
        except AnalysisError as e:
            rep.error("C04.R5", str(e))
    from . import c20
    rep.rule("C04.R7", "the quantity-type and unit-name descriptions of a product or quotient sum the exponents of every category per quantity type / unit name (shared with C20.R5)")
    try:
        borrow(rep, c20.r5_sources, ctx, "C20.R5", "C04.R7", keep=lambda o: "Quantity.__init__" in o.key or "GetUnitName" in o.key or o.key.startswith("joined-exponents"))
    except AnalysisError as e:
        rep.error("C04.R7", str(e))
    rep.not_decided += [
        "the numeric magnitude of products and quotients (arithmetic on runtime values)",
        "comparison with an independent dimensional-analysis model",
    ]


def r1_dispatch(rep, ctx):
    m = ctx.model
    n = dispatch.check_dunders(rep, "C04.R1", m, "Scalar", with_lambda=True)
    n += dispatch.check_dunders(rep, "C04.R1", m, "Array")
    rep.floor("C04.R1", "dunders", n, 10)
    # FixedArray inherits Array's operators (no override that bypasses them)
    for d in ("__mul__", "__truediv__", "__add__", "__sub__", "__floordiv__"):
        own = m.classes["FixedArray"].methods.get(d)
        rep.check(own is None, "C04.R1", "FixedArray.%s:inherited" % d, "FixedArray uses Array.%s" % d, "FixedArray overrides %s" % d, fn=own or m.method("Array", d))


def r2_op_table(rep, ctx):
    m = ctx.model
    for opname in ("Multiply", "Divide", "FloorDivide"):
        fn, ret, callee, lams, args = dispatch.db_operation_facts(m, opname)
        want_exp, want_val = dispatch.DB_OPS[opname]
        why = []
        for xr in dispatch.db_operation_facts.extra_returns:
            rep.bad("C04.R2", "UnitDatabase.%s:extra-return:%s" % (opname, norm(ast.unparse(xr))[:50]), "UnitDatabase.%s can return `%s` without going through the shared new-quantity routine: exponents are not merged / values not combined by the one algorithm the other clauses are checked on"
                    % (opname, norm(ast.unparse(xr))[:80]), node=xr, fn=fn)
        if callee != "_DoOperationResultingInNewQuantity":
            why.append("delegates to %s instead of the new-quantity routine" % callee)
        if args != fn.params[1:5]:
            why.append("passes %s instead of the unchanged (quantity1, quantity2, value1, value2)" % args)
        if len(lams) != 2 or None in lams:
            why.append("does not pass two plain `lambda a, b: a OP b` operators")
        else:
            if lams[0] != (want_exp, False):
                why.append("exponents are combined with %s%s, expected %s" % (lams[0][0].__name__, " (swapped)" if lams[0][1] else "", want_exp.__name__))
            if lams[1] != (want_val, False):
                why.append("values are combined with %s%s, expected %s" % (lams[1][0].__name__, " (swapped)" if lams[1][1] else "", want_val.__name__))
        rep.check(not why, "C04.R2", "UnitDatabase.%s" % opname, "%s: exponents %s, values %s" % (opname, want_exp.__name__, want_val.__name__), "UnitDatabase.%s %s" % (opname, "; ".join(why)), node=ret, fn=fn)
    # the routine's parameters are in (exponent operator, value operator) order
    nq = m.method("UnitDatabase", "_DoOperationResultingInNewQuantity")
    rep.check(nq.params[5:7] == ["operation_exp", "operation"], "C04.R2", "new-quantity:parameter-order", "the routine takes (operation_exp, operation) in that order", "the routine's operator parameters are %s" % nq.params[5:7], fn=nq)


def r3_merge_and_removal(rep, ctx):
    """On terms: with MQ = self._MatchQuantities(copy of the left map, copy of the right map, value1, value2),
    MAP1 = MQ[0], MAP2 = MQ[1]: the exponents of MAP2's entries are merged into MAP1 by operation_exp(left, right),
    zero exponents (own, or per-unit total over MAP1) are deleted from MAP1 on every path to CreateDerived(MAP1),
    and the result is (that quantity, operation(MQ[2], MQ[3]))."""
    from ..accum import accumulations, entry_path

    m = ctx.model
    fn = m.method("UnitDatabase", "_DoOperationResultingInNewQuantity")
    cfg = CFG(fn.node)
    res = Resolver(m, fn)
    P = {p_: ("param", i_, p_) for i_, p_ in enumerate(fn.params)}
    mq = [c for c in own_nodes(fn.node) if isinstance(c, ast.Call) and res.term(c.func) == ("field", "_MatchQuantities")]
    if len(mq) != 1:
        raise AnalysisError("new-quantity routine: expected one call of _MatchQuantities, found %d" % len(mq))
    MQ = res.term(mq[0])

    def copy_of(q):
        return ("call", ("attr", P[q], "GetCategoryToUnitAndExpsCopy"), (), ())

    ok = MQ[0] == "call" and list(MQ[2]) == [copy_of("quantity1"), copy_of("quantity2"), P["value1"], P["value2"]]
    rep.check(ok, "C04.R3", "operands-in-order", "map 1 is a copy of the left operand's map and map 2 of the right one's", "the working maps are matched as %s" % show(MQ, 200), node=mq[0], fn=fn)
    # the calling convention of _MatchQuantities, read from its return: which positions hand back the two maps
    # (they are matched in place, so a map that is not returned is the object that was passed) and the two values
    from .c03 import mq_convention
    pos = mq_convention(m)
    if "v1" not in pos or "v2" not in pos:
        raise AnalysisError("_MatchQuantities: the positions of the two matched values in its result were not recognised: %s" % ast.unparse(pos["return"].value))
    arg = list(MQ[2]) if MQ[0] == "call" else [None] * 4
    MAP1 = ("sub", MQ, ("const", pos["map1"])) if "map1" in pos else arg[0]
    MAP2 = ("sub", MQ, ("const", pos["map2"])) if "map2" in pos else arg[1]
    V1, V2 = ("sub", MQ, ("const", pos["v1"])), ("sub", MQ, ("const", pos["v2"]))
    # exponent merges: operation_exp(<left exponent or 0>, <right exponent>)
    calls = [c for c in own_nodes(fn.node) if isinstance(c, ast.Call) and res.term(c.func) == P["operation_exp"]]
    rep.floor("C04.R3", "exponent merges", len(calls), 1)
    zero_seen = False
    for i_, c in enumerate(sorted(calls, key=program_order(fn.node))):
        a0, a1 = (res.term(x) for x in c.args[:2]) if len(c.args) == 2 else (None, None)

        def left_exp(t):
            # MAP1[<category of a MAP2 entry>][1]
            if not (t[0] == "sub" and t[2] == ("const", 1)):
                return False
            e = t[1]
            if e[0] == "sub" and e[1] == MAP1:
                return entry_path(e[2]) == (MAP2, (0,))
            # MAP1.get(<category>)[1] (the entry is known to exist on this path)
            return e[0] == "call" and e[1] == ("attr", MAP1, "get") and len(e[2]) >= 1 and entry_path(e[2][0]) == (MAP2, (0,))

        # (homogeneous: either the literal 0 of a category the left operand lacks, or the left entry's own
        # exponent - a mix means a stale exponent of an earlier entry can reach this merge)
        left_ok = a0 is not None and (all(x == ("const", 0) for x in alternatives(a0)) or all(left_exp(x) for x in alternatives(a0)))
        right_ok = a1 is not None and all(entry_path(x) == (MAP2, (1, 1)) for x in alternatives(a1))
        if a0 is not None and any(x == ("const", 0) for x in alternatives(a0)):
            zero_seen = True
        rep.check(bool(left_ok and right_ok), "C04.R3", "merge:%d" % i_, "exponents are combined as operation_exp(left, right)", "exponents are combined as %s" % ast.unparse(c), node=c, fn=fn)
    rep.check(zero_seen, "C04.R3", "merge:missing-category-has-exponent-0", "a category the left operand lacks enters with exponent 0", "no merge combines exponent 0 for a category missing on the left", fn=fn)
    # removal of cancelled categories
    dels = [d for d in own_nodes(fn.node) if isinstance(d, ast.Delete)]
    if len(dels) != 1:
        rep.bad("C04.R3", "removal:loop", "the removal of zero-exponent categories was not found (%d deletions): a / a keeps 'length ** 0' factors" % len(dels), fn=fn)
        return
    d = dels[0]
    par = d._parent
    # the condition under which a category is deleted: the enclosing `if`, or - when the keys are
    # collected first - the filter of the comprehension that the deletion loop iterates
    cond, cond_env = None, None
    if isinstance(par, ast.If):
        cond = par.test
    elif isinstance(par, ast.For) and isinstance(par.iter, ast.Name):
        for st, _t in res.origins(par.iter):
            if st is not None and isinstance(st, (ast.Assign, ast.AnnAssign)) and isinstance(st.value, (ast.ListComp, ast.SetComp, ast.GeneratorExp)) \
                    and len(st.value.generators) == 1 and len(st.value.generators[0].ifs) == 1:
                cond = st.value.generators[0].ifs[0]
                cond_env = st.value
    if cond is None:
        raise AnalysisError("new-quantity routine: the condition under which a category is removed was not recognised")
    tests = cond.values if isinstance(cond, ast.BoolOp) and isinstance(cond.op, ast.Or) else [cond]

    def term_in_cond(x):
        if cond_env is None:
            return res.term(x)
        # inside the comprehension: bind its variables
        ce = {}
        g = cond_env.generators[0]
        res._bind_comp(g.target, ("elem", res.term(g.iter)), ce)
        return res.term(x, _compenv=ce)

    def zero_cmp(x):
        if isinstance(x, ast.Compare) and len(x.ops) == 1 and isinstance(x.ops[0], ast.Eq):
            for l_, r_ in ((x.left, x.comparators[0]), (x.comparators[0], x.left)):
                if isinstance(r_, ast.Constant) and r_.value == 0 and not isinstance(r_.value, bool):
                    return term_in_cond(l_)
        return None

    accs = [a_ for a_ in accumulations(m, fn, res) if entry_path(a_["added"]) == (MAP1, (1, 1)) and entry_path(a_["key"]) == (MAP1, (1, 0)) and not a_["conditional"]]
    zs = [z for z in (zero_cmp(x) for x in tests) if z is not None]
    own_zero = any(entry_path(z) == (MAP1, (1, 1)) for z in zs)
    def total_read(z):
        """totals[unit] / totals.get(unit, 0): the key read"""
        if z[0] == "sub":
            return z[2]
        if z[0] == "call" and z[1][0] == "attr" and z[1][2] == "get" and len(z[2]) == 2 and z[2][1] == ("const", 0) and not z[3]:
            return z[2][0]
        return None

    total_zero = any(total_read(z) is not None and entry_path(total_read(z)) == (MAP1, (1, 0)) for z in zs)
    rep.check(own_zero and total_zero, "C04.R3", "removal:test", "a category is dropped when its own exponent is 0 or the total exponent of its unit is 0",
              "the removal test `%s` does not cover %s" % (ast.unparse(cond), "'own exponent is 0'" if not own_zero else "'per-unit total is 0'"), node=d, fn=fn)
    create = [c for c in own_nodes(fn.node) if isinstance(c, ast.Call) and isinstance(c.func, ast.Attribute) and c.func.attr in ("CreateDerived", "_CreateDerived")]
    if not create:
        raise AnalysisError("new-quantity routine: CreateDerived call not found")
    loop = d
    while loop is not None and not isinstance(loop, ast.For):
        loop = getattr(loop, "_parent", None)
    for ci_, cr in enumerate(sorted(create, key=program_order(fn.node))):
        # (every creation of the result - a fast path included - comes after the removal of cancelled categories)
        sfx = "" if len(create) == 1 else ":%d" % ci_
        dom = cfg.dominated_by_node(cfg.node_of(cr), lambda k, a: a is loop)
        rep.check(dom, "C04.R3", "removal:dominates-creation" + sfx, "every path to CreateDerived passes the removal loop", "a path reaches `%s` without passing the removal of the cancelled (exponent 0) categories: a * (b / a) keeps a 'a ** 0' factor and is not equal to b" % norm(ast.unparse(cr))[:60], node=cr, fn=fn)
        same = bool(cr.args) and res.term(cr.args[0]) == MAP1 and isinstance(d.targets[0], ast.Subscript) and res.term(d.targets[0].value) == MAP1
        rep.check(same, "C04.R3", "removal:same-map" + sfx, "the cleaned map is the one the result is created from", "CreateDerived is given another map than the one that was cleaned", node=cr, fn=fn)
    # per-unit totals accumulate the exponent of every entry
    rep.check(len(accs) == 1, "C04.R3", "removal:per-unit-total", "the per-unit total adds up the exponents of all categories using that unit",
              "the per-unit total is not `total[unit] = total.get(unit, 0) + exponent` over every entry of the merged map", fn=fn)
    # value operation
    rets = [r for r in own_nodes(fn.node) if isinstance(r, ast.Return) and r.value is not None]
    wants = [("tuple", (res.term(cr), ("call", P["operation"], (V1, V2), ()))) for cr in create]
    ok = bool(rets) and all(any(a_ in wants for a_ in alternatives(res.term(r.value))) and all(a_ in wants for a_ in alternatives(res.term(r.value))) for r in rets)
    rep.check(bool(ok), "C04.R3", "result", "the result is (created quantity, operation(value1, value2))", "the result is %s" % (show(res.term(rets[0].value), 200) if rets else None), fn=fn)


def r4_pow(rep, ctx):
    m = ctx.model
    for cname in ("Scalar",):
        fn = m.own_method(cname, "__pow__")
        if fn is None:
            raise AnalysisError("%s.__pow__ not found" % cname)
        body = [st for st in fn.node.body if not (isinstance(st, ast.Expr) and isinstance(st.value, ast.Constant))]
        selfn = fn.params[0]
        expn = fn.params[1] if len(fn.params) > 1 else None
        # shape: ACC = self; for <unused> in range(<count>): ACC = <product>; return ACC   (whatever ACC is called)
        ok = len(body) == 3 and isinstance(body[0], ast.Assign) and len(body[0].targets) == 1 and isinstance(body[0].targets[0], ast.Name) and isinstance(body[0].value, ast.Name) and body[0].value.id == selfn \
            and isinstance(body[1], ast.For) and not body[1].orelse and isinstance(body[2], ast.Return) and isinstance(body[2].value, ast.Name) and body[2].value.id == body[0].targets[0].id
        if not ok:
            raise AnalysisError("%s.__pow__ is not the 'result = self; for _ in range(exponent - 1): result = result * self; return result' idiom: the checker cannot tell whether another algorithm computes the n-fold product" % cname)
        acc = body[0].targets[0].id
        lp = body[1]
        loopvars = {x.id for x in ast.walk(lp.target) if isinstance(x, ast.Name)}
        it = lp.iter
        count = None  # offset k of `range(exponent + k)`
        if isinstance(it, ast.Call) and isinstance(it.func, ast.Name) and it.func.id == "range" and len(it.args) == 1 and not it.keywords:
            x = it.args[0]
            if isinstance(x, ast.Name) and x.id == expn:
                count = 0
            elif isinstance(x, ast.BinOp) and isinstance(x.op, (ast.Add, ast.Sub)) and isinstance(x.left, ast.Name) and x.left.id == expn and isinstance(x.right, ast.Constant) and type(x.right.value) is int:
                count = x.right.value if isinstance(x.op, ast.Add) else -x.right.value
        step = None  # the two factors of `ACC = a * b`
        if len(lp.body) == 1 and isinstance(lp.body[0], ast.Assign) and len(lp.body[0].targets) == 1 and isinstance(lp.body[0].targets[0], ast.Name) and lp.body[0].targets[0].id == acc \
                and isinstance(lp.body[0].value, ast.BinOp) and isinstance(lp.body[0].value.op, ast.Mult) and all(isinstance(z, ast.Name) and z.id in (acc, selfn) for z in (lp.body[0].value.left, lp.body[0].value.right)):
            step = sorted(("acc" if z.id == acc else "self") for z in (lp.body[0].value.left, lp.body[0].value.right))
        if count is None or step is None or any(isinstance(z, ast.Name) and z.id in loopvars for z in ast.walk(lp.body[0])):
            raise AnalysisError("%s.__pow__ is not the linear 'multiply exponent-1 times' idiom (loop over %s doing %s): the checker cannot tell whether another algorithm computes the n-fold product" % (cname, ast.unparse(it), [ast.unparse(z) for z in lp.body]))
        rep.check(count == -1, "C04.R4", "%s.__pow__:count" % cname, "the loop runs exponent - 1 times", "the loop runs %s times: a ** n is not the n-fold product" % ast.unparse(it), node=lp, fn=fn)
        rep.check(step == ["acc", "self"], "C04.R4", "%s.__pow__:step" % cname, "each step multiplies the running result by self", "each step does %s" % ast.unparse(lp.body[0]), node=lp, fn=fn)
