"""C05  Dimensionally incompatible operations fail loudly and change nothing."""
import ast

from ..cfg import CFG
from ..facts import edge_facts, facts as nfacts, none_fact
from ..report import AnalysisError, borrow, norm
from ..srcmodel import own_nodes, own_statements, program_order
from ..terms import Resolver, alternatives, show, walk

PROP = "C05"
EXHAUSTIVE = False
EXPLANATION = (
    "R1 addition/subtraction: in the same-quantity operation every path to the value operation either found the two "
    "quantities equal or passed the comparison of the joined composing units; when they differ only an emptiness test of "
    "one side (the dimensionless exemption) continues, everything else must-raise InvalidOperationError. R2 guarded "
    "selection in GetInfo: every UnitInfo it can return was selected under a unit-equality fact for the requested (or "
    "legacy-rewritten) unit AND a quantity-type fact for the requested quantity type - except the arm dominated by "
    "quantity_type == 'Unknown' (the stated exemption); this is what makes conversion to a unit of another quantity type "
    "raise. R3 CheckCategoryUnit has no normal exit except through a positive verdict; the positive verdict is assigned "
    "only after the quantity-type/unit check returned, the handler assigns the negative one. R4 exponent-mismatch and "
    "composed-unit raises dominate the computation of _ConvertWithExp. R5 ordering across quantity types must-raise "
    "TypeError (shared with C08). R6 a simple Quantity stores its unit only after CheckCategoryUnit(category, that unit) "
    "returned, or takes the category default. R7 change nothing: arithmetic/conversion/validation entry points have an "
    "empty transitive write set on the registry; no mutation sink reaches an operand's composing map (call-site "
    "obligations of the unit-matching helper: arguments fresh at both container levels), so a failed operation leaves "
    "interned quantities intact."
)
ASSUMPTIONS = ["units of one quantity type have one dimension (the composing-unit comparison stands for the dimension comparison after unit matching)"]
TRUSTED = []


def run(rep, ctx):
    rep.run_rule("C05.R1", "same-quantity operation: differing composing units must-raise InvalidOperationError unless one side is dimensionless", r1_same_quantity, ctx)
    rep.run_rule("C05.R2", "GetInfo returns only infos selected under a unit fact and a quantity-type fact (Unknown exempt)", r2_getinfo, ctx)
    rep.run_rule("C05.R3", "CheckCategoryUnit exits normally only through a positive verdict", r3_check_category_unit, ctx)
    rep.run_rule("C05.R4", "_ConvertWithExp: exponent / composed-unit raises dominate the computation", r4_convert_with_exp, ctx)
    from . import c08
    rep.rule("C05.R5", "ordering across quantity types must-raise TypeError on all four operators (shared with C08.R5)")
    try:
        borrow(rep, c08.r5_type_error, ctx, "C08.R5", "C05.R5")
    except AnalysisError as e:
        rep.error("C05.R5", str(e))
    from . import c20
    rep.rule("C05.R9", "the joined composing units that the dimension comparison relies on sum the exponents of every entry per unit (shared with C20.R5)")
    try:
        borrow(rep, c20.r5_sources, ctx, "C20.R5", "C05.R9", keep=lambda o: o.key.startswith("joined-exponents"))
    except AnalysisError as e:
        rep.error("C05.R9", str(e))
    rep.run_rule("C05.R6", "a simple Quantity stores a unit only after CheckCategoryUnit accepted it for the category", r6_quantity_init, ctx)
    rep.run_rule("C05.R8", "a derived Quantity is created only after every (category, unit) entry was checked against the category's quantity type", r8_create_derived, ctx)
    rep.run_rule("C05.R7", "failed or successful operations write nothing: registry-pure entry points, operands' composing maps never reached by a sink", r7_change_nothing, ctx)
    from . import c11
    rep.rule("C05.R10", "a value is re-expressed in the unit of the quantity it is labelled with (a unit of another quantity type is rejected by that conversion; shared with C11.R3)")
    try:
        borrow(rep, c11.r3_index, ctx, "C11.R3", "C05.R10")
    except AnalysisError as e:
        rep.error("C05.R10", str(e))
    from . import c15
    rep.rule("C05.R11", "a verdict cached by a failed creation does not outlive the registration that makes the creation valid: registration methods clear the verdict memo (shared with C15.R3)")
    try:
        borrow(rep, c15.r3_coherence, ctx, "C15.R3", "C05.R11", keep=lambda o: "_category_unit_valid" in o.key)
    except AnalysisError as e:
        rep.error("C05.R11", str(e))
    rep.not_decided += [
        "false rejection of dimension-compatible operands written with different symbols (m.m vs m2)",
        "units whose table row carries a wrong quantity type (table content: C06/C14)",
    ]


# ------------------------------------------------------------------------------------------------
def r1_same_quantity(rep, ctx, RID1="C05.R1"):
    m = ctx.model
    fn = m.method("UnitDatabase", "_DoOperationWithSameQuantity")
    cfg = CFG(fn.node)
    res = Resolver(m, fn)
    op_i = fn.params.index("operation")
    rets = []
    for r in cfg.returns():
        t = res.term(cfg.ast[r].value)
        if t[0] == "tuple" and len(t[1]) == 2 and t[1][1][0] == "call" and t[1][1][1] == ("param", op_i, "operation"):
            rets.append(r)
    rep.floor("C05.R1", "returns applying the value operation", len(rets), 1)

    def cu(t):
        if t[0] == "call" and t[1] == ("name", "len"):
            return False
        return any(s[0] == "call" and s[1][0] == "attr" and s[1][2] == "GetComposingUnitsJoiningExponents" for s in walk(t))

    def side(t):
        # root of the receiver chain: set(<q>.CreateCopyInstance(...).GetComposingUnitsJoiningExponents()) -> q
        out = set()
        for a in alternatives(t):
            x = a
            while True:
                if x[0] == "call" and x[1][0] == "name" and x[2]:
                    x = x[2][0]
                elif x[0] == "call":
                    x = x[1]
                elif x[0] == "attr":
                    x = x[1]
                else:
                    break
            out.add(x[1] if x[0] == "param" else None)
        return out

    # classify the test leaves by the *term* they evaluate (a comparison may be hoisted into a local)
    kinds = {}
    cu_pair = None
    for nid in cfg.nodes("test"):
        t = res.term(cfg.ast[nid])
        if t[0] == "op" and t[1] in ("cmp:Eq", "cmp:NotEq") and len(t[2]) == 2:
            l, r = t[2]
            flipped = t[1] == "cmp:NotEq"  # key means "equal"
            if cu(l) and cu(r):
                kinds[nid] = (("units-equal",), flipped)
                cu_pair = (l, r, nid)
            elif {l, r} == {("param", 1, fn.params[1]), ("param", 2, fn.params[2])}:
                kinds[nid] = (("quantities-equal",), flipped)
            elif r == ("const", 0) and l[0] == "call" and l[1] == ("name", "len") and l[2] and cu(l[2][0]):
                kinds[nid] = (("empty", frozenset(side(l[2][0]))), t[1] == "cmp:NotEq")
        elif t[0] == "op" and t[1] == "cmp:Gt" and len(t[2]) == 2 and t[2][1] == ("const", 0) and t[2][0][0] == "call" and t[2][0][1] == ("name", "len") and t[2][0][2] and cu(t[2][0][2][0]):
            kinds[nid] = (("empty", frozenset(side(t[2][0][2][0]))), True)
        elif cu(t) and all(a_[0] == "call" and a_[1] in (("name", "set"), ("name", "frozenset"), ("name", "tuple"), ("name", "list"), ("name", "sorted")) or (a_[0] == "call" and a_[1][0] == "attr" and a_[1][2] == "GetComposingUnitsJoiningExponents") for a_ in alternatives(t)):
            # the collection of composing units itself used as a condition: true when not empty
            kinds[nid] = (("empty", frozenset(side(t))), True)
        elif t[0] == "call" and t[1] == ("name", "len") and t[2] and cu(t[2][0]):
            kinds[nid] = (("empty", frozenset(side(t[2][0]))), True)
    if cu_pair is None:
        rep.bad("C05.R1", "same-quantity:comparison", "the comparison of the joined composing units of both operands was not found: operands of different dimensions are combined", fn=fn)
        return
    l, r, cnode = cu_pair

    def order_insensitive(t):
        return all(a[0] == "call" and a[1] in (("name", "set"), ("name", "frozenset"), ("name", "sorted"), ("name", "dict"), ("name", "Counter")) for a in alternatives(t))
    rep.check(order_insensitive(l) and order_insensitive(r), RID1, "same-quantity:order-insensitive", "the composing units are compared as sets: the order in which factors were multiplied does not matter",
              "the joined composing units are compared as ordered sequences (%s vs %s): m*kg + kg*m is rejected although the dimensions agree" % (show(l, 50), show(r, 50)), node=cfg.ast[cnode], fn=fn)
    sides_ok = {frozenset(side(l)), frozenset(side(r))} == {frozenset({1}), frozenset({2})}
    rep.check(sides_ok, "C05.R1", "same-quantity:both-operands", "the comparison is between the composing units of the left and of the right operand", "the composing-unit comparison does not involve both operands: %s vs %s" % (show(l, 60), show(r, 60)), fn=fn)
    # path-sensitive: can the value operation be reached without (quantities equal) / (units equal) / (one side empty)?
    states = cfg.consistent_states(lambda n: kinds.get(n))
    bad_paths = []
    for rn in rets:
        for asg in states.get(rn, ()):
            d = dict(asg)
            if d.get(("quantities-equal",)) is True or d.get(("units-equal",)) is True:
                continue
            if any(k[0] == "empty" and v for k, v in d.items()):
                continue
            bad_paths.append((rn, d))
    rep.check(not bad_paths, "C05.R1", "same-quantity:differ-must-raise",
              "the value operation is reached only with equal quantities, equal composing units, or one dimensionless side; every other path raises",
              "the value operation can be reached although the composing units differ (or were never compared) and neither side is dimensionless: %s" % (sorted(str(d) for _, d in bad_paths)[:2]),
              node=cfg.ast[cnode], fn=fn, facts={"entry": fn.qual, "offending_exit": "return applying the value operation"})
    # what the rejecting arm raises
    raised = set()
    for x in cfg.nodes("raise"):
        for asg in states.get(x, ()):
            d = dict(asg)
            if d.get(("units-equal",)) is False and cfg.ast[x].exc is not None:
                exc = cfg.ast[x].exc
                raised.add(ast.unparse(exc.func if isinstance(exc, ast.Call) else exc))
    rep.check(raised == {"InvalidOperationError"}, "C05.R1", "same-quantity:raises-InvalidOperationError", "a mismatch raises InvalidOperationError",
              "a composing-unit mismatch raises %s" % (sorted(raised) or "nothing"), fn=fn)
    n_empty = len({k for k, _ in kinds.values() if k[0] == "empty"})
    rep.check(n_empty <= 2, "C05.R1", "same-quantity:exemptions", "at most the two dimensionless exemptions continue after a mismatch", "more than two kinds of non-raising arms after a mismatch", fn=fn)


# ------------------------------------------------------------------------------------------------
def _eq_facts(cfg, res, node):
    """[(left term, right term)] of == tests that hold on every path to node (either via == T or != F)."""
    out = []
    for e, val in cfg.facts_at(node):
        if isinstance(e, ast.Compare) and len(e.ops) == 1 and ((isinstance(e.ops[0], ast.Eq) and val) or (isinstance(e.ops[0], ast.NotEq) and not val)):
            out.append((res.term(e.left), res.term(e.comparators[0])))
    return out


REGISTRY_MAPS = ("unit_to_unit_info", "quantity_types", "categories_to_quantity_types")


def _norm_get(t):
    """`<registry map>.get(k)` read as the entry `<registry map>[k]` (whether it is None is decided by facts)."""
    if not isinstance(t, tuple) or not t:
        return t
    t = tuple(_norm_get(x) if isinstance(x, tuple) else x for x in t)
    if t[0] == "call" and len(t) == 4 and isinstance(t[1], tuple) and t[1] and t[1][0] == "attr" and t[1][2] == "get" and len(t[2]) == 1 and not t[3] \
            and any(_is_field(t[1][1], f_) for f_ in REGISTRY_MAPS):
        return ("sub", t[1][1], t[2][0])
    return t


class _GetAsEntry:
    """A Resolver whose terms read `.get(k)` of the registry maps as entries."""

    def __init__(self, res):
        self._res = res

    def term(self, *a, **kw):
        return _norm_get(self._res.term(*a, **kw))

    def origins(self, e):
        out = [(st, _norm_get(t)) for st, t in self._res.origins(e)]
        self.origin_chains = self._res.origin_chains
        return out

    def __getattr__(self, name):
        return getattr(self._res, name)


def _getinfo_helper(m, fn, alt):
    """A call of a lookup helper (nested def or method of the same class) -> (helper Func, {param name: arg term})."""
    if alt[0] != "call":
        return None
    g = None
    if alt[1][0] == "localdef":
        g = m.funcs.get(fn.qual + "." + alt[1][1])
    elif alt[1][0] == "field":
        g = m.lookup(fn.cls, alt[1][1]) if fn.cls else None
        if g is not None and g.name in ("GetInfo",):
            g = None
    if g is None:
        return None
    params = [p for p in g.params if p not in ("self", "cls")]
    binding = dict(zip(params, alt[2]))
    binding.update({k: v for k, v in alt[3]})
    return g, binding


def _helper_facts(m, g, rep=None):
    """For a lookup helper: every non-None return is unit_to_unit_info[<unit param>] under a
    quantity-type equality fact.  Returns (ok, name of the unit parameter, name of the quantity-type
    parameter or None when it reads the enclosing function's variable)."""
    hcfg = CFG(g.node)
    hres = _GetAsEntry(Resolver(m, g))
    ok = True
    unit_p = None
    qt_p = None
    n = 0
    for r in hcfg.returns():
        node = hcfg.ast[r]
        if node.value is None or (isinstance(node.value, ast.Constant) and node.value.value is None):
            continue
        n += 1
        t = hres.term(node.value)
        alts = alternatives(t)
        origin = all(a[0] == "sub" and _is_field(a[1], "unit_to_unit_info") and a[2][0] == "param" for a in alts)
        if origin:
            unit_p = alts[0][2][2]
        qt_fact = False
        for l, r_ in _eq_facts(hcfg, hres, r):
            for x, y in ((l, r_), (r_, l)):
                if y[0] == "attr" and y[2] == "quantity_type" and y[1] in alts:
                    if x[0] == "param":
                        qt_fact = True
                        qt_p = x[2]
                    elif _is_qt(x):
                        qt_fact = True
        good = origin and qt_fact
        ok = ok and good
        if rep is not None:
            rep.check(good, "C05.R2", "GetInfo.helper:%s" % norm(ast.unparse(node)), "the direct lookup returns unit_to_unit_info[<the unit asked for>] only when its quantity type equals the requested one",
                      "the direct lookup can return %s %s" % (show(t), "without a quantity-type test: a unit of another quantity type is accepted" if not qt_fact else "for another key than the unit asked for"), node=node, fn=g)
    return ok and n > 0, unit_p, qt_p, n


def r2_getinfo(rep, ctx):
    m = ctx.model
    _load_unknown_qt(m)
    fn = m.method("UnitDatabase", "GetInfo")
    n = 0
    cfg = CFG(fn.node)
    res = _GetAsEntry(Resolver(m, fn, inline=False))
    unit_i = fn.params.index("unit")
    helpers_seen = {}
    for r in cfg.returns():
        node = cfg.ast[r]
        if node.value is None:
            continue
        n += 1
        t = res.term(node.value)
        key = "GetInfo:%s@%d" % (norm(ast.unparse(node)), sum(1 for x in cfg.returns() if x < r))
        problems = []
        # the returned value, origin by origin: a value copied from a definition made under a test carries the
        # facts of that definition site (`if ok: r = info / else: r = None ... if r is not None: return r`)
        ret_facts = _eq_facts(cfg, res, r)
        not_none = any(nf is not None and not nf[1] and res.term(nf[0]) == t for nf in (none_fact(f) for f in nfacts(cfg, r)))
        per_origin = []
        if isinstance(node.value, ast.Name):
            org = res.origins(node.value)
            chains = list(res.origin_chains)
            for (st, ot), chain in zip(org, chains):
                fs = list(ret_facts)
                for site in [st] + chain:
                    if site is not None:
                        try:
                            fs += _eq_facts(cfg, res, cfg.node_of(site))
                        except (KeyError, AnalysisError):
                            pass
                for a in alternatives(ot):
                    per_origin.append((a, fs))
        else:
            per_origin = [(a, ret_facts) for a in alternatives(t)]
        for a, eqf in per_origin:
            if a == ("const", None) and not_none:
                continue  # excluded by the dominating `is not None` test of the returned value
            h = _getinfo_helper(m, fn, a)
            if h is not None:
                g, binding = h
                if g.qual not in helpers_seen:
                    helpers_seen[g.qual] = _helper_facts(m, g, rep)
                    n += helpers_seen[g.qual][3]
                helper_ok, unit_p, qt_p, _ = helpers_seen[g.qual]
                # helper result: must be non-None here, and the argument is the unit or its legacy rewrite
                arg = binding.get(unit_p) if unit_p else None
                arg_ok = arg is not None and all(x == ("param", unit_i, "unit") or _is_legacy_fixed(x, unit_i) for x in alternatives(arg))
                if not helper_ok:
                    problems.append("comes from the direct lookup, which does not establish both facts")
                if not arg_ok:
                    problems.append("the direct lookup is made for %s, not for the requested unit or its legacy rewrite" % (show(arg) if arg else None))
                if qt_p is not None:
                    qa = binding.get(qt_p)
                    if qa is None or not _is_qt(qa):
                        problems.append("the direct lookup is made for quantity type %s, not the requested one" % (show(qa) if qa else None))
            elif a[0] == "elem" and all(x[0] == "sub" and _is_field(x[1], "quantity_types") and _is_qt(x[2]) for x in alternatives(a[1])):
                # loop variable over the requested quantity type's list: needs a unit fact
                uf = None
                for l, r_ in eqf:
                    for x, y in ((l, r_), (r_, l)):
                        if x == ("attr", a, "unit"):
                            uf = y
                if uf is None:
                    problems.append("an element of the quantity type's list is returned without a dominating `info.unit == <unit>` test")
                elif all(x == ("param", unit_i, "unit") or _is_legacy_fixed(x, unit_i) for x in alternatives(uf)):
                    pass
                else:
                    # a different unit than the requested one: only inside the Unknown exemption
                    exempt = any((_is_qt(l) and _is_unknown_qt(r_)) or (_is_qt(r_) and _is_unknown_qt(l)) for l, r_ in eqf)
                    if not exempt:
                        problems.append("returns the info of %s instead of the requested unit outside the 'Unknown' quantity-type exemption" % show(uf))
            elif a[0] == "sub" and _is_field(a[1], "unit_to_unit_info"):
                qt_fact = any((y[0] == "attr" and y[2] == "quantity_type" and a in alternatives(y[1]) and _is_qt(x)) for l, r_ in eqf for x, y in ((l, r_), (r_, l)))
                if not qt_fact:
                    problems.append("returns unit_to_unit_info[%s] without testing that its quantity type is the requested one: a unit of another quantity type converts instead of raising" % show(a[2]))
                if not all(x == ("param", unit_i, "unit") or _is_legacy_fixed(x, unit_i) for x in alternatives(a[2])):
                    problems.append("the direct lookup is made for %s, not for the requested unit or its legacy rewrite" % show(a[2]))
            else:
                problems.append("returns %s, whose origin is not recognised" % show(a, 80))
        rep.check(not problems, "C05.R2", key, "returned info is selected under a unit fact and a quantity-type fact", "GetInfo " + "; ".join(problems), node=node, fn=fn)
    # the first direct lookup is made under the quantity type exactly as it was given: a registered quantity type's
    # own units must not be shadowed by a category that happens to carry the same name (the category resolution
    # comes second)
    PQT = ("param", fn.params.index("quantity_type"), "quantity_type")
    first_ok = None
    for c in sorted((c for c in own_nodes(fn.node) if isinstance(c, (ast.Call, ast.Compare))), key=program_order(fn.node)):
        if isinstance(c, ast.Compare):
            # a direct lookup made in place: `<requested type> == <unit_to_unit_info[...]>.quantity_type`
            if first_ok is None and len(c.ops) == 1 and isinstance(c.ops[0], (ast.Eq, ast.NotEq)):
                l, r_ = res.term(c.left), res.term(c.comparators[0])
                for x, y in ((l, r_), (r_, l)):
                    if y[0] == "attr" and y[2] == "quantity_type" and any(z[0] == "sub" and _is_field(z[1], "unit_to_unit_info") for z in alternatives(y[1])):
                        first_ok = (x == PQT, c)
            continue
        h = _getinfo_helper(m, fn, res.term(c))
        if h is None:
            continue
        g, binding = h
        if g.qual not in helpers_seen:
            continue
        qt_p = helpers_seen[g.qual][2]
        if qt_p is not None:
            qt_terms = set(alternatives(binding.get(qt_p, ("const", None))))
        else:
            at = cfg.node_of(c)
            reach = {idx for (nm, idx) in res.IN[at] if nm == "quantity_type"} if res.flow else {-1}
            qt_terms = {PQT} if reach == {-1} else {PQT, ("expr", "reassigned")}
        if first_ok is None:
            first_ok = (qt_terms == {PQT}, c)
    if first_ok is not None:
        rep.check(first_ok[0], "C05.R2", "GetInfo:first-lookup-as-given", "the first direct lookup uses the quantity type as given",
                  "the first direct lookup of the unit is made after the quantity type may have been replaced by a category's quantity type: with a category named like another quantity type, that type's own units are looked up in the wrong type", node=first_ok[1], fn=fn)
    rep.floor("C05.R2", "value returns of GetInfo", n, 2)
    # the final fall-through raises InvalidUnitError / InvalidQuantityTypeError
    falls = [x for (x, lab) in cfg.pred[cfg.EXIT] if cfg.kind[x] != "return"]
    rep.check(not falls, "C05.R2", "GetInfo:no-fallthrough", "GetInfo never falls off its end (it returns an info or raises)", "GetInfo can fall off its end and return None", fn=fn)


def _is_field(t, name):
    return t == ("field", name) or (t[0] == "outer" and t[1] == ("field", name)) or (t[0] == "attr" and t[2] == name)


def _is_qt(t):
    """the requested quantity type: the parameter, possibly re-bound to category_info.quantity_type (closure reads the re-bound value)."""
    for a in alternatives(t):
        x = a[1] if a[0] == "outer" else a
        for y in alternatives(x):
            if y[0] == "param" and y[2] == "quantity_type":
                continue
            if y[0] == "attr" and y[2] == "quantity_type" and any(s[0] == "sub" and _is_field(s[1], "categories_to_quantity_types") for s in walk(y)):
                continue
            return False
    return True


def _is_unknown_qt(t):
    # by name (function-level import) or by value (module-level import, resolved to the constant)
    return any(s in (("name", "UNKNOWN_QUANTITY_TYPE"), ("const", _UNKNOWN_QT[0])) for s in walk(t))


_UNKNOWN_QT = ["Unknown"]  # value of _unit_constants.UNKNOWN_QUANTITY_TYPE, re-read from the source by _load_unknown_qt


def _load_unknown_qt(m):
    for p_, (tree, _src) in m.trees.items():
        if p_.endswith("_unit_constants.py"):
            for st in tree.body:
                if isinstance(st, ast.Assign) and any(isinstance(t, ast.Name) and t.id == "UNKNOWN_QUANTITY_TYPE" for t in st.targets) and isinstance(st.value, ast.Constant):
                    _UNKNOWN_QT[0] = st.value.value
                    return
    raise AnalysisError("UNKNOWN_QUANTITY_TYPE is not a literal constant of _unit_constants")


def _is_legacy_fixed(t, unit_i):
    return any(s[0] == "call" and s[1] == ("name", "FixUnitIfIsLegacy") and s[2] and s[2][0] == ("param", unit_i, "unit") for s in walk(t)) and t[0] == "sub"


# ------------------------------------------------------------------------------------------------
def r3_check_category_unit(rep, ctx):
    """Term-based: the verdict is whatever the tests of the function read - the memo entry under
    (category, unit), or a value all of whose reaching definitions are boolean constants (assigned here
    or returned by a helper called with (category, unit))."""
    m = ctx.model
    fn = m.method("UnitDatabase", "CheckCategoryUnit")
    cfg = CFG(fn.node)
    res = Resolver(m, fn)
    P_CAT, P_UNIT = ("param", fn.params.index("category"), "category"), ("param", fn.params.index("unit"), "unit")
    KEY = ("tuple", (P_CAT, P_UNIT))

    def memo_key(t):
        """the key under which term t reads the verdict memo (`memo[k]` or `memo.get(k)`), else None"""
        if t[0] == "sub" and _is_field(t[1], "_category_unit_valid"):
            return t[2]
        if t[0] == "call" and t[1][0] == "attr" and t[1][2] == "get" and _is_field(t[1][1], "_category_unit_valid") and len(t[2]) == 1 and not t[3]:
            return t[2][0]
        return None

    def memo_read(t):
        return memo_key(t) is not None

    def is_bool(t):
        return t[0] == "const" and isinstance(t[1], bool)

    def is_verdict(t):
        alts = alternatives(t)
        return bool(alts) and all((memo_read(a_) and memo_key(a_) == KEY) or is_bool(a_) for a_ in alts) and (len(alts) > 1 or memo_read(alts[0]))

    verdict_edges = set()
    for nid in cfg.nodes("test"):
        e = cfg.ast[nid]
        t = res.term(e)
        if memo_read(t) and memo_key(t) != KEY:
            rep.bad("C05.R3", "CheckCategoryUnit:memo-key", "the memo is read under %s instead of (category, unit)" % show(memo_key(t)), node=e, fn=fn)
        if is_verdict(t):
            verdict_edges |= {(nid, b_, lab) for (b_, lab) in cfg.succ[nid] if lab == "T"}
    r = cfg.reach(cfg.ENTRY, avoid_edges=verdict_edges)
    rep.check(bool(verdict_edges) and cfg.EXIT not in r, "C05.R3", "CheckCategoryUnit:exit-needs-positive-verdict", "every normal exit passes a positive verdict (memo hit true, or valid == True)",
              "CheckCategoryUnit can return normally without a positive verdict: an invalid (category, unit) pair is accepted", fn=fn)
    # where the verdict is decided: boolean constants assigned in this function, or returned by a helper
    # that did not exist in the baseline and is called with (category, unit)
    from ..anchors import KNOWN_FUNCTIONS

    deciders = []  # (function, category param term, unit param term)
    sites = []  # (statement, value, function)
    for st in own_statements(fn.node):
        if not isinstance(st, (ast.Assign, ast.AnnAssign)) or st.value is None:
            continue
        v = st.value
        if isinstance(v, ast.Constant) and isinstance(v.value, bool):
            sites.append((st, v.value, fn))
            if all(d[0] is not fn for d in deciders):
                deciders.append((fn, P_CAT, P_UNIT))
        elif isinstance(v, ast.Call):
            g = res._callee(v.func, None)
            if g is None or g.name in KNOWN_FUNCTIONS:
                continue
            grets = [x for x in own_statements(g.node) if isinstance(x, ast.Return)]
            if not grets or not all(isinstance(x.value, ast.Constant) and isinstance(x.value.value, bool) for x in grets):
                continue
            bound = {}
            from ..facts import bind_args

            for pname, a_ in bind_args(v, g).items():
                bound[res.term(a_)] = ("param", g.params.index(pname), pname)
            if P_CAT not in bound or P_UNIT not in bound:
                raise AnalysisError("CheckCategoryUnit: the verdict helper %s is not called with (category, unit)" % g.qual)
            deciders.append((g, bound[P_CAT], bound[P_UNIT]))
            for x in grets:
                sites.append((x, x.value.value, g))
    rep.floor("C05.R3", "verdict sites", len(sites), 1)
    for sfn, pcat, punit in deciders:
        scfg = CFG(sfn.node)
        sres = Resolver(m, sfn)
        checks = []
        for c in own_nodes(sfn.node):
            if isinstance(c, ast.Call) and isinstance(c.func, ast.Attribute) and c.func.attr in ("CheckQuantityTypeUnit", "GetInfo"):
                a_ = [sres.term(x) for x in c.args]
                if len(a_) >= 2 and a_[1] == punit and any(s2[0] == "call" and "GetCategoryInfo" in str(s2[1]) and pcat in s2[2] for s2 in walk(a_[0])):
                    checks.append(scfg.node_of(c))
        normal_out = set()
        for cn in checks:
            normal_out |= {(cn, b_, l_) for (b_, l_) in scfg.succ[cn] if l_ != "exc"}
        for st, val, f_ in sites:
            if f_ is not sfn:
                continue
            n_ = scfg.node_of(st)
            in_handler = False
            p_ = getattr(st, "_parent", None)
            while p_ is not None and p_ is not sfn.node:
                if isinstance(p_, ast.ExceptHandler):
                    tr = getattr(p_, "_parent", None)
                    if isinstance(tr, ast.Try) and any(scfg.node_of(c) in checks for b_ in tr.body for c in ast.walk(b_) if isinstance(c, ast.Call)):
                        in_handler = True
                p_ = getattr(p_, "_parent", None)
            if val is True:
                ok = bool(checks) and n_ not in scfg.reach(scfg.ENTRY, avoid_edges=normal_out)
                rep.check(ok and not in_handler, "C05.R3", "CheckCategoryUnit:positive-after-check", "the positive verdict is recorded only after the unit was checked against the category's quantity type",
                          "a positive verdict can be recorded without the check of (quantity type of the category, unit) having returned normally" if not in_handler else
                          "the failure handler of the unit check records True: a unit outside the category's quantity type is accepted (and memoised)", node=st, fn=sfn)
            else:
                rep.check(in_handler, "C05.R3", "CheckCategoryUnit:handler-verdict", "the negative verdict is recorded in the failure handler of the unit check",
                          "a negative verdict is recorded outside the failure handler", node=st, fn=sfn)
    # what is memoised is the verdict that is tested
    memo = []
    for st in own_statements(fn.node):
        if isinstance(st, ast.Assign):
            for t_ in st.targets:
                if isinstance(t_, ast.Subscript) and _is_field(res.term(t_.value), "_category_unit_valid"):
                    memo.append((st, t_))
    ok = len(memo) == 1
    if ok:
        st, t_ = memo[0]
        vt = res.term(st.value)
        ok = res.term(t_.slice) == KEY and len(alternatives(vt)) > 1 and all(is_bool(a_) for a_ in alternatives(vt))
    rep.check(ok, "C05.R3", "CheckCategoryUnit:memo", "the memo stores the verdict under (category, unit)", "the memo stores something else than the verdict under (category, unit)", fn=fn)


# ------------------------------------------------------------------------------------------------
def r4_convert_with_exp(rep, ctx):
    m = ctx.model
    fn = m.method("UnitDatabase", "_ConvertWithExp")
    cfg = CFG(fn.node)
    res = Resolver(m, fn)
    P_FROM, P_TO = ("param", fn.params.index("from_unit_exps"), "from_unit_exps"), ("param", fn.params.index("to_unit_exps"), "to_unit_exps")

    def length_of(t):
        return t[0] == "call" and t[1] == ("name", "len") and len(t[2]) == 1 and not t[3] and t[2][0] in (P_FROM, P_TO) and t[2][0]

    def exponent_of(t):
        return t[0] == "sub" and t[2] == ("const", 1) and t[1][0] == "sub" and t[1][2] == ("const", 0) and t[1][1] in (P_FROM, P_TO) and t[1][1]

    import operator as _op
    CMP = {"eq": _op.eq, "lt": _op.lt, "le": _op.le, "gt": _op.gt, "ge": _op.ge}
    SWAP = {"eq": "eq", "lt": "gt", "le": "ge", "gt": "lt", "ge": "le"}

    def known(fs):
        """what the normalised facts say: {('len', side): the only possible number of units, when the facts leave one}
        and whether the two exponents are equal"""
        out = {}
        preds = {P_FROM: [], P_TO: []}
        for k, l, r, pos in fs:
            if k in CMP and r is not None:
                lt, rt = res.term(l), res.term(r)
                for x, y, kk in ((lt, rt, k), (rt, lt, SWAP[k])):
                    side = length_of(x)
                    if side and y[0] == "const" and isinstance(y[1], int) and not isinstance(y[1], bool):
                        preds[side].append(lambda n, f=CMP[kk], c=y[1], pos=pos: f(n, c) == pos)
                if k == "eq" and pos and {exponent_of(lt), exponent_of(rt)} == {P_FROM, P_TO}:
                    out["exp-equal"] = True
            elif k == "truth":
                t = res.term(l)
                # a sequence (or its length) used as a condition: true when not empty
                side = length_of(t) or (t in (P_FROM, P_TO) and t)
                if side:
                    preds[side].append(lambda n, pos=pos: (n != 0) == pos)
                # from_exp == to_exp == 1
                if pos and t[0] == "op" and t[1].startswith("cmp:") and set(t[1][4:].split(",")) == {"Eq"} and {exponent_of(x) for x in t[2]} >= {P_FROM, P_TO}:
                    out["exp-equal"] = True
        for side, ps in preds.items():
            if ps:
                feasible = [n for n in range(0, 12) if all(p_(n) for p_ in ps)]
                if len(feasible) == 1:
                    out[("len", side)] = feasible[0]
        return out

    convs = [c for c in own_nodes(fn.node) if isinstance(c, ast.Call) and isinstance(c.func, ast.Attribute) and c.func.attr == "Convert"]
    rep.floor("C05.R4", "conversions in _ConvertWithExp", len(convs), 1)
    for c in convs:
        kn = known(nfacts(cfg, cfg.node_of(c)))
        missing = [w for w, ok_ in (("one unit on the source side", kn.get(("len", P_FROM)) == 1), ("one unit on the target side", kn.get(("len", P_TO)) == 1), ("equal exponents", kn.get("exp-equal"))) if not ok_]
        rep.check(not missing, "C05.R4", "_ConvertWithExp:%s" % norm(ast.unparse(c))[:60] + ":%d" % convs.index(c), "the conversion is reached only with one unit on each side and equal exponents",
                  "a conversion is reachable without an established %s: composed units or differing exponents are converted as if they were one unit with equal exponents" % " / ".join(missing), node=c, fn=fn)
    # every normal exit is either a conversion (guarded above) or the shortcut for an empty side: a mismatch raises
    empty_edges = set()
    for nid in cfg.nodes("test"):
        for lab, f in edge_facts(cfg, nid).items():
            kn = known([f])
            if kn.get(("len", P_FROM)) == 0 or kn.get(("len", P_TO)) == 0:
                empty_edges.add((nid, lab))
    avoid = {cfg.node_of(c) for c in convs}
    full_edges = {(a_, b_, lab) for (a_, lab0) in empty_edges for (b_, lab) in cfg.succ[a_] if lab == lab0}
    r = cfg.reach(cfg.ENTRY, avoid=avoid, avoid_edges=full_edges)
    rep.check(cfg.EXIT not in r, "C05.R4", "_ConvertWithExp:guards", "a composed unit or differing exponents raise: the only normal exits are a guarded conversion and the empty-side shortcut",
              "_ConvertWithExp can return normally without converting although neither side is empty: a unit-count or exponent mismatch does not always raise", fn=fn)
    # Convert: the quantity type handed to GetInfo for both units is the same resolved one
    cv = m.method("UnitDatabase", "Convert")
    cres = Resolver(m, cv)
    gi = [c for c in own_nodes(cv.node) if isinstance(c, ast.Call) and isinstance(c.func, ast.Attribute) and c.func.attr == "GetInfo"]
    qts = {cres.term(c.args[0]) for c in gi if c.args}
    rep.check(len(gi) >= 2 and len(qts) == 1, "C05.R4", "Convert:same-quantity-type", "source and target unit are looked up in the same quantity type", "Convert looks its two units up in different quantity types (%d)" % len(qts), fn=cv)


# ------------------------------------------------------------------------------------------------
def r6_quantity_init(rep, ctx):
    m = ctx.model
    fn = m.method("Quantity", "__init__")
    cfg = CFG(fn.node)
    res = Resolver(m, fn)
    stores = [st for st in own_statements(fn.node) if isinstance(st, ast.Assign) and isinstance(st.targets[0], ast.Attribute) and st.targets[0].attr == "_unit" and isinstance(st.value, ast.Name)]
    if not stores:
        raise AnalysisError("Quantity.__init__: store of _unit in the simple branch not found")
    st = stores[-1]
    S = cfg.node_of(st)
    var = st.value.id
    calls = [c for c in own_nodes(fn.node) if isinstance(c, ast.Call) and isinstance(c.func, ast.Attribute) and c.func.attr == "CheckCategoryUnit"]
    rep.floor("C05.R6", "CheckCategoryUnit calls in Quantity.__init__", len(calls), 1)
    P_CAT = ("param", fn.params.index("category"), "category")
    stored_alts = set(alternatives(res.term(st.value)))
    good = {}
    for c in calls:
        args = c.args
        ok = len(args) == 2 and res.term(args[0]) == P_CAT and isinstance(args[1], ast.Name) and any(a_ in stored_alts for a_ in alternatives(res.term(args[1])))
        rep.check(ok, "C05.R6", "Quantity.__init__:%s:%d" % (norm(ast.unparse(c)), calls.index(c)), "the check is made for (category, the unit that will be stored)", "CheckCategoryUnit is called with %s, not with the category and the unit that is stored" % ast.unparse(c), node=c, fn=fn)
        if ok:
            good[cfg.node_of(c)] = args[1].id
    # which names hold a unit that passed the check, on every path (must): a successful check adds its argument, a plain
    # copy `x = y` of a checked name adds x, any other binding of a name removes it; the arm where the unit is None is
    # exempt (it takes the category's default unit)
    none_edges = set()
    for nid in cfg.nodes("test"):
        e = cfg.ast[nid]
        if isinstance(e, ast.Compare) and len(e.ops) == 1 and isinstance(e.ops[0], (ast.Is, ast.IsNot)) and isinstance(e.comparators[0], ast.Constant) and e.comparators[0].value is None \
                and res.term(e.left) == ("param", fn.params.index("unit"), "unit"):
            none_edges.add((nid, "T" if isinstance(e.ops[0], ast.Is) else "F"))

    def bound_names(x):
        out = set()
        if isinstance(x, (ast.Assign, ast.AugAssign, ast.AnnAssign)):
            for t_ in (x.targets if isinstance(x, ast.Assign) else [x.target]):
                out |= {y.id for y in ast.walk(t_) if isinstance(y, ast.Name) and isinstance(y.ctx, ast.Store)}
        elif isinstance(x, (ast.For, ast.AsyncFor)):
            out |= {y.id for y in ast.walk(x.target) if isinstance(y, ast.Name)}
        elif isinstance(x, (ast.With, ast.AsyncWith)):
            out |= {y.id for it in x.items if it.optional_vars is not None for y in ast.walk(it.optional_vars) if isinstance(y, ast.Name)}
        elif isinstance(x, ast.ExceptHandler) and x.name:
            out.add(x.name)
        elif isinstance(x, (ast.Import, ast.ImportFrom)):
            out |= {(al.asname or al.name).split(".")[0] for al in x.names}
        return out

    def transfer(n, state, lab):
        x = cfg.ast.get(n)
        state = set(state)
        if x is None or lab == "exc":
            return state
        if isinstance(x, ast.Assign) and len(x.targets) == 1 and isinstance(x.targets[0], ast.Name) and isinstance(x.value, ast.Name):
            if x.value.id in state:
                state.add(x.targets[0].id)
            else:
                state.discard(x.targets[0].id)
        elif cfg.kind.get(n) in ("stmt", "loop", "with", "except"):
            state -= bound_names(x)
            if isinstance(x, ast.Assign) and len(x.targets) == 1 and isinstance(x.targets[0], ast.Name) and (n, "T") not in none_edges:
                vt = alternatives(res.term(x.value))
                if vt and all(a_[0] == "attr" and a_[2] == "default_unit" for a_ in vt):
                    state.add(x.targets[0].id)  # the category's own default unit needs no check (decided below)
        if n in good:
            state.add(good[n])
        return state

    IN = cfg.forward_must(set(), transfer)
    reached = S in IN
    checked = reached and var in IN[S]
    rep.check(bool(good) and (checked or not reached), "C05.R6", "Quantity.__init__:unit-checked-before-store", "every path that stores a given unit passed a successful CheckCategoryUnit(category, unit) for that very unit",
              "a path stores the unit of a simple Quantity without a successful CheckCategoryUnit(category, unit): a unit outside the category's quantity type builds a Quantity", node=st, fn=fn,
              facts={"entry": fn.qual, "offending_exit": "store of _unit at line %d" % st.lineno})
    # the None arm
    t = res.term(st.value)
    defaults = [a for a in alternatives(t) if a[0] == "attr" and a[2] == "default_unit"]
    rep.check(all(any(s[0] == "call" and "GetCategoryInfo" in str(s[1]) and s[2] and s[2][0][0] == "param" and s[2][0][2] == "category" for s in walk(a)) for a in defaults) and bool(defaults),
              "C05.R6", "Quantity.__init__:default-unit-of-the-category", "without a unit the default unit of the same category is taken", "without a unit, %s is taken" % [show(a) for a in defaults], node=st, fn=fn)


# ------------------------------------------------------------------------------------------------
def r7_change_nothing(rep, ctx):
    m, eff = ctx.model, ctx.effects
    from . import c07, c15
    entries = [("UnitDatabase", x) for x in ("Sum", "Subtract", "Multiply", "Divide", "FloorDivide", "Convert", "GetInfo", "CheckCategoryUnit", "CheckQuantityTypeUnit", "_ConvertWithExp", "_DoOperationWithSameQuantity", "_MatchQuantities")]
    entries += [("Scalar", x) for x in ("__lt__", "__eq__", "_DoOperation", "GetAbstractValue", "CheckValidity")] + [("Array", x) for x in ("_DoOperation", "GetAbstractValue", "__eq__")]
    entries += [("FractionScalar", "__lt__"), ("Quantity", "ConvertScalarValue"), ("Quantity", "Convert"), ("Quantity", "CheckValue"), ("AbstractValueWithQuantityObject", "CreateCopy")]
    n = 0
    for cls, name in entries:
        fn = m.method(cls, name)
        n += 1
        ws = sorted({(w[0], w[1]) for w in eff.trans_w.get(fn.qual, ()) if c15.is_registry_atom(w)})
        rep.check(not ws, "C05.R7", "pure:%s.%s" % (cls, name), "no transitive write to registry state", "%s.%s reaches a write of registry state %s: a failing operation can leave the database changed" % (cls, name, ws), fn=fn)
    rep.floor("C05.R7", "entry points examined", n, 12)
    # ObtainQuantity / Quantity construction write only the intern table, and only after the constructor returned
    oq = m.func("ObtainQuantity")
    ws = sorted({(w[0], w[1]) for w in eff.trans_w.get(oq.qual, ()) if c15.is_registry_atom(w)})
    rep.check(not ws, "C05.R7", "pure:ObtainQuantity", "ObtainQuantity writes no registry state (only the intern table)", "ObtainQuantity writes registry state %s" % ws, fn=oq)
    for st in own_statements(oq.node):
        if isinstance(st, ast.Assign) and any(isinstance(t, ast.Subscript) and "quantities_cache" in ast.unparse(t) for t in st.targets) and isinstance(st.value, ast.Call):
            rep.ok("C05.R7", "ObtainQuantity:%s" % norm(ast.unparse(st))[:60], "the intern-table store is sequenced after the constructor call of the same statement: a raising constructor stores nothing", node=st, fn=oq)
    # operands' composing maps: borrow the ownership rule of C07 (all sinks and call-site obligations)
    borrow(rep, c07.r3_ownership, ctx, "C07.R3", "C05.R7")


def r8_create_derived(rep, ctx):
    m = ctx.model
    fn = m.method("Quantity", "_CreateDerived")
    cfg = CFG(fn.node)
    res = Resolver(m, fn)
    loops = [lp for lp in own_statements(fn.node) if isinstance(lp, ast.For) and any(isinstance(x, ast.Attribute) and x.attr == "items" for x in ast.walk(lp.iter))]
    if len(loops) != 1:
        raise AnalysisError("Quantity._CreateDerived: the validation loop over the composing entries was not found")
    lp = loops[0]
    names = [x.id for x in ast.walk(lp.target) if isinstance(x, ast.Name)]
    if len(names) < 2:
        raise AnalysisError("Quantity._CreateDerived: loop target is not (category, (unit, exp))")
    cat_v, unit_v = names[0], names[1]
    H = cfg.node_of(lp)
    checks = []
    for c in own_nodes(lp):
        if isinstance(c, ast.Call) and isinstance(c.func, ast.Attribute) and c.func.attr in ("CheckQuantityTypeUnit", "CheckCategoryUnit"):
            args = [ast.unparse(a) for a in c.args]
            good = len(args) == 2 and args[1] == unit_v and (
                (c.func.attr == "CheckQuantityTypeUnit" and args[0].endswith(".quantity_type") and cat_v in ast.unparse(next((st.value for st in own_statements(lp) if isinstance(st, ast.Assign) and ast.unparse(st.targets[0]) == args[0].split(".")[0]), ast.Constant(value=""))))
                or (c.func.attr == "CheckCategoryUnit" and args[0] == cat_v))
            rep.check(good, "C05.R8", "_CreateDerived:%s" % norm(ast.unparse(c)), "the entry's unit is checked against the quantity type of the entry's own category",
                      "`%s` does not check the entry's unit against its own category's quantity type" % norm(ast.unparse(c)), node=c, fn=fn)
            if good:
                checks.append(cfg.node_of(c))
    # one iteration: from the header's T edge back to the header, every path passes a check
    # unless the unit is None (then the category default is taken)
    none_edges = set()
    for nid in cfg.nodes("test"):
        e = cfg.ast[nid]
        if isinstance(e, ast.Compare) and isinstance(e.left, ast.Name) and e.left.id == unit_v and isinstance(e.comparators[0], ast.Constant) and e.comparators[0].value is None:
            lab = "T" if isinstance(e.ops[0], ast.Is) else "F"
            none_edges |= {(nid, b, l) for (b, l) in cfg.succ[nid] if l == lab}
    r = cfg.reach(H, avoid=set(checks), avoid_edges=none_edges, start_edges={"T"})
    rep.check(bool(checks) and H not in r, "C05.R8", "_CreateDerived:every-entry-checked", "every iteration over an entry with a unit passes the unit check (entries without a unit take the category default)",
              "an iteration of the validation loop can complete without checking the entry's unit (check skipped for repeated units, cached, or conditional): a unit of another quantity type builds a derived Quantity",
              node=lp, fn=fn, facts={"entry": fn.qual, "offending_exit": "next iteration / loop exit without the check"})
    # the loop itself runs whenever validation is requested, and the public CreateDerived requests it
    par = lp._parent
    ok = isinstance(par, ast.If) and ast.unparse(par.test) == "validate_category_and_units"
    rep.check(ok, "C05.R8", "_CreateDerived:validation-flag", "the validation loop runs under the validate flag", "the validation loop is not guarded by exactly the validate flag", fn=fn)
    pub = m.method("Quantity", "CreateDerived")
    calls = [c for c in own_nodes(pub.node) if isinstance(c, ast.Call) and isinstance(c.func, ast.Attribute) and c.func.attr == "_CreateDerived"]
    ok = len(calls) == 1 and not any(k.arg == "validate_category_and_units" for k in calls[0].keywords) and len(calls[0].args) == 1
    default_true = False
    a = fn.node.args
    for arg, d in zip(a.args[len(a.args) - len(a.defaults):], a.defaults):
        if arg.arg == "validate_category_and_units":
            default_true = isinstance(d, ast.Constant) and d.value is True
    rep.check(ok and default_true, "C05.R8", "CreateDerived:validates", "the public CreateDerived validates (flag left at its default True)", "the public CreateDerived switches validation off", fn=pub)
