"""C06  Named compound units agree with the composition of their parts."""
import collections
import math
from fractions import Fraction

from .. import tables, unitgrammar
from ..convmodel import ConvModel
from ..report import borrow, AnalysisError

PROP = "C06"
EXHAUSTIVE = True
EXPLANATION = (
    "Pure table lint over the registration log recovered by interpreting the fillers (exhaustive over all rows). R1: each "
    "symbol that the unit grammar decomposes into other registered units (numerator.factors/denominator.factors, integer "
    "exponents, numeric prefixes) is accepted only if the decomposition is dimensionally coherent (dimension vectors from "
    "the base-unit symbols over kg m s A K mol cd via a hand-written table of SI derived atoms; rows failing the gate are "
    "set aside, never reported); for accepted rows the ratio factor/product-of-component-factors must be the same for all "
    "rows of a quantity type (reference: the base row's ratio, else the largest agreement class), to the precision the "
    "literals are written in. Set-aside rows sharing a decomposition vector (>= 3) are compared among themselves. R2: "
    "atomic rows that are an SI-prefixed form of another row of the same quantity type by symbol AND by registered name "
    "must differ by the prefix's power of ten. R0: every row's two closures sit in their slots (to-base built by the "
    "customary->base factory) so that the factor read off the to-base closure is the unit's factor."
)
TRUSTED = ["hand-written table of 26 SI derived atoms and 18 SI prefixes (sa/unitgrammar.py)"]
ASSUMPTIONS = ["a compound symbol denotes the product of its component units (offsets of affine components do not enter a compound unit)"]

MIN_TOL = 1e-5


def run(rep, ctx):
    st = State(ctx)
    rep.run_rule("C06.R1", "compound rows: factor == product of component factors, up to one ratio per quantity type (exhaustive, dimension-gated)", r1_compound, st)
    rep.run_rule("C06.R2", "SI-prefixed atomic rows (by symbol and name): factor ratio == 10^n (exhaustive)", r2_prefixed, st)
    from . import c02
    rep.rule("C06.R3", "an amount given in a derived unit (product of table units with exponents) is re-expressed with each unit ratio raised to its signed exponent (shared with C02.R1: _ConvertWithExp)")
    try:
        borrow(rep, c02.r1_agreement, ctx, "C02.R1", "C06.R3", keep=lambda o: o.key.startswith("_ConvertWithExp"))
    except AnalysisError as e:
        rep.error("C06.R3", str(e))
    rep.not_decided += [
        "symbols outside the grammar (two or more slashes, '^', '*', parentheses) and rows whose decomposition is not dimensionally coherent (listed in coverage.set_aside)",
        "atomic rows that are neither compound nor SI-prefixed forms of another row (nothing in the table to compare them with)",
    ]
    rep.analysed["set_aside"] = st.set_aside_list[:80]


class State:
    def __init__(self, ctx):
        self.ctx = ctx
        self.tb = ctx.tables["posc"]
        self.cm = ConvModel(ctx.model)
        self.fac = {}
        self.hu = {}
        self.registered = set(self.tb.units)
        self.set_aside_list = []
        # the repo's own legacy table defines some symbols by a numeric-prefix spelling
        # ("1000m3" -> "Mm3": the oilfield M = thousand).  Such a symbol is decomposed through that
        # spelling, not as <SI-prefixed unit><exponent> (Mm3 is not megametre cubed).
        from .. import legacy as _legacy

        self.aliases = {}
        # (an unrecognised legacy table is an analysis error of this rule too: without the aliases
        # 'Mm3' would be read as megametre cubed and reported as wrong)
        pairs, _, _ = _legacy.chain(ctx.model)
        for old, new, _ in pairs:
            m = unitgrammar.NUMPREFIX.match(old)
            if m and m.group(2) in self.registered and new in self.registered:
                self.aliases.setdefault(new, (m.group(2), Fraction(m.group(1))))
        for sym, row in self.tb.units.items():
            so = self.cm.slope_offset(row)
            if so is None:
                raise AnalysisError("%s:%d: unit %r has no affine to-base function" % (row.reg.path, row.reg.line, sym))
            self.fac[sym] = so[0]
            self.hu[sym] = self._halfulp(row)
        self.base_of = {qt: rows[0].symbol for qt, rows in self.tb.qts.items() if rows[0].base}
        self._dim_memo = {}

    def _halfulp(self, row):
        """Relative half unit in the last written digit of the row's slope literals (0 = exact)."""
        if row.base or not isinstance(row.tobase, tables.Closure):
            return 0.0
        a = row.tobase.args
        # slope = b / c
        return float(a[1].halfulp + a[2].halfulp) if len(a) >= 3 else 0.0

    # ---------------------------------------------------------------- dimensions
    def dim_of_qt(self, qt, stack=()):
        if qt in self._dim_memo:
            return self._dim_memo[qt]
        b = self.base_of.get(qt)
        if b is None or qt in stack:
            return {("Q", qt): 1}
        d = self.dim_of_symbol(b, stack + (qt,), qt)
        self._dim_memo[qt] = d
        return d

    def dim_of_symbol(self, sym, stack, own_qt):
        if sym in unitgrammar.BASE_ATOMS:
            return {sym: 1}
        if sym in unitgrammar.SI_ATOMS:
            return dict(unitgrammar.SI_ATOMS[sym])
        p = self.decompose(sym)
        if p is None:
            return {("Q", own_qt): 1}
        out = collections.Counter()
        for u, e, _ in p:
            uqt = self.tb.units[u].qt
            du = self.dim_of_symbol(u, stack, uqt) if self.base_of.get(uqt) == u else self.dim_of_qt(uqt, stack)
            for k, v in du.items():
                out[k] += v * e
        return {k: v for k, v in out.items() if v}

    def decompose(self, sym):
        if sym in self.aliases:
            u, pref = self.aliases[sym]
            return [(u, 1, pref)]
        return unitgrammar.decompose(sym, self.registered)

    def decomposition(self, sym):
        p = self.decompose(sym)
        if p is None:
            return None
        dim = collections.Counter()
        for u, e, _ in p:
            for k, v in self.dim_of_qt(self.tb.units[u].qt).items():
                dim[k] += v * e
        dim = {k: v for k, v in dim.items() if v}
        D = Fraction(1)
        tol = 0.0
        for u, e, pref in p:
            D *= (pref * self.fac[u]) ** e
            tol += abs(e) * self.hu[u]
        return p, dim, D, tol


def _logratio(a, b):
    return math.log(float(a) / float(b))


def _devclass(ratio):
    """Deviation class used in keys: the ratio to 4 significant digits."""
    return "%.6g" % ratio


def _largest_class(items, tol_of):
    """items: [(key, logratio)].  Greedy clustering by tolerance; returns the members of the
    largest cluster and whether it is a strict maximum."""
    clusters = []
    for k, lr in sorted(items, key=lambda x: x[1]):
        for c in clusters:
            if abs(c[0][1] - lr) <= max(tol_of(k), tol_of(c[0][0])):
                c.append((k, lr))
                break
        else:
            clusters.append([(k, lr)])
    clusters.sort(key=len, reverse=True)
    strict = len(clusters) == 1 or len(clusters[0]) > len(clusters[1])
    return clusters[0], strict, clusters


def r1_compound(rep, st):
    tb = st.tb
    accepted = collections.defaultdict(list)  # qt -> [(sym, ratio, tol)]
    aside = collections.defaultdict(list)  # (qt, dimkey) -> [(sym, ratio, tol)]
    n_dec = 0
    for sym, row in tb.units.items():
        dec = st.decomposition(sym)
        if dec is None:
            continue
        n_dec += 1
        p, dim, D, ctol = dec
        ratio = st.fac[sym] / D
        tol = max(MIN_TOL, 2 * (st.hu[sym] + ctol))
        if dim == st.dim_of_qt(row.qt):
            accepted[row.qt].append((sym, ratio, tol, p))
        else:
            dk = tuple(sorted((str(k), v) for k, v in dim.items()))
            aside[(row.qt, dk)].append((sym, ratio, tol, p))
            st.set_aside_list.append(sym)
    rep.floor("C06.R1", "decomposable symbols", n_dec, 465)
    n_acc = sum(len(v) for v in accepted.values())
    rep.floor("C06.R1", "dimensionally coherent decompositions", n_acc, 450)
    rep.count("rows set aside by the dimension gate", sum(len(v) for v in aside.values()))

    def judge(group, ref_lr, ref_name, rows):
        for sym, ratio, tol, p in rows:
            row = tb.units[sym]
            lr = math.log(float(ratio))
            dev = lr - ref_lr
            comp = ".".join("%s^%d" % (u, e) if e != 1 else u for u, e, _ in p)
            if abs(dev) <= tol:
                rep.ok("C06.R1", "%s|ok" % sym, "%r (%s): factor %s agrees with %s (reference %s)" % (sym, row.qt, _f(st.fac[sym]), comp, ref_name),
                       file=row.reg.path, line=row.reg.line)
            else:
                r = math.exp(dev)
                expected = float(st.fac[sym]) / r
                rep.bad("C06.R1", "%s|x%s" % (sym, _devclass(r)),
                        "%r (%s): factor %s disagrees with the product of its parts %s by a factor of %s (the parts give about %.7g; reference %s)" % (sym, row.qt, _f(st.fac[sym]), comp, _devclass(r), expected, ref_name),
                        file=row.reg.path, line=row.reg.line, facts={"ratio_to_reference": r, "tolerance": tol})

    for qt, rows in accepted.items():
        base = st.base_of.get(qt)
        base_row = [r for r in rows if r[0] == base]
        if base_row:
            judge(qt, math.log(float(base_row[0][1])), "base row %r" % base, rows)
            continue
        if len(rows) < 2:
            rep.ok("C06.R1", "%s|single" % rows[0][0], "%r is the only decomposable row of %r and its base row does not decompose: nothing to compare with" % (rows[0][0], qt))
            continue
        tol_of = {r[0]: r[2] for r in rows}
        cls, strict, clusters = _largest_class([(r[0], math.log(float(r[1]))) for r in rows], lambda k: tol_of[k])
        if not strict:
            names = [[k for k, _ in c] for c in clusters[:2]]
            rep.bad("C06.R1", "%s|tie" % "+".join(sorted(names[0] + names[1])), "rows %s and %s of %r disagree with each other about the unit composition and there is no majority" % (names[0], names[1], qt),
                    file=tb.units[names[0][0]].reg.path, line=tb.units[names[0][0]].reg.line)
            continue
        ref = sum(lr for _, lr in cls) / len(cls)
        judge(qt, ref, "agreement class of %d rows" % len(cls), rows)
    for (qt, dk), rows in aside.items():
        if len(rows) < 3:
            continue
        tol_of = {r[0]: r[2] for r in rows}
        cls, strict, clusters = _largest_class([(r[0], math.log(float(r[1]))) for r in rows], lambda k: tol_of[k])
        if not strict or len(cls) < 2:
            continue
        ref = sum(lr for _, lr in cls) / len(cls)
        judge(qt, ref, "agreement class of %d set-aside rows with the same decomposition vector" % len(cls), rows)


def _f(fr):
    return "%.9g" % float(fr)


def _norm_name(s):
    s = s.lower().strip()
    for a, b in (("metres", "meter"), ("metre", "meter"), ("meters", "meter"), ("litres", "liter"), ("litre", "liter"), ("liters", "liter")):
        s = s.replace(a, b)
    if s.endswith("s") and not s.endswith("ss"):
        s = s[:-1]
    return s.replace("-", "").replace(" ", "")


def r2_prefixed(rep, st):
    tb = st.tb
    n = 0
    for sym, row in tb.units.items():
        if st.decompose(sym) is not None:
            continue
        for psym, (pname, power) in unitgrammar.SI_PREFIXES.items():
            if not sym.startswith(psym) or len(sym) <= len(psym):
                continue
            other = sym[len(psym):]
            orow = tb.units.get(other)
            if orow is None or orow.qt != row.qt:
                continue
            names = unitgrammar.PREFIX_NAME_VARIANTS.get(pname, (pname,))
            nm = _norm_name(row.name)
            if not any(nm == _norm_name(v + orow.name) or nm == _norm_name(v + " " + orow.name) for v in names):
                continue
            n += 1
            ratio = st.fac[sym] / st.fac[other]
            want = Fraction(10) ** power
            tol = max(MIN_TOL, 2 * (st.hu[sym] + st.hu[other]))
            dev = math.log(float(ratio) / float(want))
            if abs(dev) <= tol:
                rep.ok("C06.R2", "%s|ok" % sym, "%r (%s) = 10^%d x %r (%s)" % (sym, row.name, power, other, orow.name), file=row.reg.path, line=row.reg.line)
            else:
                rep.bad("C06.R2", "%s|x%s" % (sym, _devclass(math.exp(dev))),
                        "%r is named %r, i.e. 10^%d x %r (%s), but its factor %s is %s times that (expected %.7g)" % (sym, row.name, power, other, orow.name, _f(st.fac[sym]), _devclass(math.exp(dev)), float(want * st.fac[other])),
                        file=row.reg.path, line=row.reg.line)
            break
    rep.floor("C06.R2", "SI-prefixed atomic rows", n, 73)
