"""C07  Quantities are immutable values with sound equality, hash and copying."""
import ast

from .. import prov
from ..cfg import CFG
from ..report import AnalysisError, norm
from ..srcmodel import own_nodes, own_statements
from ..terms import Resolver, alternatives, fields_in, params_in, show, walk

PROP = "C07"
EXHAUSTIVE = True
EXPLANATION = (
    "Decided for all histories from code shape. R1 who-may-write: every store to a Quantity slot anywhere in the library "
    "is in Quantity.__init__, or is one of the two memo slots written in a getter from frozen fields only; no store "
    "through a non-self receiver. R2: every Set* mutator must-raise ReadOnlyError. R3 ownership (provenance analysis, two "
    "container levels): no mutation sink of the library can reach the composing map of a Quantity at depth 0 (the ordered "
    "map) or 1 (the [unit, exp] lists) - every sink and every call-site obligation of parameter-mutating helpers "
    "(_MatchQuantities, _DoOperationResultingInNewQuantity) is enumerated; a shallow copy leaves depth 1 shared and is a "
    "violation. R4 capture: what is stored into a composing map is fresh at depths 0-1 at every in-repo construction "
    "site, and the public copying constructors do not capture their argument. R5 interning: in ObtainQuantity every "
    "constructed Quantity is stored under a cache key on the same path, every return is a cache hit or such a stored "
    "object, and every key mentions unit, category and caption. R6: fields read by __hash__ are a subset of those read "
    "by __eq__, which reads the composing map and the caption. R7: copy hooks return self. R8: __reduce__ appends exactly "
    "one trailing caption element on every path and _ObtainReduced removes exactly one from the end."
)
TRUSTED = ["hand-written provenance summaries of ~40 stdlib callables (copy, deepcopy, list, dict, OrderedDict, items, zip, ...)"]
ASSUMPTIONS = ["objects freshly built by pickle (the unpickling entry _ObtainReduced) are not shared with anything else"]

MAP = "_category_to_unit_and_exps"
MEMO_SLOTS = {"_hash", "_composing_units_joining_exponents"}
BOUNDARY = ("Quantity.CreateDerived", "Quantity._CreateDerived", "Quantity.MakeCopy", "Quantity.CreateCopyInstance")


def run(rep, ctx):
    rep.run_rule("C07.R1", "Quantity slots are stored only by __init__ (memo slots: only in a getter, from frozen fields)", r1_frozen, ctx)
    rep.run_rule("C07.R2", "every Set* mutator of Quantity must-raise ReadOnlyError", r2_mutators, ctx)
    rep.run_rule("C07.R3", "no mutation sink reaches a Quantity's composing map at depth 0 or 1 (all sinks and call-site obligations)", r3_ownership, ctx)
    rep.run_rule("C07.R4", "values captured into a composing map are fresh at depths 0-1; copying constructors do not capture their argument", r4_capture, ctx)
    rep.run_rule("C07.R5", "ObtainQuantity interns: constructed quantities are cached on the same path under keys mentioning unit, category and caption", r5_interning, ctx)
    rep.run_rule("C07.R6", "hash reads a subset of what eq reads; eq reads the composing map and the caption", r6_eq_hash, ctx)
    rep.run_rule("C07.R7", "copy hooks return the object itself", r7_copies, ctx)
    rep.run_rule("C07.R8", "pickle layout: __reduce__ appends one trailing caption element, _ObtainReduced pops exactly it", r8_pickle, ctx)
    rep.not_decided.append("that two different requests resolve to unequal quantities beyond key completeness (R5) and eq reading all identity fields (R6)")


def _slots(m):
    ci = m.cls("Quantity")
    v = ci.class_attrs.get("__slots__")
    if not isinstance(v, (ast.List, ast.Tuple)):
        raise AnalysisError("Quantity.__slots__ is not a literal list")
    s = {e.value for e in v.elts if isinstance(e, ast.Constant) and isinstance(e.value, str)} - {"__weakref__"}
    if len(s) < 8:
        raise AnalysisError("Quantity.__slots__ lists only %d fields" % len(s))
    return s


def r1_frozen(rep, ctx):
    m = ctx.model
    slots = _slots(m)
    ti = ctx.prov.ti
    qfam = m.family("Quantity")
    n = 0
    for fn in m.funcs.values():
        if fn.path.endswith("posc.py") and fn.name.startswith("Fill"):
            continue
        res = None
        for node in own_nodes(fn.node):
            stores = []
            if isinstance(node, ast.AnnAssign) and node.value is None:
                continue  # a bare annotation stores nothing
            if isinstance(node, (ast.Assign, ast.AugAssign, ast.AnnAssign)):
                tg = node.targets if isinstance(node, ast.Assign) else [node.target]
                val = getattr(node, "value", None)
                for t in tg:
                    for x in ([t] if not isinstance(t, (ast.Tuple, ast.List)) else t.elts):
                        if isinstance(x, ast.Attribute) and x.attr in slots:
                            stores.append((x, val))
            elif isinstance(node, ast.Delete):
                for x in node.targets:
                    if isinstance(x, ast.Attribute) and x.attr in slots:
                        stores.append((x, None))
            elif isinstance(node, ast.Call) and isinstance(node.func, ast.Name) and node.func.id in ("setattr", "delattr") and len(node.args) >= 2:
                cl = ti.expr_classes(node.args[0], fn)
                if cl and cl & qfam:
                    n += 1
                    rep.bad("C07.R1", "%s:%s" % (fn.qual.split(".", 2)[-1], norm(ast.unparse(node))[:80]), "setattr on a Quantity", node=node, fn=fn)
            for x, val in stores:
                recv = x.value
                is_self = isinstance(recv, ast.Name) and fn.params and recv.id == fn.params[0] and fn.is_method
                if is_self and fn.cls not in qfam:
                    continue  # same-named field of another class
                if not is_self:
                    cl = ti.expr_classes(recv, fn)
                    if cl is not None and not (cl & qfam):
                        continue
                    if cl is None and x.attr not in (slots - {"_unit_database", "_quantity_type", "_unit", "_category", "_hash"}) and x.attr != MAP:
                        # untyped receiver and a field name other classes use as well
                        owners = set(ctx.prov.field_owner(x.attr))
                        if owners - qfam:
                            continue
                n += 1
                key = "%s:%s" % (fn.qual.split(".", 2)[-1], norm(ast.unparse(enclosing(node)))[:90])
                if not is_self:
                    rep.bad("C07.R1", key, "slot %s of a Quantity is written through a non-self receiver" % x.attr, node=node, fn=fn)
                elif fn.name == "__init__" and fn.cls == "Quantity":
                    rep.ok("C07.R1", key, "slot %s is initialised by the constructor" % x.attr, node=node, fn=fn)
                elif x.attr in MEMO_SLOTS and val is not None:
                    res = res or Resolver(m, fn)
                    t = res.term(val)
                    ps = {p for p in params_in(t) if p != 0}
                    fl = {f_ for f_ in fields_in(t) if m.lookup("Quantity", f_) is None}  # method names are not state
                    ok = not ps and fl <= (slots - MEMO_SLOTS) and not any(s[0] in ("name",) and s[1] not in ("tuple", "hash", "list", "OrderedDict", "dict") for s in walk(t) if s[0] == "name" and False)
                    rep.check(ok, "C07.R1", key, "memo slot %s is filled from frozen fields %s only" % (x.attr, sorted(fl)),
                              "memo slot %s is computed from %s, not only from frozen fields" % (x.attr, show(t, 160)), node=node, fn=fn)
                else:
                    rep.bad("C07.R1", key, "slot %s of a Quantity is written after construction, in %s" % (x.attr, fn.name), node=node, fn=fn)
    rep.floor("C07.R1", "slot stores", n, 11)
    rep.count("slots", len(slots))


def enclosing(node):
    return node


def r2_mutators(rep, ctx):
    m = ctx.model
    ci = m.cls("Quantity")
    muts = [f for name, f in ci.methods.items() if name.startswith("Set") and f.cls == "Quantity"]
    rep.floor("C07.R2", "Set* methods", len(muts), 1)
    for fn in muts:
        cfg = CFG(fn.node)
        reach = cfg.reach(cfg.ENTRY)
        raises = [n for n in reach if cfg.kind[n] == "raise"]
        ok_exc = all(isinstance(cfg.ast[n].exc, ast.Call) and _is_readonly(m, cfg.ast[n].exc.func) or (cfg.ast[n].exc is not None and _is_readonly(m, cfg.ast[n].exc)) for n in raises)
        must = cfg.EXIT not in reach and bool(raises)
        rep.check(must and ok_exc, "C07.R2", "Quantity.%s" % fn.name, "always raises ReadOnlyError",
                  "can return normally" if not must else "raises something else than ReadOnlyError", fn=fn)
    # no other method of Quantity stores state (R1 covers stores); interface setters that are missing raise AttributeError, which is fine


def _is_readonly(m, e):
    name = e.id if isinstance(e, ast.Name) else (e.attr if isinstance(e, ast.Attribute) else None)
    return name is not None and name in m.classes and "ReadOnlyError" in m.mro(name)


def _map_atoms(atoms, maxdepth=1):
    return [a for a in atoms if a[0] == "F" and a[2] == MAP and a[3] <= maxdepth]


def r3_ownership(rep, ctx):
    a = ctx.prov
    m = ctx.model
    n_reach = 0
    n_via = 0
    for fn, sk in a.sinks():
        key_fn = fn.qual.split(".", 2)[-1]
        stmt = norm(ast.unparse(sk["node"]))[:80]
        if sk["kind"] == "via":
            callee = sk["callee"].split(".")[-1]
            # obligations only for helpers that mutate a parameter which call sites feed from a composing map
            hits = _map_atoms(sk["atoms"])
            involved = hits or _is_map_helper(a, sk)
            if not involved:
                continue
            n_via += 1
            key = "%s:via:%s(%s@%d):%s" % (key_fn, callee, sk["param"], sk["depth"], stmt)
            rep.check(not hits, "C07.R3", key,
                      "argument %s of %s (mutated at depth %d) is %s at that depth: not a Quantity's own map" % (sk["param"], callee, sk["depth"], prov.fmt_atoms(sk["atoms"])),
                      "%s mutates its argument %s at depth %d, and this call passes a Quantity's own composing map there (%s): a cached quantity would be corrupted" % (callee, sk["param"], sk["depth"], prov.fmt_atoms(sk["atoms"])),
                      node=sk["node"], fn=fn, facts={"entry": fn.qual, "callee": sk["callee"]})
            continue
        hits = _map_atoms(sk["atoms"])
        if hits or MAP in sk.get("target", ""):
            n_reach += 1
            key = "%s:%s:%s" % (key_fn, sk["kind"], stmt)
            rep.check(not hits, "C07.R3", key, "mutates %s, which is %s" % (sk["target"], prov.fmt_atoms(sk["atoms"])),
                      "mutation of %s reaches a Quantity's composing map at depth %s (%s)" % (sk["target"], sorted({h[3] for h in hits}), prov.fmt_atoms(sk["atoms"])),
                      node=sk["node"], fn=fn)
    # every sink of the library is classified; record the totals
    total = sum(1 for _ in a.sinks())
    rep.count("mutation sinks examined", total)
    rep.floor("C07.R3", "call-site obligations of map-mutating helpers", n_via, 2)
    # the references handed out must be followed: the getter returns the field itself, so its callers are the ones checked above
    g = m.func("Quantity.GetCategoryToUnitAndExps")
    ret = a.sum[g.qual].ret
    rep.ok("C07.R3", "Quantity.GetCategoryToUnitAndExps:ret", "getter hands out %s; every use of its result is covered by the sink enumeration" % ret, fn=g)
    c = m.func("Quantity.GetCategoryToUnitAndExpsCopy")
    rc = a.sum[c.qual].ret
    bad = _map_atoms(rc.lv[0]) + _map_atoms(rc.lv[1])
    bad_p = [x for x in (rc.lv[0] | rc.lv[1]) if x[0] == "P" and x[2] <= 1]
    rep.check(not bad and not bad_p, "C07.R3", "Quantity.GetCategoryToUnitAndExpsCopy:ret", "the copy is fresh at depth 0 and 1 (%s)" % rc,
              "the 'copy' shares %s with the original at depth <= 1 (a shallow copy leaves the [unit, exp] lists shared)" % prov.fmt_atoms(set(bad + bad_p)), fn=c)


def _is_map_helper(a, sk):
    """Callee is one of the helpers whose mutated parameter is fed from composing maps somewhere."""
    return sk["callee"].split(".")[-1] in ("_MatchQuantities", "_DoOperationResultingInNewQuantity", "_DoOperationWithSameQuantity")


def r4_capture(rep, ctx):
    a = ctx.prov
    m = ctx.model
    n = 0
    for q, sm in a.sum.items():
        fn = m.funcs[q]
        for cs in getattr(sm, "cap_sites", None) or []:
            if cs["attr"] != MAP:
                continue
            arg = _dict_construction(cs["node"])
            if arg is None:
                continue  # strings / tuples handed to ObtainQuantity are immutable: nothing to share
            n += 1
            v = a.value(fn, arg)
            atoms = set(v.lv[0]) | set(v.lv[1])
            shared = [x for x in atoms if x[0] == "F" and x[3] <= 1 and not a.field_imm(x[1], x[2])]
            unknown = [x for x in v.lv[0] if x == prov.UNK]
            key = "%s:%s" % (fn.qual.split(".", 2)[-1], norm(ast.unparse(cs["node"]))[:90])
            rep.check(not shared, "C07.R4", key, "the map captured by the new Quantity is %s / %s (fresh, immutable or the caller's argument)" % (prov.fmt_atoms(v.lv[0]), prov.fmt_atoms(v.lv[1])),
                      "a Quantity is built around containers that stay reachable from %s: later writes through that path change the quantity" % prov.fmt_atoms(set(shared)),
                      node=cs["node"], fn=fn)
    rep.floor("C07.R4", "capture sites", n, 2)
    # public copying constructors must not keep their argument (depth 0 and 1)
    for qual in BOUNDARY:
        fn = m.func(qual)
        cap = a.sum[fn.qual].captures.get(("Quantity", MAP))
        if cap is None:
            raise AnalysisError("%s no longer builds a Quantity from its argument" % qual)
        kept = sorted(x for x in (set(cap.lv[0]) | set(cap.lv[1])) if x[0] == "P" and x[2] <= 1)
        rep.check(not kept, "C07.R4", "boundary:%s" % qual, "copies its argument at depth 0 and 1 before it becomes a Quantity's map",
                  "keeps its caller's map (%s) inside the new Quantity instead of copying it: operations that go on editing their working map would edit a cached quantity" % prov.fmt_atoms(set(kept)), fn=fn)


def _dict_construction(call):
    """The argument of a Quantity-building call that is (syntactically) a dict being constructed."""
    for x in list(call.args) + [k.value for k in call.keywords]:
        if isinstance(x, (ast.Dict, ast.DictComp)):
            return x
        if isinstance(x, ast.Call) and isinstance(x.func, ast.Name) and x.func.id in ("OrderedDict", "dict"):
            return x
    return None


def interning_functions(m):
    """ObtainQuantity and every other function outside the unit database that stores into the intern table
    (a phase of ObtainQuantity that other code calls directly): the interning discipline is checked for each."""
    out = [m.func("ObtainQuantity")]
    for q, fn in sorted(m.funcs.items()):
        if fn is out[0] or fn.cls == "UnitDatabase" or fn.parent is not None or "quantities_cache" not in ast.unparse(fn.node):
            continue
        res = Resolver(m, fn)
        for n in own_nodes(fn.node):
            tgt = None
            if isinstance(n, ast.Subscript) and isinstance(n.ctx, ast.Store):
                tgt = n.value
            elif isinstance(n, ast.Call) and isinstance(n.func, ast.Attribute) and n.func.attr in ("setdefault", "update"):
                tgt = n.func.value
            if tgt is not None and any(x[0] == "attr" and x[2] == "quantities_cache" for x in alternatives(res.term(tgt))):
                out.append(fn)
                break
    return out


def r5_interning(rep, ctx):
    m = ctx.model
    for fn in interning_functions(m):
        _interning(rep, m, fn)


def _interning(rep, m, fn):
    main = fn.name == "ObtainQuantity"
    NAME = fn.name
    res = Resolver(m, fn)
    cfg = CFG(fn.node)
    # the cache alias
    def is_cache(e):
        t = res.term(e)
        return any(x[0] == "attr" and x[2] == "quantities_cache" for x in alternatives(t))

    ctor_calls = [n for n in own_nodes(fn.node) if isinstance(n, ast.Call) and isinstance(n.func, ast.Name) and n.func.id == "Quantity"]
    if main:
        rep.floor("C07.R5", "Quantity constructions in ObtainQuantity", len(ctor_calls), 2)
    stored_names = {}
    for c in ctor_calls:
        st = c
        while st is not None and not isinstance(st, ast.stmt):
            st = getattr(st, "_parent", None)
        key = NAME + ":" + norm(ast.unparse(st))[:90]
        ok = False
        keyexprs = []
        if isinstance(st, ast.Assign) and st.value is c:
            for t in st.targets:
                if isinstance(t, ast.Subscript) and is_cache(t.value):
                    ok = True
                    keyexprs.append(t.slice)
            names = [t.id for t in st.targets if isinstance(t, ast.Name)]
            if not ok and names:
                # `q = Quantity(...)` followed by `cache[k] = q`: every path from the construction to an exit
                # must pass such a store
                stores = []
                for s2 in own_statements(fn.node):
                    if isinstance(s2, ast.Assign) and isinstance(s2.value, ast.Name) and s2.value.id in names:
                        for t2 in s2.targets:
                            if isinstance(t2, ast.Subscript) and is_cache(t2.value):
                                stores.append((s2, t2.slice))
                store_nodes = {cfg.node_of(s2) for s2, _ in stores}
                if stores and cfg.EXIT not in cfg.reach(cfg.node_of(st), avoid=store_nodes):
                    ok = True
                    keyexprs += [k_ for _, k_ in stores if cfg.node_of(_) in cfg.reach(cfg.node_of(st))]
            if ok:
                for n_ in names:
                    stored_names.setdefault(n_, []).append(st)
        rep.check(ok, "C07.R5", key, "the new Quantity is stored in the intern table on every path from its construction",
                  "a Quantity is constructed without being stored in the intern table: repeating the request yields a different object", node=st, fn=fn)
        for ke in keyexprs:
            _key_complete(rep, fn, res, cfg, st, ke, c)
    # a request that missed the table under key K and constructs a Quantity must store it under K, so that repeating
    # the request hits: for every lookup whose miss edge lies on every path to a construction, every path from the
    # construction to a normal exit passes a store under the same key term
    lookups = []  # (miss edges {(node, succ, label)}, key term, text)
    for st in own_statements(fn.node):
        par = getattr(st, "_parent", None)
        if isinstance(par, ast.Try) and st in par.body and any(isinstance(h.type, ast.Name) and h.type.id == "KeyError" for h in par.handlers if h.type is not None):
            reads = [x for x in ast.walk(st) if isinstance(x, ast.Subscript) and isinstance(x.ctx, ast.Load) and is_cache(x.value)]
            if len(reads) == 1:
                n_ = cfg.node_of(st)
                lookups.append(({(n_, b_, l_) for (b_, l_) in cfg.succ[n_] if l_ == "exc"}, res.term(reads[0].slice), norm(ast.unparse(reads[0]))))
    for nid in cfg.nodes("test"):
        e = cfg.ast[nid]
        if isinstance(e, ast.Compare) and len(e.ops) == 1 and isinstance(e.ops[0], (ast.Is, ast.IsNot)) and isinstance(e.comparators[0], ast.Constant) and e.comparators[0].value is None:
            t = res.term(e.left)
            if t[0] == "call" and t[1][0] == "attr" and t[1][2] == "get" and len(t[2]) == 1 and not t[3] and any(y[0] == "attr" and y[2] == "quantities_cache" for y in alternatives(t[1][1])):
                lab = "T" if isinstance(e.ops[0], ast.Is) else "F"
                lookups.append(({(nid, b_, l_) for (b_, l_) in cfg.succ[nid] if l_ == lab}, t[2][0], norm(ast.unparse(e.left))))
    all_stores = []  # (node, key term)
    for st in own_statements(fn.node):
        if isinstance(st, ast.Assign):
            for t_ in st.targets:
                if isinstance(t_, ast.Subscript) and is_cache(t_.value):
                    all_stores.append((cfg.node_of(st), res.term(t_.slice)))
        elif isinstance(st, ast.Expr) and isinstance(st.value, ast.Call) and isinstance(st.value.func, ast.Attribute) and st.value.func.attr == "setdefault" and is_cache(st.value.func.value) and st.value.args:
            all_stores.append((cfg.node_of(st), res.term(st.value.args[0])))
    for c in ctor_calls:
        st = c
        while st is not None and not isinstance(st, ast.stmt):
            st = getattr(st, "_parent", None)
        C = cfg.node_of(st)
        for edges, kt, txt in lookups:
            if not edges or C in cfg.reach(cfg.ENTRY, avoid_edges=edges):
                continue  # the construction can be reached without this lookup having missed
            under = {n_ for n_, k_ in all_stores if k_ == kt}
            ok = C in under or (bool(under) and cfg.EXIT not in cfg.reach(C, avoid=under))
            rep.check(ok, "C07.R5", NAME + ":miss-key-stored:%s@%s" % (txt[:40], norm(ast.unparse(st))[:40]), "a Quantity constructed after a miss under a key is stored under that key",
                      "after the lookup `%s` missed, the new Quantity is not stored under that same key on every path: repeating the very same request misses again and builds another object (the identical-object guarantee is lost, and the shared instance of the resolved spelling is replaced)" % txt,
                      node=st, fn=fn)
    # a store never replaces an entry: every store under a key is made only where a lookup under that same key missed
    # (otherwise an object handed out before is replaced by a new, equal one: the identical-object guarantee is lost)
    for sn, kt in all_stores:
        missed = [edges for edges, kt2, _txt in lookups if kt2 == kt and edges]
        ok = any(sn not in cfg.reach(cfg.ENTRY, avoid_edges=edges) for edges in missed)
        stx = cfg.ast[sn]
        if not ok and len(alternatives(kt)) > 1:
            # a key variable that is re-bound on some paths (`resolved_key = key` ... `resolved_key = (category, unit, caption)`):
            # each binding is held to the rule from where it is made - every path from the binding to the store passes the
            # miss edge of a lookup under that binding's key
            key_names = [t_.slice for t_ in getattr(stx, "targets", []) if isinstance(t_, ast.Subscript) and is_cache(t_.value) and isinstance(t_.slice, ast.Name) and res.term(t_.slice) == kt]
            if key_names:
                per = []
                for ost, ot in res.origins(key_names[0]):
                    m_ = [edges for edges, kt2, _txt in lookups if kt2 == ot and edges]
                    start = cfg.node_of(ost) if ost is not None else cfg.ENTRY
                    per.append(any(sn not in cfg.reach(start, avoid_edges=edges) or sn not in cfg.reach(cfg.ENTRY, avoid_edges=edges) for edges in m_))
                ok = bool(per) and all(per)
        rep.check(ok, "C07.R5", NAME + ":store-after-miss:%s" % norm(ast.unparse(stx))[:70], "the intern table is written under a key only where a lookup under that key missed",
                  "`%s` stores under a key that was not looked up (and found missing) on every path to the store: an entry that other requests already received is replaced by a new object"
                  % norm(ast.unparse(stx))[:90], node=stx, fn=fn)
    # every store into the intern table: the key must be made of the request's own components
    # (as asked or as resolved); a constant component makes the entry answer requests that did not
    # resolve to this object
    n_stores = 0

    class _KeyOnly:
        """`cache.setdefault(key, value)` / `cache.update({key: value})` seen as a store under `key`"""

        def __init__(self, key):
            self.slice = key
            self.value = None

    for st in own_statements(fn.node):
        pseudo = []
        if isinstance(st, ast.Expr) and isinstance(st.value, ast.Call) and isinstance(st.value.func, ast.Attribute) and st.value.func.attr == "setdefault" and is_cache(st.value.func.value) and st.value.args:
            pseudo = [_KeyOnly(st.value.args[0])]
        if not isinstance(st, ast.Assign) and not pseudo:
            continue
        for t in (pseudo or st.targets):
            if pseudo or (isinstance(t, ast.Subscript) and is_cache(t.value)):
                n_stores += 1
                kt = res.term(t.slice)
                consts = []
                for a in alternatives(kt):
                    comps = a[1] if a[0] == "tuple" else ()
                    for i, c_ in enumerate(comps):
                        if c_[0] == "const":
                            consts.append((i, c_[1]))
                ok = True
                why = ""
                if consts:
                    facts = cfg.facts_at(cfg.node_of(st))
                    justified = any(isinstance(e, ast.Compare) and isinstance(e.ops[0], ast.Eq) and v and any(x[0] == "call" and x[1][0] == "attr" and x[1][2] == "GetDefaultCategory" for x in walk(res.term(e))) for e, v in facts)
                    ok = justified
                    why = "component(s) %s of the key are constants" % consts
                rep.check(ok, "C07.R5", NAME + ":store-key:%s" % norm(ast.unparse(st))[:80], "the entry is stored under a key made of the request's own category, unit and caption",
                          "`%s`: %s, so the entry also answers requests that name no category although their default category may differ from this object's: Scalar(v, u) and Scalar(v, u, default category of u) stop being equal after such a store"
                          % (norm(ast.unparse(st))[:100], why), node=st, fn=fn)
    if main:
        rep.floor("C07.R5", "stores into the intern table", n_stores, 2)
    # returns: cache hit or a name assigned by such a statement in that arm
    for r in cfg.returns():
        st = cfg.ast[r]
        v = st.value
        key = NAME + ":ret:%s@%s" % (norm(ast.unparse(st)), _arm(cfg, r))
        def cache_hit_term(x):
            # cache[k]  or  cache.get(k) (a None result is excluded by a dominating `is not None` test)
            if x[0] == "sub" and any(y[0] == "attr" and y[2] == "quantities_cache" for y in alternatives(x[1])):
                return True
            if x[0] == "call" and x[1][0] == "attr" and x[1][2] == "get" and any(y[0] == "attr" and y[2] == "quantities_cache" for y in alternatives(x[1][1])) and len(x[2]) == 1:
                from ..facts import facts as nfacts, none_fact
                for f_ in nfacts(cfg, r):
                    nf = none_fact(f_)
                    if nf and res.term(nf[0]) == x and not nf[1]:
                        return True
            return False
        if isinstance(v, ast.Subscript) and is_cache(v.value):
            # the key of a hit must identify the request: its components are the request's own arguments or what
            # they resolve to (default category of the unit, default unit of the category, rewritten legacy unit)
            kt = res.term(v.slice)
            foreign = []
            for a_ in alternatives(kt):
                if a_[0] != "tuple":
                    continue
                for c_ in a_[1]:
                    for x_ in walk(c_):
                        if x_[0] == "call":
                            fname = x_[1][2] if x_[1][0] == "attr" else x_[1][1] if x_[1][0] in ("name", "field") else None
                            # another query of the database (quantity type, base unit, category info ...) in the key
                            if isinstance(fname, str) and fname.startswith("Get") and fname not in ("GetDefaultCategory", "GetDefaultUnit", "GetSingleton"):
                                foreign.append("%s(...)" % fname)
            rep.check(not foreign, "C07.R5", key, "returns a cache hit under a key made of the request's own components",
                      "returns the cache entry stored under a key with the component(s) %s, which do not identify the request: a quantity of another category is returned (Scalar(v, u) and Scalar(v, u, default category of u) stop being equal)" % sorted(set(foreign)),
                      node=st, fn=fn)
        elif isinstance(v, ast.Name) and v.id not in stored_names and all(cache_hit_term(x) for x in alternatives(res.term(v))):
            rep.ok("C07.R5", key, "returns a cache hit", node=st, fn=fn)
        elif isinstance(v, ast.Name) and v.id not in stored_names and all(
                (st_ is not None and any(st_ is s2 for lst in stored_names.values() for s2 in lst)) or cache_hit_term(t_) for st_, t_ in res.origins(v)):
            # a copy of a name assigned by a caching statement (result variable of an extracted helper)
            rep.ok("C07.R5", key, "returns the object that was just stored in the intern table", node=st, fn=fn)
        elif isinstance(v, ast.Name) and v.id in stored_names:
            # the reaching definitions of the name at this return are all caching assignments
            t = res.term(v)

            def hit_by_path(x):
                """`q = cache.get(k)` / `if q is None: q = cache[k] = Quantity(...)` / `return q`: the looked-up value reaches
                the return only over the edge on which it is not None (the other edge re-binds the name)"""
                if not (x[0] == "call" and x[1][0] == "attr" and x[1][2] == "get" and len(x[2]) == 1 and any(y[0] == "attr" and y[2] == "quantities_cache" for y in alternatives(x[1][1]))):
                    return False
                defs_ = [s2 for s2 in own_statements(fn.node) if isinstance(s2, ast.Assign) and any(isinstance(t2, ast.Name) and t2.id == v.id for t2 in s2.targets)]
                src_ = [s2 for s2 in defs_ if res.term(s2.value) == x]
                if len(src_) != 1:
                    return False
                others = {cfg.node_of(s2) for s2 in defs_ if s2 is not src_[0]}
                notnone = set()
                for nid in cfg.nodes("test"):
                    e_ = cfg.ast[nid]
                    if isinstance(e_, ast.Compare) and len(e_.ops) == 1 and isinstance(e_.ops[0], (ast.Is, ast.IsNot)) and isinstance(e_.comparators[0], ast.Constant) and e_.comparators[0].value is None \
                            and isinstance(e_.left, ast.Name) and e_.left.id == v.id:
                        lab_ = "F" if isinstance(e_.ops[0], ast.Is) else "T"
                        notnone |= {(nid, b_, l_) for (b_, l_) in cfg.succ[nid] if l_ == lab_}
                return bool(notnone) and r not in cfg.reach(cfg.node_of(src_[0]), avoid=others, avoid_edges=notnone)

            ok = all((x[0] == "call" and x[1] == ("name", "Quantity")) or cache_hit_term(x) or hit_by_path(x) for x in alternatives(t))
            rep.check(ok, "C07.R5", key, "returns the object that was just stored in the intern table",
                      "may return an object that was not stored in the intern table (%s)" % show(t, 160), node=st, fn=fn)
        elif not main and isinstance(v, ast.Call) and isinstance(v.func, ast.Name) and v.func.id == "ObtainQuantity":
            rep.ok("C07.R5", key, "returns what ObtainQuantity returns", node=st, fn=fn)
        elif isinstance(v, ast.Call) and isinstance(v.func, ast.Name) and v.func.id == fn.name:
            # the function delegates to itself with a simplified request: every part of the request must be handed on
            from ..facts import bind_args
            b_ = bind_args(v, fn, skip_self=False)
            cap = b_.get("unknown_unit_caption")
            full = all(k_ in b_ for k_ in ("unit", "category")) and cap is not None and res.term(cap) == ("param", fn.params.index("unknown_unit_caption"), "unknown_unit_caption")
            rep.check(full, "C07.R5", key, "delegates to itself with the (simplified) unit and category and the same caption",
                      "`%s` re-enters ObtainQuantity without handing on %s: the request resolves to a quantity that lacks it (captioned and caption-less requests share one object; a pickled quantity with a caption comes back without it)"
                      % (norm(ast.unparse(v))[:80], [k_ for k_ in ("unit", "category", "unknown_unit_caption") if k_ not in b_] or ["the caller's caption"]), node=st, fn=fn)
        else:
            rep.bad("C07.R5", key, "returns something that is neither a cache hit nor a freshly interned object", node=st, fn=fn)


def _arm(cfg, nid):
    return "L%d" % getattr(cfg.ast[nid], "lineno", 0) if False else "arm%d" % sorted(cfg.returns()).index(nid)


def _key_complete(rep, fn, res, cfg, st, keyexpr, ctor):
    """Every identity input that reaches the constructor must be mentioned by the key."""
    kt = res.term(keyexpr)
    kparams = params_in(kt)
    # weak updates of containers the key is built from (key.append(caption))
    knames = {x.id for x in ast.walk(keyexpr) if isinstance(x, ast.Name)}
    grew = True
    while grew:  # locals the key is computed from (derived_key = tuple(key))
        grew = False
        for st2 in own_statements(fn.node):
            if isinstance(st2, ast.Assign) and any(isinstance(t_, ast.Name) and t_.id in knames for t_ in st2.targets):
                more = {x.id for x in ast.walk(st2.value) if isinstance(x, ast.Name)} - knames
                if more:
                    knames |= more
                    grew = True
    for n in own_nodes(fn.node):
        if isinstance(n, ast.Call) and isinstance(n.func, ast.Attribute) and n.func.attr in ("append", "extend", "add", "insert") \
                and isinstance(n.func.value, ast.Name) and n.func.value.id in knames:
            for a_ in n.args:
                kparams |= params_in(res.term(a_))
    # identity inputs = parameters (by position) that flow into the constructor arguments
    cparams = set()
    for a_ in ctor.args:
        cparams |= params_in(res.term(a_))
    missing = sorted(cparams - kparams)
    # `category` may be absent from the key when a dominating assert says it is None
    if 1 in missing and fn.name == "ObtainQuantity":
        facts = cfg.facts_at(cfg.node_of(st))
        asserted_none = False
        for n in cfg.nodes("assert"):
            e = cfg.ast[n].test
            if isinstance(e, ast.Compare) and isinstance(e.ops[0], ast.Is) and isinstance(e.comparators[0], ast.Constant) and e.comparators[0].value is None:
                tt = res.term(e.left)
                if any(x[0] == "param" and x[1] == 1 for x in alternatives(tt)) and cfg.dominated_by_node(cfg.node_of(st), lambda k, a, n_=cfg.ast[n]: a is n_):
                    asserted_none = True
        # or the constructor receives None for it
        if asserted_none:
            missing.remove(1)
    names = [fn.params[i] for i in missing]
    key = fn.name + ":key:%s" % norm(ast.unparse(keyexpr))[:70] + "@" + norm(ast.unparse(st))[:40]
    rep.check(not missing, "C07.R5", key, "the cache key mentions every input that determines the constructed Quantity (%s)" % sorted(fn.params[i] for i in kparams),
              "the cache key does not mention %s, which the constructed Quantity depends on: different requests share one cache entry" % names, node=st, fn=fn,
              facts={"key": show(kt, 200)})


def _reads(m, fn):
    res = Resolver(m, fn)
    out = set()
    me = fn.params[0]
    for n in own_nodes(fn.node):
        if isinstance(n, ast.Attribute) and isinstance(n.ctx, ast.Load) and isinstance(n.value, ast.Name) and n.value.id == me:
            if m.lookup(fn.cls, n.attr) is None or m.lookup_property(fn.cls, n.attr):
                out.add(n.attr)
    return out


def r6_eq_hash(rep, ctx):
    m = ctx.model
    n = 0
    for cname, ci in m.classes.items():
        h = ci.methods.get("__hash__")
        e = m.lookup(cname, "__eq__")
        if h is None or e is None:
            continue
        # classes that declare themselves unhashable
        if any(isinstance(x, ast.Raise) for x in own_nodes(h.node)) and not any(isinstance(x, ast.Return) for x in own_nodes(h.node)):
            continue
        n += 1
        hr = _reads(m, h) - MEMO_SLOTS
        er = _reads(m, e)
        # properties / getters: normalise value -> _value etc. by comparing also underscore-less names
        norm_ = lambda s: {x.lstrip("_") for x in s}
        extra = norm_(hr) - norm_(er)
        rep.check(not extra, "C07.R6", "%s:hash-subset-eq" % cname, "hash reads %s, all of which eq reads too" % sorted(hr),
                  "hash depends on %s, which eq ignores: equal objects can have different hashes" % sorted(extra), fn=h)
        # path-sensitive part: whenever __eq__ answers True, every field the hash reads was compared equal (a
        # comparison that sits in one arm of an `or`, or behind a condition, lets equal objects hash differently).
        # Decided by the truth table of __eq__ over its leaf tests.
        from .. import booleval
        if len(e.params) >= 2:
            me, ot = e.params[0], e.params[1]
            try:
                leaves, tt = booleval.truth_table_auto(e.node)
            except booleval.Unknown:
                leaves, tt = [], None

            def leaf_nodes():
                for x in ast.walk(e.node):
                    if isinstance(x, ast.Compare) and len(x.ops) == 1:
                        yield x

            def field_eq_atoms(f):
                out = []
                for st in leaf_nodes():
                    if isinstance(st.ops[0], ast.Eq):
                        l, r = st.left, st.comparators[0]
                        names_l = {(y.value.id, y.attr.lstrip("_")) for y in ast.walk(l) if isinstance(y, ast.Attribute) and isinstance(y.value, ast.Name)}
                        names_r = {(y.value.id, y.attr.lstrip("_")) for y in ast.walk(r) if isinstance(y, ast.Attribute) and isinstance(y.value, ast.Name)}
                        if {(me, f), (ot, f)} <= (names_l | names_r) and ((me, f) in names_l) != ((me, f) in names_r):
                            out.append(ast.unparse(st).replace(" ", ""))
                return out

            # `other is self`: the same object has equal fields
            same_obj = [ast.unparse(x).replace(" ", "") for x in leaf_nodes() if isinstance(x.ops[0], ast.Is) and {ast.unparse(x.left), ast.unparse(x.comparators[0])} == {me, ot}]
            if tt is not None:
                same_idx = [leaves.index(a_) for a_ in same_obj if a_ in leaves]
                for f in sorted({x.lstrip("_") for x in hr}):
                    atoms_f = [a_ for a_ in field_eq_atoms(f) if a_ in leaves]
                    if not atoms_f:
                        continue
                    idx = [leaves.index(a_) for a_ in atoms_f]
                    bad_rows = [vals for vals, res_ in tt.items() if res_ and not any(vals[i_] for i_ in idx) and not any(vals[i_] for i_ in same_idx)]
                    rep.check(not bad_rows, "C07.R6", "%s:eq-implies-equal:%s" % (cname, f), "whenever __eq__ answers True, `%s` was compared equal (the hash reads it)" % f,
                              "%s.__eq__ can answer True without `%s` having been compared equal (the comparison is conditional), while __hash__ always reads it: equal objects can have different hashes" % (cname, f), fn=e)
        if cname == "Quantity":
            need = {MAP, "_unknown_unit_caption"}
            rep.check(need <= er, "C07.R6", "Quantity:eq-identity", "eq compares the composing map and the caption",
                      "eq ignores %s: quantities that differ in it compare equal" % sorted(need - er), fn=e)
            rep.check(need <= hr, "C07.R6", "Quantity:hash-identity", "hash covers the composing map and the caption",
                      "hash ignores %s" % sorted(need - hr), fn=h)
            # the composing map is ordered (unit, category and hash depend on the order): eq must compare it as a
            # sequence, not through the set-like views of a mapping
            for cmp_ in [x for x in own_nodes(e.node) if isinstance(x, ast.Compare) and len(x.ops) == 1 and isinstance(x.ops[0], (ast.Eq, ast.NotEq))]:
                for side in (cmp_.left, cmp_.comparators[0]):
                    view = isinstance(side, ast.Call) and isinstance(side.func, ast.Attribute) and side.func.attr in ("items", "keys") and any(isinstance(y, ast.Attribute) and y.attr == MAP for y in ast.walk(side.func.value))
                    setlike = isinstance(side, ast.Call) and isinstance(side.func, ast.Name) and side.func.id in ("set", "frozenset", "sorted") and any(isinstance(y, ast.Attribute) and y.attr == MAP for y in ast.walk(side))
                    if view or setlike:
                        rep.bad("C07.R6", "Quantity:eq-ordered", "Quantity.__eq__ compares the composing map through `%s`, which ignores the order of the entries, while the hash, the unit and the category strings depend on it: differently ordered quantities compare equal with different hashes" % norm(ast.unparse(side))[:70], node=cmp_, fn=e)
            # and the intern-table key of a derived request keeps the order of the entries
            oq = m.func("ObtainQuantity")
            for c_ in own_nodes(oq.node):
                if isinstance(c_, ast.Call) and isinstance(c_.func, ast.Name) and c_.func.id in ("sorted", "set", "frozenset") and any(isinstance(y, ast.Call) and isinstance(y.func, ast.Attribute) and y.func.attr in ("items", "keys", "values") for y in ast.walk(c_)):
                    rep.bad("C07.R6", "ObtainQuantity:key-ordered", "ObtainQuantity builds a cache key with `%s(...)` over the entries of a composing request: requests that differ only in the order of their factors share one cached Quantity, although unit, category and hash depend on the order" % c_.func.id, node=c_, fn=oq)
    rep.floor("C07.R6", "classes defining both __eq__ and __hash__", n, 1)


def _must_return_self(m, fn, arm_none_param=None):
    cfg = CFG(fn.node)
    res = Resolver(m, fn)
    rets = cfg.returns()
    if not rets:
        return False, "no return"
    bad = []
    for r in rets:
        st = cfg.ast[r]
        if arm_none_param is not None:
            # only the returns dominated by `<param> is None`
            dom = False
            for e, val in cfg.facts_at(r):
                if val and isinstance(e, ast.Compare) and isinstance(e.ops[0], ast.Is) and isinstance(e.left, ast.Name) and e.left.id == arm_none_param:
                    dom = True
            if not dom:
                continue
        t = res.term(st.value)
        ok = all(x == ("self",) or (x[0] == "call" and x[1] in (("field", "Copy"), ("field", "CreateCopyInstance"), ("field", "MakeCopy")) and not x[2]) for x in alternatives(t))
        if not ok:
            bad.append(show(t, 100))
    if arm_none_param is not None and not any(
        any(val and isinstance(e, ast.Compare) and isinstance(e.ops[0], ast.Is) and isinstance(e.left, ast.Name) and e.left.id == arm_none_param for e, val in cfg.facts_at(r)) for r in rets):
        return False, "no return for the no-argument form"
    return not bad, "; ".join(bad)


def r7_copies(rep, ctx):
    m = ctx.model
    for name in ("__copy__", "__deepcopy__", "Copy"):
        fn = m.own_method("Quantity", name)
        if fn is None:
            raise AnalysisError("Quantity.%s not found" % name)
        ok, why = _must_return_self(m, fn)
        rep.check(ok, "C07.R7", "Quantity.%s" % name, "returns self on every path", "can return %s instead of the object itself" % why, fn=fn)
    for name in ("MakeCopy", "CreateCopyInstance"):
        fn = m.own_method("Quantity", name)
        if fn is None:
            raise AnalysisError("Quantity.%s not found" % name)
        ok, why = _must_return_self(m, fn, arm_none_param=fn.params[1])
        rep.check(ok, "C07.R7", "Quantity.%s(None)" % name, "without an argument returns self", "the no-argument form returns %s" % why, fn=fn)


def r8_pickle(rep, ctx):
    m = ctx.model
    # the pickled state lists the composing entries in their own order (unit, category and equality depend on it)
    rd = m.method("Quantity", "__reduce__")
    for c_ in own_nodes(rd.node):
        if isinstance(c_, ast.Call) and isinstance(c_.func, ast.Name) and c_.func.id in ("sorted", "set", "frozenset") and any(isinstance(y, ast.Attribute) and y.attr == MAP for y in ast.walk(c_)):
            rep.bad("C07.R8", "Quantity.__reduce__:ordered-state", "Quantity.__reduce__ builds its state with `%s(...)` over the composing map: a derived quantity whose entries are not already in that order is unpickled as a different (unequal) quantity" % c_.func.id, node=c_, fn=rd)
    red = m.own_method("Quantity", "__reduce__")
    if red is None:
        raise AnalysisError("Quantity.__reduce__ not found")
    res = Resolver(m, red)
    cfg = CFG(red.node)
    rets = cfg.returns()
    extra = []
    if len(rets) != 1:
        # besides the return of (callable, (state list,)) there may be early returns of (callable, (arg, ...)): judged below
        def _std(v_):
            return isinstance(v_, ast.Tuple) and len(v_.elts) == 2 and isinstance(v_.elts[1], ast.Tuple) and len(v_.elts[1].elts) == 1 and isinstance(v_.elts[1].elts[0], ast.Name)
        std = [r_ for r_ in rets if _std(cfg.ast[r_].value)]
        if len(std) != 1:
            raise AnalysisError("Quantity.__reduce__: expected one return")
        extra = [r_ for r_ in rets if r_ not in std]
        rets = std
    rv = cfg.ast[rets[0]].value
    if not (isinstance(rv, ast.Tuple) and len(rv.elts) == 2):
        raise AnalysisError("Quantity.__reduce__: return is not (callable, args)")
    target = rv.elts[0]
    tname = target.id if isinstance(target, ast.Name) else None
    args = rv.elts[1]
    if not (isinstance(args, ast.Tuple) and len(args.elts) == 1 and isinstance(args.elts[0], ast.Name)):
        raise AnalysisError("Quantity.__reduce__: args are not a 1-tuple holding the state list")
    lst = args.elts[0].id
    # appends to the state list: exactly one on every path to the return
    appends = [n for n in cfg.nodes("stmt") if isinstance(cfg.ast[n], ast.Expr) and isinstance(cfg.ast[n].value, ast.Call)
               and isinstance(cfg.ast[n].value.func, ast.Attribute) and cfg.ast[n].value.func.attr == "append"
               and isinstance(cfg.ast[n].value.func.value, ast.Name) and cfg.ast[n].value.func.value.id == lst]
    # every path ENTRY -> return passes exactly one append: (a) return not reachable avoiding all appends, (b) no append reachable from another append
    avoid_all = cfg.reach(cfg.ENTRY, set(appends))
    at_least_one = rets[0] not in avoid_all
    at_most_one = all(not (set(cfg.reach(a_)) & set(appends)) for a_ in appends)
    cap_ok = all(_mentions_caption(res, cfg.ast[a_].value.args[0]) for a_ in appends)
    if not appends:
        # the state written as one list display: [*items, <caption or None>]
        defs_ = [st_ for st_ in own_statements(red.node) if isinstance(st_, (ast.Assign, ast.AnnAssign)) and st_.value is not None
                 and any(isinstance(t_, ast.Name) and t_.id == lst for t_ in (st_.targets if isinstance(st_, ast.Assign) else [st_.target]))]
        if len(defs_) == 1 and isinstance(defs_[0].value, ast.List) and len(defs_[0].value.elts) >= 2 and all(isinstance(e_, ast.Starred) for e_ in defs_[0].value.elts[:-1]) \
                and not isinstance(defs_[0].value.elts[-1], ast.Starred):
            at_least_one = at_most_one = True
            cap_ok = _mentions_caption(res, defs_[0].value.elts[-1])
    rep.check(at_least_one and at_most_one and cap_ok, "C07.R8", "Quantity.__reduce__:one-trailing-caption",
              "exactly one trailing element (the caption or None) is appended to the item list on every path",
              "the state list gets %s trailing caption element on some path" % ("no" if not at_least_one else ("more than one" if not at_most_one else "a non-caption")), fn=red)
    # None stands for "no caption": it is appended only where the caption was found to be empty (judged where the value
    # is built), never because of some other condition - the caption takes part in equality for every unit
    from ..facts import facts as nfacts, none_fact
    CAP = ("field", "_unknown_unit_caption")

    def caption_empty(fs):
        for f in fs:
            k, l, r_, pos = f
            if k == "truth" and not pos and res.term(l) == CAP:
                return True
            nf = none_fact(f)
            if nf and nf[1] and res.term(nf[0]) == CAP:
                return True
            if k == "eq" and pos and r_ is not None and {res.term(l), res.term(r_)} == {CAP, ("const", "")}:
                return True
        return False

    for r_ in extra:
        # an early return that rebuilds straight through the interning function: the caption takes part in equality, so
        # it must be among the arguments unless the caption is known to be empty on that path
        v_ = cfg.ast[r_].value
        if not (isinstance(v_, ast.Tuple) and len(v_.elts) == 2 and isinstance(v_.elts[0], ast.Name) and isinstance(v_.elts[1], ast.Tuple)):
            raise AnalysisError("Quantity.__reduce__: an early return is not (callable, (args...))")
        if any(_mentions_caption(res, a_) for a_ in v_.elts[1].elts) or v_.elts[0].id != "ObtainQuantity":
            raise AnalysisError("Quantity.__reduce__: early return through `%s` with its own arguments: not judged" % v_.elts[0].id)
        rep.check(caption_empty(nfacts(cfg, r_)), "C07.R8", "Quantity.__reduce__:early-return-caption",
                  "the early return leaves the caption out only where the caption is empty",
                  "Quantity.__reduce__ returns `%s` without the unknown-unit caption on a path where the caption was not found to be empty: a captioned quantity is unpickled as a different (unequal) one" % norm(ast.unparse(v_))[:80],
                  node=cfg.ast[r_], fn=red)
    for a_ in appends:
        arg = cfg.ast[a_].value.args[0]
        for st_, t_ in res.origins(arg):
            if t_ != ("const", None):
                continue
            site = cfg.node_of(st_) if st_ is not None else a_
            rep.check(caption_empty(nfacts(cfg, site)), "C07.R8", "Quantity.__reduce__:none-means-no-caption:%d" % appends.index(a_), "None is pickled in place of the caption only where the caption is empty",
                      "Quantity.__reduce__ pickles None instead of the caption on a path where the caption was not found to be empty: a captioned quantity is unpickled as a different (unequal) one", node=cfg.ast[site], fn=red)
    # the items come from the composing map
    items_ok = any(x == ("field", MAP) for x in walk(res.term(ast.Name(id=lst, ctx=ast.Load()), at=rets[0])))
    rep.check(items_ok, "C07.R8", "Quantity.__reduce__:items", "the pickled items are the composing map's items", "the pickled state does not come from the composing map", fn=red)
    if tname is None:
        raise AnalysisError("Quantity.__reduce__: reconstruction callable is not a plain name")
    cands = [f for f in m.by_name.get(tname, []) if f.cls is None]
    if len(cands) != 1:
        raise AnalysisError("reconstruction function %s not found" % tname)
    ob = cands[0]
    ores = Resolver(m, ob)
    pops = [n for n in own_nodes(ob.node) if isinstance(n, ast.Call) and isinstance(n.func, ast.Attribute) and n.func.attr == "pop"
            and isinstance(n.func.value, ast.Name) and n.func.value.id == ob.params[0]]
    last = len(pops) == 1 and (not pops[0].args or (len(pops[0].args) == 1 and ast.unparse(pops[0].args[0]) == "-1"))
    calls = [n for n in own_nodes(ob.node) if isinstance(n, ast.Call) and isinstance(n.func, ast.Name) and n.func.id == "ObtainQuantity"]
    feed = False
    for c in calls:
        t0 = ores.term(c.args[0]) if c.args else None
        capt = None
        if len(c.args) >= 3:
            capt = ores.term(c.args[2])
        for k in c.keywords:
            if k.arg == "unknown_unit_caption":
                capt = ores.term(k.value)
        if t0 is not None and any(x[0] == "param" and x[1] == 0 for x in walk(t0)) and t0[0] == "call" and t0[1] == ("name", "OrderedDict") \
                and capt is not None and any(x[0] == "call" and x[1][0] == "attr" and x[1][2] == "pop" for x in alternatives(capt)):
            feed = True
    interns = any(f is ob for f in interning_functions(m))
    if not calls and interns:
        # the reconstruction runs a phase of ObtainQuantity itself (the interning rules R5 are applied to it as well):
        # every Quantity it constructs gets the remaining items and the popped caption
        ctors = [n for n in own_nodes(ob.node) if isinstance(n, ast.Call) and isinstance(n.func, ast.Name) and n.func.id == "Quantity"]
        feed = bool(ctors)
        for c in ctors:
            capt = ores.term(c.args[2]) if len(c.args) >= 3 else None
            for k in c.keywords:
                if k.arg == "unknown_unit_caption":
                    capt = ores.term(k.value)
            from_state = all(any(x[0] == "param" and x[1] == 0 for x in walk(ores.term(a_))) or ores.term(a_) == ("const", None) for a_ in c.args[:2]) and len(c.args) >= 2
            if not (from_state and capt is not None and all(x[0] == "call" and x[1][0] == "attr" and x[1][2] == "pop" for x in alternatives(capt))):
                feed = False
    _pickle_components(rep, ob, tname, interns)
    rep.check(last and feed, "C07.R8", "%s:pops-one" % tname, "removes exactly the trailing element and rebuilds through ObtainQuantity(OrderedDict(items), None, caption)",
              "does not %s" % ("pop exactly one element from the end" if not last else "pass the remaining items and the popped caption to ObtainQuantity"), fn=ob)


def _pickle_components(rep, ob, tname, interns=False):
    """Every return of the reconstruction function rebuilds through ObtainQuantity, and no component of
    a pickled entry (category, unit, exponent) is dropped: a destructured name that is never read means
    the result is the same for two states that differ in it (non-dependence)."""
    for r in own_nodes(ob.node):
        if isinstance(r, ast.Return):
            v = r.value
            ok = (isinstance(v, ast.Call) and isinstance(v.func, ast.Name) and v.func.id == "ObtainQuantity") or interns  # (R5 decides the returns of an interning function)
            rep.check(ok, "C07.R8", "%s:return:%s" % (tname, norm(ast.unparse(r))[:60]), "rebuilds through ObtainQuantity", "%s can return `%s`, not an interned quantity" % (tname, ast.unparse(v) if v else None), node=r, fn=ob)
    state = ob.params[0]
    for st in own_statements(ob.node):
        if isinstance(st, ast.Assign) and any(isinstance(x, ast.Name) and x.id == state for x in ast.walk(st.value)) and isinstance(st.targets[0], (ast.Tuple, ast.List)):
            bound = [x.id for x in ast.walk(st.targets[0]) if isinstance(x, ast.Name)]
            for name in bound:
                loads = [x for x in ast.walk(ob.node) if isinstance(x, ast.Name) and x.id == name and isinstance(x.ctx, ast.Load)]
                rep.check(bool(loads), "C07.R8", "%s:component:%s" % (tname, name), "component `%s` of a pickled entry is used in the reconstruction" % name,
                          "`%s` is taken out of a pickled entry by `%s` and never read: the reconstruction is the same whatever its value (an exponent or unit is lost in the round trip)" % (name, norm(ast.unparse(st))), node=st, fn=ob)


def _mentions_caption(res, e):
    t = res.term(e)

    def ok(x):
        if x == ("field", "_unknown_unit_caption") or x == ("const", None):
            return True
        # `caption or None`
        return x[0] == "op" and x[1] == "Or" and all(ok(y) for y in x[2]) and any(y == ("field", "_unknown_unit_caption") for y in x[2])

    return all(ok(x) for x in alternatives(t))
