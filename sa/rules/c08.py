"""C08  Comparisons are coherent: order follows physical amount, equality is total."""
import ast

from ..cfg import CFG
from ..guards import TOP, GuardAnalysis, show_state
from ..report import borrow, AnalysisError, norm
from ..srcmodel import own_nodes
from ..terms import canon, Resolver, alternatives, fields_in, show, walk

PROP = "C08"
EXHAUSTIVE = True
EXPLANATION = (
    "R1 '== never raises': for the __eq__/__ne__ of each of the nine value classes a forward abstract interpretation "
    "tracks what is known about the type of `other` along every path and inside short-circuit expressions (isinstance, "
    "type(self) is type(other), IsImplementation, delegated Base.__eq__, hasattr, try/except AttributeError); every "
    "attribute read, method call or float()/len()/iter() conversion on `other` - also in helpers that receive it, e.g. "
    "Fraction.__old_cmp__ - must happen in a state where every possible class defines what is needed. R2: for each "
    "@total_ordering class the comparands of __lt__ and __eq__ must be the same projection of `other` (else the derived "
    "<=, >, >= are incoherent for equal amounts in different units). R3: __lt__ compares self's stored value (left) with "
    "`other` converted into self's unit (right) using <, so with increasing conversions (C01) order follows amount. "
    "R4: __hash__ defined next to __eq__ reads a subset of the fields __eq__ reads. R5: ordering across quantity types "
    "must-raise TypeError before any comparison, and all four operators go through __lt__ (total_ordering, no other "
    "order dunder defined)."
)
TRUSTED = ["dir() of Python builtins (int, float, ...) to know which attributes a builtin number has",
           "semantics of functools.total_ordering (derives <=, >, >= from __lt__ and __eq__)"]
ASSUMPTIONS = ["== between the *fields* compared by an __eq__ does not raise when the fields are themselves barril objects (covered: they are among the nine classes) or builtins"]

CLASSES = ("Quantity", "Scalar", "Array", "FixedArray", "FractionScalar", "FractionValue", "Fraction", "Curve", "UnitSystem")
ORDERED = ("Scalar", "FractionScalar", "Fraction")


def run(rep, ctx):
    rep.run_rule("C08.R1", "== / != never raise: every use of `other` in an __eq__ (and helpers receiving it) is type-guarded by a class that defines what is used", r1_eq_total, ctx)
    rep.run_rule("C08.R2", "@total_ordering classes: __lt__ and __eq__ compare the same projection of `other`", r2_same_projection, ctx)
    rep.run_rule("C08.R3", "__lt__ compares self's value with `other` converted into self's unit, using <", r3_orientation, ctx)
    rep.run_rule("C08.R4", "__hash__ defined next to __eq__ reads a subset of the fields __eq__ reads", r4_hash, ctx)
    rep.run_rule("C08.R5", "ordering across quantity types must-raise TypeError first; all order operators derive from __lt__", r5_type_error, ctx)
    from . import c18
    from ..report import borrow
    rep.rule("C08.R6", "FractionScalar's comparands are FractionValues: their four order dunders compare float amounts (shared with C18.R1)")
    try:
        borrow(rep, c18.r1_fraction_value, ctx, "C18.R1", "C08.R6", keep=lambda o: any(d in o.key for d in ("__lt__", "__le__", "__gt__", "__ge__", "__float__")))
    except AnalysisError as e:
        rep.error("C08.R6", str(e))
    from . import c07
    rep.rule("C08.R7", "a Quantity's equality class and hash cannot drift apart after creation: it owns its composing map (shared with C07.R4) and compares it as an ordered sequence (C07.R6)")
    try:
        borrow(rep, c07.r4_capture, ctx, "C07.R4", "C08.R7")
        borrow(rep, c07.r6_eq_hash, ctx, "C07.R6", "C08.R7", keep=lambda o: o.key.startswith("Quantity:"))
    except AnalysisError as e:
        rep.error("C08.R7", str(e))
    from . import c01
    from ..convmodel import ConvModel
    rep.rule("C08.R9", "ordering compares amounts re-expressed in one unit: the two conversion functions of every table row are inverses of each other and increasing (shared with C01.R2; only failing rows are listed)")
    try:
        borrow(rep, c01.r2_rows, ctx, "C01.R2", "C08.R9", ConvModel(ctx.model), keep=lambda o: o.status != "discharged")
    except AnalysisError as e:
        rep.error("C08.R9", str(e))
    rep.run_rule("C08.R8", "__eq__ compares the same projection of both operands in every comparison it makes (symmetric by construction)", r8_symmetric_shape, ctx)
    rep.not_decided += [
        "reflexivity and symmetry of == beyond the guard forms (exact-type or isinstance guards with Python's subclass-first dispatch)",
        "that the numeric comparison itself orders by physical amount (follows from R3 plus C01's strictly increasing conversions)",
    ]


# ------------------------------------------------------------------------------------------------
def r1_eq_total(rep, ctx):
    m = ctx.model
    ga = GuardAnalysis(m)
    n_roots = 0
    n_uses = 0
    for cname in CLASSES:
        m.cls(cname)
        for dunder in ("__eq__", "__ne__"):
            fn = m.lookup(cname, dunder)
            if fn is None:
                if dunder == "__eq__":
                    raise AnalysisError("%s defines no __eq__ (anchor vanished)" % cname)
                continue
            if len(fn.params) < 2:
                raise AnalysisError("%s has no `other` parameter" % fn.qual)
            n_roots += 1
            uses, _, _ = ga.analyze(fn, fn.params[1], TOP)
            root = "%s.%s" % (cname, dunder)
            if not uses:
                rep.ok("C08.R1", root + ":no-use", "%s never touches `other` beyond ==, is, isinstance" % root, fn=fn)
            for u in sorted(uses, key=lambda u: (u.fn.qual, getattr(u.node, "lineno", 0), u.need)):
                n_uses += 1
                key = "%s:%s" % (root, u.key())
                ok = getattr(u, "ok", False)
                via = "" if u.fn is fn else " (reached via %s)" % " -> ".join(q.split(".", 2)[-1] for q in u.chain)
                if ok:
                    rep.ok("C08.R1", key, "`other.%s` is used only where other is known to be: %s%s" % (u.need, show_state(u.state), via), node=u.node, fn=u.fn)
                else:
                    rep.bad("C08.R1", key,
                            "%s can raise instead of answering: it uses `other.%s` where other may be: %s, which does not define it%s"
                            % (root, u.need, show_state(u.state), via), node=u.node, fn=u.fn,
                            facts={"root": root, "chain": list(u.chain), "state": show_state(u.state)})
    rep.floor("C08.R1", "__eq__/__ne__ roots", n_roots, 7)
    rep.floor("C08.R1", "uses of other", n_uses, 11)


# ------------------------------------------------------------------------------------------------
def _returns(fn):
    return [n for n in own_nodes(fn.node) if isinstance(n, ast.Return) and n.value is not None]


def _other_projections(m, fn, other_idx=1):
    """Terms through which `other` enters the comparison of an __eq__/__lt__:
    set of (kind, detail): ('raw', attr) other.attr / other.attr() without unit;
    ('converted', callee) other.M(<something of self>) ; ('helper', name) self.helper(other)."""
    res = Resolver(m, fn)
    out = set()
    for r in _returns(fn):
        t = res.term(r.value)
        for s in walk(t):
            if s[0] == "call" and s[1][0] == "attr" and s[1][1][0] == "param" and s[1][1][1] == other_idx:
                args = s[2]
                if args or s[3]:
                    out.add(("converted", s[1][2]))
                else:
                    out.add(("raw", s[1][2]))
            elif s[0] == "attr" and s[1][0] == "param" and s[1][1] == other_idx:
                out.add(("raw", s[2]))
            elif s[0] == "call" and any(a[0] == "param" and a[1] == other_idx for a in s[2]):
                if s[1][0] == "field":
                    out.add(("helper", s[1][1]))
                elif s[1][0] == "attr":
                    out.add(("helper", s[1][2]))
    # method calls are also reported as raw attr of the bound method: drop those duplicates
    conv = {d for k, d in out if k == "converted"}
    out = {(k, d) for k, d in out if not (k == "raw" and d in conv)}
    return out


def _is_value_projection(m, cls, name):
    """Does other.<name> denote the stored value (a property/getter of the value)?"""
    return name in ("value", "values", "_value", "GetValue", "GetValues", "GetAbstractValue")


def r2_same_projection(rep, ctx):
    m = ctx.model
    n = 0
    for cname in ORDERED:
        ci = m.cls(cname)
        if not any("total_ordering" in d for d in ci.decorators):
            rep.note("%s is no longer decorated with total_ordering; R2 not applicable to it" % cname)
            continue
        lt = m.own_method(cname, "__lt__")
        eq = m.lookup(cname, "__eq__")
        if lt is None or eq is None:
            raise AnalysisError("%s: total_ordering class without its own __lt__ / an __eq__" % cname)
        n += 1
        pl = _other_projections(m, lt)
        pe = _other_projections(m, eq)
        lt_converts = {d for k, d in pl if k == "converted" and _is_value_projection(m, cname, d)}
        eq_converts = {d for k, d in pe if k == "converted" and _is_value_projection(m, cname, d)}
        eq_raw_value = {d for k, d in pe if k == "raw" and _is_value_projection(m, cname, d)}
        lt_helpers = {d for k, d in pl if k == "helper"}
        eq_helpers = {d for k, d in pe if k == "helper"}
        key = "%s:lt-vs-eq-projection" % cname
        if lt_helpers and lt_helpers == eq_helpers and not lt_converts:
            rep.ok("C08.R2", key, "%s.__lt__ and __eq__ both decide through %s(other): one projection" % (cname, "/".join(sorted(lt_helpers))), fn=lt)
        elif lt_converts and not eq_converts and eq_raw_value:
            rep.bad("C08.R2", key,
                    "%s.__lt__ compares `other` converted into self's unit (%s) but __eq__ compares the raw stored value (%s) and the quantity: "
                    "for equal amounts in different units neither < nor == holds, so total_ordering derives a > b and b > a both True"
                    % (cname, ",".join(sorted(lt_converts)), ",".join(sorted(eq_raw_value))), fn=lt,
                    facts={"lt": sorted(map(str, pl)), "eq": sorted(map(str, pe))})
        elif lt_converts == eq_converts and (lt_converts or (not eq_raw_value and not lt_helpers)):
            rep.ok("C08.R2", key, "%s.__lt__ and __eq__ use the same projection of other (%s)" % (cname, sorted(lt_converts) or "none"), fn=lt)
        elif not lt_converts and not lt_helpers:
            raw_l = {d for k, d in pl if k == "raw"}
            rep.check(raw_l <= ({d for k, d in pe if k == "raw"} | {"quantity_type", "GetQuantityType"}), "C08.R2", key,
                      "%s.__lt__ and __eq__ both compare raw attributes of other" % cname,
                      "%s.__lt__ reads %s of other but __eq__ reads %s" % (cname, sorted(raw_l), sorted(pe)), fn=lt)
        else:
            raise AnalysisError("%s: cannot classify how __lt__ (%s) and __eq__ (%s) project `other`" % (cname, sorted(pl), sorted(pe)))
    rep.floor("C08.R2", "total_ordering classes", n, 1)


# ------------------------------------------------------------------------------------------------
def r3_orientation(rep, ctx):
    m = ctx.model
    n = 0
    for cname in ("Scalar", "FractionScalar"):
        fn = m.own_method(cname, "__lt__")
        if fn is None:
            raise AnalysisError("%s.__lt__ not found" % cname)
        res = Resolver(m, fn)
        rets = _returns(fn)
        if not rets:
            raise AnalysisError("%s.__lt__ has no return" % cname)
        for r in rets:
            n += 1
            key = "%s.__lt__:%s" % (cname, norm(ast.unparse(r)))
            # by terms (the comparison may sit in a shared helper or behind a result local)
            tt = res.term(r.value)
            talts = alternatives(tt)
            if not (talts and all(a_[0] == "op" and a_[1] in ("cmp:Lt", "cmp:Gt") and len(a_[2]) == 2 for a_ in talts)):
                if any(a_[0] == "op" and a_[1].startswith("cmp:") for a_ in talts) or not any(x[0] == "op" and x[1].startswith("cmp:") for a_ in talts for x in walk(a_)):
                    rep.bad("C08.R3", key, "%s.__lt__ does not return a single < comparison (%s)" % (cname, show(tt, 80)), node=r, fn=fn)
                else:
                    raise AnalysisError("%s.__lt__ returns %s: not recognised as one < comparison" % (cname, show(tt, 120)))
                continue
            if len(talts) != 1:
                raise AnalysisError("%s.__lt__ returns one of several comparisons (%s)" % (cname, show(tt, 120)))
            tl, tr = talts[0][2]
            if talts[0][1] == "cmp:Gt":
                tl, tr = tr, tl
            self_side = all(a == ("field", "_value") or (a[0] == "call" and a[1] in (("field", "GetValue"), ("field", "GetAbstractValue")) and not a[2])
                            or a == ("field", "value") for a in alternatives(tl))
            # right: other.GetValue(<unit of self>)
            def conv_ok(a):
                if not (a[0] == "call" and a[1][0] == "attr" and a[1][1][0] == "param" and a[1][1][1] == 1 and a[1][2] in ("GetValue", "GetAbstractValue", "GetValues")):
                    return False
                args = list(a[2]) + [v for k, v in a[3]]
                if len(args) != 1:
                    return False
                u = args[0]
                return all(x == ("field", "unit") or x == ("call", ("field", "GetUnit"), (), ()) or x == ("attr", ("field", "_quantity"), "unit")
                           or x == ("call", ("attr", ("field", "_quantity"), "GetUnit"), (), ()) for x in alternatives(u))
            other_side = all(conv_ok(a) for a in alternatives(tr))
            why = []
            if not self_side:
                why.append("the left comparand is not self's stored value (%s)" % show(tl))
            if not other_side:
                why.append("the right comparand is not `other` converted into self's unit (%s)" % show(tr))
            rep.check(self_side and other_side, "C08.R3", key,
                      "self's stored value < other.GetValue(self.unit): both amounts are expressed in self's unit before comparing",
                      "; ".join(why) + ": amounts in different units are compared as bare numbers or in the wrong orientation", node=r, fn=fn)
    rep.floor("C08.R3", "__lt__ returns", n, 1)


# ------------------------------------------------------------------------------------------------
def _self_fields(fn):
    out = set()
    for n in ast.walk(fn.node):
        if isinstance(n, ast.Attribute) and isinstance(n.value, ast.Name) and fn.params and n.value.id == fn.params[0]:
            out.add(n.attr)
    return out


ALIASES = {"value": "_value", "values": "_value", "GetValue": "_value", "GetValues": "_value", "GetAbstractValue": "_value",
           "GetQuantity": "_quantity", "quantity": "_quantity"}


def r4_hash(rep, ctx):
    m = ctx.model
    n = 0
    for cname in CLASSES:
        ci = m.cls(cname)
        eq = ci.methods.get("__eq__")
        hs = ci.methods.get("__hash__")
        if eq is None or hs is None:
            continue
        n += 1
        fe = {ALIASES.get(f, f) for f in _self_fields(eq)}
        fh = {ALIASES.get(f, f) for f in _self_fields(hs)} - {"_hash"}
        # memoised hashes: the fields read when filling the memo
        extra = fh - fe
        rep.check(not extra, "C08.R4", "%s:hash-subset-of-eq" % cname,
                  "%s.__hash__ reads %s, all of which __eq__ compares" % (cname, sorted(fh)),
                  "%s.__hash__ reads %s which __eq__ does not compare: equal objects can have different hashes" % (cname, sorted(extra)), fn=hs)
    rep.floor("C08.R4", "classes defining __eq__ and __hash__ together", n, 1)


# ------------------------------------------------------------------------------------------------
def r5_type_error(rep, ctx):
    m = ctx.model
    n = 0
    for cname in ("Scalar", "FractionScalar"):
        ci = m.cls(cname)
        fn = m.own_method(cname, "__lt__")
        if fn is None:
            raise AnalysisError("%s.__lt__ not found" % cname)
        n += 1
        # all four operators derive from __lt__
        others = [d for d in ("__le__", "__gt__", "__ge__") if any(d in m.classes[c].methods for c in m.mro(cname))]
        deco = any("total_ordering" in d for d in ci.decorators)
        rep.check(deco and not others, "C08.R5", "%s:order-operators-derive-from-lt" % cname,
                  "%s is @total_ordering and defines no other order dunder: <=, >, >= all go through __lt__ and its guard" % cname,
                  "%s: %s" % (cname, "not @total_ordering" if not deco else "defines %s next to __lt__, bypassing its quantity-type guard" % others), fn=fn)
        cfg = CFG(fn.node)
        res = Resolver(m, fn)
        # the guard: a test comparing quantity types of self and other whose 'differ' outcome must-raise TypeError
        guards = []
        for nid in cfg.nodes("test"):
            e = cfg.ast[nid]
            if isinstance(e, ast.Compare) and len(e.ops) == 1 and isinstance(e.ops[0], (ast.NotEq, ast.Eq)):
                l, r = res.term(e.left), res.term(e.comparators[0])

                def is_qt(t, who):
                    for a in alternatives(t):
                        if who == "self":
                            if a not in (("field", "quantity_type"), ("call", ("field", "GetQuantityType"), (), ())):
                                return False
                        else:
                            if not ((a[0] == "attr" and a[1][0] == "param" and a[1][1] == 1 and a[2] == "quantity_type")
                                    or (a[0] == "call" and a[1][0] == "attr" and a[1][1][0] == "param" and a[1][2] == "GetQuantityType")):
                                return False
                    return True

                if (is_qt(l, "self") and is_qt(r, "other")) or (is_qt(r, "self") and is_qt(l, "other")):
                    guards.append((nid, "T" if isinstance(e.ops[0], ast.NotEq) else "F"))
        key = "%s.__lt__:quantity-type-guard" % cname
        if not guards:
            rep.bad("C08.R5", key, "%s.__lt__ has no test comparing the quantity types of self and other: values of different quantity types are ordered by bare numbers (or fail with a units error instead of TypeError)" % cname, fn=fn)
            continue
        nid, lab = guards[0]
        must = cfg.must_raise_from([(nid, lab)])
        raises_type_error = False
        for x in cfg.reach(nid, start_edges={lab}):
            if cfg.kind[x] == "raise" and cfg.ast[x].exc is not None:
                exc = cfg.ast[x].exc
                name = ast.unparse(exc.func if isinstance(exc, ast.Call) else exc)
                if name == "TypeError":
                    raises_type_error = True
        # every comparison return is dominated by the 'same type' outcome
        other_lab = "F" if lab == "T" else "T"
        dominated = all((nid, other_lab) in cfg.dominating_edges(r) for r in cfg.returns())
        rep.check(must and raises_type_error and dominated, "C08.R5", key,
                  "differing quantity types must-raise TypeError and every comparison is dominated by the equal-quantity-type outcome",
                  "%s.__lt__: %s" % (cname, "; ".join(w for w, c in (("the differing-types branch does not always raise", not must), ("it does not raise TypeError", not raises_type_error),
                                                                       ("a comparison is reachable without passing the guard", not dominated)) if c)), node=cfg.ast[nid], fn=fn)
    rep.floor("C08.R5", "__lt__ methods", n, 1)


# ------------------------------------------------------------------------------------------------
EQ_CLASSES = ("Quantity", "Scalar", "Array", "FixedArray", "FractionScalar", "FractionValue", "Fraction", "Curve", "UnitSystem")


def r8_symmetric_shape(rep, ctx):
    """a == b and b == a give the same answer when every comparison inside __eq__ has the form
    f(self) == f(other) for one projection f (a field, a getter, tuple(...) of one).  A comparison that reads
    different things from the two sides (one operand's entries looked up in the other) is a one-directional test."""
    m = ctx.model
    SELF, OTHER = ("SELF",), ("OTHER",)
    n = 0
    for cname in EQ_CLASSES:
        fn = m.lookup(cname, "__eq__")
        if fn is None or len(fn.params) < 2:
            continue
        res = Resolver(m, fn)
        other = fn.params[1]

        def gen(t):
            if not isinstance(t, tuple) or not t:
                return t
            if t == ("self",):
                return SELF
            if t[0] == "param" and t[2] == other:
                return OTHER
            if t[0] == "field":
                return ("attr", SELF, t[1].lstrip("_"))
            if t[0] == "attr" and isinstance(t[2], str):
                return ("attr", gen(t[1]), t[2].lstrip("_"))
            return tuple(gen(x) if isinstance(x, tuple) else x for x in t)

        def swap(t):
            if not isinstance(t, tuple) or not t:
                return t
            if t == SELF:
                return OTHER
            if t == OTHER:
                return SELF
            return tuple(swap(x) if isinstance(x, tuple) else x for x in t)

        def mentions(t, what):
            return any(x == what for x in walk(t))

        for r in own_nodes(fn.node):
            if not (isinstance(r, ast.Return) and r.value is not None):
                continue
            t = gen(res.term(r.value))
            for x in walk(t):
                if x[0] == "op" and x[1] in ("cmp:Eq", "cmp:NotEq") and len(x[2]) == 2:
                    L, R = x[2]
                    if not ((mentions(L, SELF) or mentions(L, OTHER)) and (mentions(R, SELF) or mentions(R, OTHER))):
                        continue  # a comparison with a constant (the sign of a shared compare helper, ...)
                    n += 1
                    sym = swap(L) == R
                    rep.check(sym, "C08.R8", "%s.__eq__:%s" % (cname, norm(show(L, 50))), "compares the same projection of self and other",
                              "%s.__eq__ compares `%s` with `%s`: not the same projection of the two operands, so a == b and b == a can differ" % (cname, show(L, 70), show(R, 70)), node=r, fn=fn)
    rep.floor("C08.R8", "comparisons inside __eq__ methods", n, 8)
