"""C09  Plain numbers act as dimensionless operands and never strip the unit."""
import ast

from .. import dispatch
from ..cfg import CFG
from ..report import borrow, AnalysisError, norm
from ..srcmodel import own_nodes, own_statements
from ..terms import Resolver, alternatives, show, walk

PROP = "C09"
EXHAUSTIVE = False
EXPLANATION = (
    "R1 number arms keep the quantity: every return of Scalar._DoOperation builds a new object through "
    "CreateWithQuantity; the two number arms pass the object's own quantity and apply the callback with the operands in "
    "their written order; a number meets a database operation only as the left operand of a division, with the empty "
    "quantity on its own (left) side; in Array._DoOperation a number/ndarray operand gets the empty quantity on its own "
    "side and the result class is self.__class__. R2 IsNumber covers int, float, complex and numpy.number. R3 dunder "
    "exhaustiveness: all ten binary dunders exist on Scalar and Array with matching operation and operand order. "
    "R4 numpy must defer: a class that implements reflected operators for ndarray / numpy-scalar left operands must opt "
    "out of numpy's own dispatch (__array_ufunc__ = None or __array_priority__), otherwise numpy iterates the object and "
    "returns a bare ndarray and the reflected dunder is never called."
)
ASSUMPTIONS = []
TRUSTED = ["numpy's binary-operator dispatch rules (__array_ufunc__ = None / __array_priority__ make ndarray.__op__ return NotImplemented)"]


def run(rep, ctx):
    rep.run_rule("C09.R1", "number arms keep the quantity and the operand order; results are new objects built with a quantity", r1_number_arms, ctx)
    rep.run_rule("C09.R2", "IsNumber covers python numbers and numpy.number", r2_isnumber, ctx)
    rep.run_rule("C09.R3", "all ten binary dunders exist on Scalar and Array with matching operation and operand order", r3_dunders, ctx)
    rep.run_rule("C09.R4", "classes with reflected operators opt out of numpy's own operator dispatch", r4_numpy_defers, ctx)
    from . import c10
    from ..report import borrow
    rep.rule("C09.R5", "every Array result carries the quantity computed by the database operation, also when no element was generated (k / empty-array has the reciprocal dimension; shared with C10.R3)")
    try:
        borrow(rep, c10.r3b_result_quantity, ctx, "C10.R3", "C09.R5")
    except AnalysisError as e:
        rep.error("C09.R5", str(e))
    from . import c10, c04
    rep.rule("C09.R6", "an Array combined with a plain number goes through the same element-wise pairing and the same database operation as two Arrays, operands in order (shared with C10.R1 / C10.R6); k / x and k // x reach Divide / FloorDivide unchanged (C04.R2)")
    try:
        borrow(rep, c10.r1_one_impl, ctx, "C10.R1", "C09.R6")
        borrow(rep, c10.r6_passthrough, ctx, "C10.R6", "C09.R6")
        borrow(rep, c04.r2_op_table, ctx, "C04.R2", "C09.R6")
        from . import c03, c05
        borrow(rep, c03.r1_value_ops, ctx, "C03.R1", "C09.R6")
        borrow(rep, c05.r1_same_quantity, ctx, "C05.R1", "C09.R6")  # k + x, k - x: the result quantity comes from the operands, each in its own role  # x + k, x - k of Arrays: Sum / Subtract apply a + b / a - b to the operands as given
    except AnalysisError as e:
        rep.error("C09.R6", str(e))
    rep.not_decided += [
        "numeric results of k OP x",
        "numpy.bool_ and other numpy scalars that are not numpy.number (IsNumber is false for them by design)",
    ]


def r1_number_arms(rep, ctx):
    m = ctx.model
    fn = dispatch.do_operation(m, "Scalar")
    res = Resolver(m, fn)
    P = {p: i for i, p in enumerate(fn.params)}
    rets = [r for r in own_nodes(fn.node) if isinstance(r, ast.Return) and r.value is not None]
    rep.floor("C09.R1", "returns of Scalar._DoOperation", len(rets), 1)
    n_arms = 0
    cfg = CFG(fn.node)
    _f, callbacks = dispatch.number_callbacks(m, "Scalar")

    def is_callback(t):
        # the callback parameter, or the entry of a constant table of operator functions for this operation
        if t[0] == "param" and t[1] == 4:
            return True
        return t[0] == "sub" and t[1][0] == "dict" and t[2] == ("param", P.get("operation"), "operation") and all(v_[0] in ("opfn", "opfn-swapped") for _k, v_ in t[1][1])

    def own_cwq(t):
        own = (("attr", ("self",), "__class__"), ("field", "__class__"), ("call", ("name", "type"), (("self",),), ()))
        return t[0] == "call" and t[1][0] == "attr" and t[1][2] == "CreateWithQuantity" and all(x in own for x in alternatives(t[1][1])) and len(t[2]) >= 2

    for i, r in enumerate(rets):
        v = r.value
        key = "Scalar._DoOperation:return%d:%s" % (i, norm(ast.unparse(v))[:50])
        ret_facts = [(res.term(e_), val_, e_) for e_, val_ in cfg.facts_at(cfg.node_of(r))]

        def site_facts(sites):
            out_ = list(ret_facts)
            for site in sites:
                if site is not None:
                    out_ += [(res.term(e_), val_, e_) for e_, val_ in cfg.facts_at(cfg.node_of(site))]
            return out_

        # the returned value, case by case, each with the facts of the site where it was built:
        # `return X` (a local), `return cls.CreateWithQuantity(*pair)` (a local pair), or the expression itself
        cases = []
        if isinstance(v, ast.Name):
            for (ost, ot), chain in zip(res.origins(v), list(res.origin_chains)):
                cases += [(a_, site_facts([ost] + chain)) for a_ in alternatives(ot)]
        elif isinstance(v, ast.Call) and len(v.args) == 1 and isinstance(v.args[0], ast.Starred) and isinstance(v.args[0].value, ast.Name) and not v.keywords:
            ft = res.term(v.func)
            for (ost, ot), chain in zip(res.origins(v.args[0].value), list(res.origin_chains)):
                for a_ in alternatives(ot):
                    cases.append((("call", ft, a_[1], ()) if a_[0] == "tuple" else ("expr", "?"), site_facts([ost] + chain)))
        else:
            cases = [(a_, ret_facts) for a_ in alternatives(res.term(v))]
        if not cases or not all(own_cwq(a_) for a_, _f in cases):
            rep.bad("C09.R1", key, "Scalar._DoOperation can return `%s`: the result is not a new object built by CreateWithQuantity (a shortcut that returns an operand, or a bare number, skips the operation or strips the unit)" % ast.unparse(v), node=r, fn=fn)
            continue

        for a_, facts_here in cases:

            def holds(pred, facts_here=facts_here):
                return any(pred(t_, val_, e_) for t_, val_, e_ in facts_here)

            qt, val = a_[2][0], a_[2][1]
            if qt == ("field", "_quantity"):
                # a number arm: callback(p1, self._value) or callback(self._value, p2)
                n_arms += 1
                ok = False
                if val[0] == "call" and is_callback(val[1]) and len(val[2]) == 2 and not val[3]:
                    a0, a1 = val[2]
                    left_number = a0 == ("param", P["p1"], "p1") and a1 == ("field", "_value")
                    right_number = a0 == ("field", "_value") and a1 == ("param", P["p2"], "p2")
                    is_num = lambda t_, p_: t_[0] == "call" and t_[1] == ("name", "IsNumber") and t_[2] == (("param", P[p_], p_),)
                    if left_number:
                        not_division = lambda t_, val_, e_: t_[0] == "op" and t_[1] in ("cmp:NotIn", "cmp:In") and (t_[1] == "cmp:NotIn") == bool(val_) and t_[2][0] == ("param", P["operation"], "operation") \
                            and {x[1] for x in walk(t_[2][1]) if x[0] == "const"} == {"Divide", "FloorDivide"}
                        ok = holds(lambda t_, val_, e_: is_num(t_, "p1") and val_) and holds(not_division)
                    elif right_number:
                        ok = holds(lambda t_, val_, e_: is_num(t_, "p2") and val_)
                rep.check(ok, "C09.R1", key, "a number arm keeps the object's quantity and applies the callback with the operands in their written order, under the matching guard",
                          "the number arm `%s` does not apply callback(number, own value) / callback(own value, number) under its guard" % norm(ast.unparse(r))[:100], node=r, fn=fn)
            else:
                ok = all(x[0] == "sub" and x[2] == ("const", 0) for x in alternatives(qt))
                rep.check(ok, "C09.R1", key, "the general arm builds the result with the quantity returned by the database operation", "the general arm builds the result with %s" % show(qt, 80), node=r, fn=fn)
    rep.check(n_arms == 2, "C09.R1", "Scalar._DoOperation:two-number-arms", "there is one arm for a number on the left and one for a number on the right", "%d number arms found" % n_arms, fn=fn)
    # number on the left of a division: empty quantity on the left
    calls = [c for c in own_nodes(fn.node) if isinstance(c, ast.Call) and any(x[0] == "call" and x[1] == ("name", "getattr") for x in alternatives(res.term(c.func)))]
    found = False
    for c in calls:
        a = [res.term(x) for x in c.args]
        def is_empty(x):
            return x[0] == "call" and x[1][0] == "attr" and x[1][2] == "CreateEmpty"
        if len(a) == 4 and any(is_empty(x) for x in alternatives(a[0])):
            found = True
            # left quantity: the empty quantity (number on the left) or p1's own; left value: p1 itself or own value
            q_ok = all(is_empty(x) or (x[0] == "call" and x[1][0] == "attr" and x[1][1] == ("param", P["p1"], "p1") and x[1][2] == "GetQuantity") for x in alternatives(a[0]))
            v_ok = all(x == ("param", P["p1"], "p1") or x == ("field", "_value") for x in alternatives(a[2])) and any(x == ("param", P["p1"], "p1") for x in alternatives(a[2]))
            guard_ok = any("IsNumber($p1)" in show(res.term(x.test), 200) for x in ast.walk(fn.node) if isinstance(x, (ast.If, ast.IfExp)))
            ok = q_ok and v_ok and guard_ok and any(s[0] == "param" and s[2] == "p2" for s in walk(a[1])) and any(s[0] == "param" and s[2] == "p2" for s in walk(a[3]))
            rep.check(ok, "C09.R1", "Scalar._DoOperation:number-over-scalar", "k / x goes through the database with the empty quantity and k on the left, x's quantity and value on the right",
                      "k / x calls the operation with %s" % [show(x, 40) for x in a], node=c, fn=fn)
    rep.check(found, "C09.R1", "Scalar._DoOperation:number-over-scalar:present", "the k / x arm exists", "no arm passes the empty quantity for a number on the left of a division", fn=fn)
    # Array: result class and empty quantity on the number's own side
    afn = dispatch.do_operation(m, "Array")
    ares = Resolver(m, afn)
    for r in own_nodes(afn.node):
        if isinstance(r, ast.Return) and r.value is not None:
            v = r.value
            ok = isinstance(v, ast.Call) and _is_own_cwq(ares, v.func)
            rep.check(ok, "C09.R1", "Array._DoOperation:%s" % norm(ast.unparse(r))[:60], "the result is a new object of the operand's class built with a quantity", "Array._DoOperation can return `%s`" % ast.unparse(v), node=r, fn=afn)
    # the empty quantity stands for a number / ndarray operand on that operand's own side: wherever the k-th quantity
    # handed to the database operation can be the empty quantity, that value was chosen on a path that passed a
    # positive "operand k is a number" or "operand k is an ndarray" test (by exclusion on the flow graph)
    acfg = CFG(afn.node)
    AP = {p: i for i, p in enumerate(afn.params)}

    def operand_test(e, k):
        pk = ("param", AP.get("p%d" % k), "p%d" % k)

        def implies(t):
            """a true outcome implies that operand k is a number or an ndarray (through a boolean local, too):
            a leaf test of operand k, a disjunction of such, a conjunction with one such member"""
            if t[0] == "call" and t[1] == ("name", "IsNumber") and t[2] == (pk,):
                return True
            if t[0] == "call" and t[1] == ("name", "isinstance") and len(t[2]) == 2 and t[2][0] == pk and any(x[0] == "attr" and x[2] == "ndarray" or x == ("name", "ndarray") for x in walk(t[2][1])):
                return True
            if t[0] == "op" and t[1] == "Or":
                return all(implies(x) for x in t[2])
            if t[0] == "op" and t[1] == "And":
                return any(implies(x) for x in t[2])
            return False

        return implies(ares.term(e))

    seen_sides = set()
    for c in own_nodes(afn.node):
        if not (isinstance(c, ast.Call) and len(c.args) == 4 and any(x[0] == "call" and x[1] == ("name", "getattr") for x in alternatives(ares.term(c.func)))):
            continue
        for k in (1, 2):
            arg = c.args[k - 1]
            if isinstance(arg, ast.Name):
                arg_origins = ares.origins(arg)
            elif isinstance(arg, ast.Attribute) and isinstance(arg.value, ast.Name):
                # a field of a local record (`operands.q1`): the sites where the record was built
                arg_origins = []
                for ost, ot in ares.origins(arg.value):
                    pt = ares._record_projection(ot, arg.attr)
                    if pt is None:
                        raise AnalysisError("Array._DoOperation: `%s` is not a field of a plain record built in this function: where the quantity of operand %d comes from cannot be read off" % (ast.unparse(arg), k))
                    arg_origins.append((ost, pt))
            else:
                raise AnalysisError("Array._DoOperation: the quantity argument `%s` of the operation is neither a local nor a field of a local record" % ast.unparse(arg))
            pos_edges = {(nid, b_, l_) for nid in acfg.nodes("test") if operand_test(acfg.ast[nid], k) for (b_, l_) in acfg.succ[nid] if l_ == "T"}
            for ost, ot in arg_origins:
                if ost is None or not any(x[0] == "call" and x[1][0] == "attr" and x[1][2] == "CreateEmpty" for x in alternatives(ot)):
                    continue
                if ("%d" % k) in seen_sides:
                    continue
                seen_sides.add("%d" % k)
                site = acfg.node_of(ost)
                ok = bool(pos_edges) and site not in acfg.reach(acfg.ENTRY, avoid_edges=pos_edges)
                if not ok:
                    # a predicate of this operand that the rule cannot read (a local helper called inside `and` / `or`): not judged
                    pk_ = ("param", AP.get("p%d" % k), "p%d" % k)
                    for nid_ in acfg.nodes("test"):
                        for s_ in walk(ares.term(acfg.ast[nid_])):
                            if s_[0] == "call" and pk_ in s_[2] and s_[1] not in (("name", "IsNumber"), ("name", "isinstance")):
                                raise AnalysisError("Array._DoOperation: operand %d is tested through `%s`, which is not IsNumber / isinstance(..., ndarray) spelled out: whether the empty quantity stands on the number's own side cannot be read off" % (k, show(s_, 60)))
                rep.check(ok, "C09.R1", "Array._DoOperation:empty-on-own-side:q%d" % k, "the empty quantity stands for the number/ndarray operand on its own side",
                          "quantity %d of the operation can be the empty quantity on a path where operand %d was not found to be a number or an ndarray (`%s`)" % (k, k, norm(ast.unparse(ost))[:60]), node=ost, fn=afn)
    rep.check(seen_sides == {"1", "2"}, "C09.R1", "Array._DoOperation:empty-quantity-both-sides", "a number / ndarray may stand on either side: both quantities of the operation can be the empty quantity",
              "only side(s) %s of the operation can take the empty quantity: a number on the other side of an Array is not handled" % sorted(seen_sides), fn=afn)


def _is_own_cwq(res, f):
    """<own class>.CreateWithQuantity, possibly through locals."""
    t = res.term(f)
    own = (("attr", ("self",), "__class__"), ("field", "__class__"), ("call", ("name", "type"), (("self",),), ()))
    return all(a[0] == "attr" and a[2] == "CreateWithQuantity" and all(x in own for x in alternatives(a[1])) for a in alternatives(t))


def _is_own_class(res, e):
    """self.__class__ / type(self), possibly through a local."""
    t = res.term(e)
    return all(a in (("attr", ("self",), "__class__"), ("field", "__class__"), ("call", ("name", "type"), (("self",),), ())) for a in alternatives(t))


def r2_isnumber(rep, ctx):
    m = ctx.model
    fn = m.func("_GetKnownNumberTypes")
    lits = set()
    added = set()
    for n in own_nodes(fn.node):
        if isinstance(n, ast.Set):
            lits |= {ast.unparse(e) for e in n.elts}
        if isinstance(n, ast.Call) and isinstance(n.func, ast.Attribute) and n.func.attr == "add":
            added |= {ast.unparse(a) for a in n.args}
    rep.check({"int", "float", "complex"} <= lits, "C09.R2", "IsNumber:python-numbers", "int, float and complex are numbers", "the number types are %s" % sorted(lits), fn=fn)
    rep.check("numpy.number" in added or "numpy.number" in lits, "C09.R2", "IsNumber:numpy-number", "numpy.number is a number", "numpy scalars are not recognised as numbers: numpy.float64(2) * x falls into the quantity arm", fn=fn)
    isn = m.func("IsNumber")
    rets = [r for r in own_nodes(isn.node) if isinstance(r, ast.Return)]
    ires = Resolver(m, isn)
    TYPES = (("name", "_KNOWN_NUMBER_TYPES"), ("call", ("name", "_GetKnownNumberTypes"), (), ()))  # the memo / what fills it

    def is_test(a_):
        return a_[0] == "call" and a_[1] == ("name", "isinstance") and len(a_[2]) == 2 and not a_[3] and a_[2][0] == ("param", 0, isn.params[0]) and all(x in TYPES for x in alternatives(a_[2][1]))

    ok = len(isn.params) == 1 and bool(rets) and all(all(is_test(a_) for a_ in alternatives(ires.term(r.value))) for r in rets)
    rep.check(ok, "C09.R2", "IsNumber:isinstance", "IsNumber is isinstance(v, known number types)", "IsNumber returns %s" % [ast.unparse(r.value) for r in rets], fn=isn)


def r3_dunders(rep, ctx):
    m = ctx.model
    n = dispatch.check_dunders(rep, "C09.R3", m, "Scalar", with_lambda=True)
    n += dispatch.check_dunders(rep, "C09.R3", m, "Array")
    rep.floor("C09.R3", "dunders", n, 10)


def r4_numpy_defers(rep, ctx):
    m = ctx.model
    for fam in ("Scalar", "Array"):
        has_reflected = any(m.lookup(fam, d) is not None for d in ("__rmul__", "__radd__", "__rsub__", "__rtruediv__"))
        if not has_reflected:
            continue
        opt_out = None
        for c in m.mro(fam):
            ci = m.classes[c]
            if "__array_ufunc__" in ci.class_attrs:
                v = ci.class_attrs["__array_ufunc__"]
                if isinstance(v, ast.Constant) and v.value is None:
                    opt_out = "%s.__array_ufunc__ = None" % c
            if "__array_priority__" in ci.class_attrs:
                opt_out = "%s.__array_priority__" % c
            if "__array_ufunc__" in ci.methods:
                opt_out = "%s.__array_ufunc__()" % c
        rep.check(opt_out is not None, "C09.R4", "%s:numpy-defers" % fam, "%s makes numpy defer to its reflected operators (%s)" % (fam, opt_out),
                  "%s implements reflected operators but neither sets __array_ufunc__ = None nor __array_priority__: with an ndarray (or, for Array, a numpy scalar) on the left numpy handles the operator itself and returns a bare ndarray" % fam,
                  fn=m.lookup(fam, "__rmul__"))
