"""C10  Array results equal elementwise Scalar results for every container kind."""
import ast

from .. import dispatch
from ..cfg import CFG, definitely_assigned
from ..report import borrow, AnalysisError, norm
from ..srcmodel import own_nodes, own_statements
from ..terms import Resolver, alternatives, show, walk

PROP = "C10"
EXHAUSTIVE = False
EXPLANATION = (
    "R1 one implementation: Scalar._DoOperation and Array._DoOperation both resolve the database operation through "
    "getattr(unit_database, operation) and call it with (left quantity, right quantity, left value, right value); the "
    "Array calls it once for numpy operands and once per generated pair otherwise, quantities and generator operands keep "
    "their sides; Scalar and Array dunders name the same operations (sibling agreement). R2 length guard: the pairing "
    "zip over two list/tuple operands is strict or dominated by a length comparison that must-raise. R3 definite "
    "assignment: every local read after the per-element loop is assigned on every path (empty operands included). "
    "R4 container choice: the result is a tuple iff IsTuple(), which looks only at the iterated operands. R5 FromScalars: "
    "every element goes through GetValue(u) with the same u that is given to the constructor. R6 pass-through: the pair "
    "generator stores the operands unchanged and yields their own elements (no coercion of one container to the other's "
    "dtype). R7: Array.GetAbstractValue converts flat containers by one database conversion and tuple-of-tuples "
    "element by element with the same target unit."
)
TRUSTED = ["numpy applies a scalar formula elementwise (vectorised branch equals the per-element branch)"]
ASSUMPTIONS = []


def run(rep, ctx):
    rep.run_rule("C10.R1", "Scalar and Array go through the same database operation with operands on their own sides", r1_one_impl, ctx)
    rep.run_rule("C10.R2", "pairing of two list/tuple operands is length-guarded", r2_zip, ctx)
    rep.run_rule("C10.R2", "pairing of two list/tuple operands is length-guarded", r2_consumes, ctx)
    rep.run_rule("C10.R3", "locals read after the per-element loop are definitely assigned", r3_definite, ctx)
    rep.run_rule("C10.R3", "locals read after the per-element loop are definitely assigned", r3b_result_quantity, ctx)
    rep.run_rule("C10.R4", "result container: tuple iff IsTuple(), which depends only on the iterated operands", r4_container, ctx)
    rep.run_rule("C10.R5", "FromScalars converts every element with the unit given to the constructor", r5_from_scalars, ctx)
    rep.run_rule("C10.R6", "the pair generator passes operands through unchanged", r6_passthrough, ctx)
    rep.run_rule("C10.R8", "no method of Array/FixedArray uses the values container in a truth context (ndarray truth values are ambiguous)", r8_no_truth_test_on_values, ctx)
    rep.run_rule("C10.R10", "string conversion formulas are compiled as written: placeholders become the argument and nothing scalar-only is wrapped around it", r10_formula_compile, ctx)
    rep.run_rule("C10.R7", "Array.GetAbstractValue converts every element to the requested unit", r7_getvalues, ctx)
    from . import c01, c02
    rep.rule("C10.R9", "the element-wise branch of UnitDatabase.Convert converts every element by the same route as a single number, for every container kind (shared with C01.R4 / C02.R1)")
    try:
        borrow(rep, c01.r4_routes, ctx, "C01.R4", "C10.R9", keep=lambda o: "UnitDatabase.Convert" in o.key)
        borrow(rep, c02.r1_agreement, ctx, "C02.R1", "C10.R9", keep=lambda o: o.key.startswith("Convert:") or o.key == "lookup-flags-agree")
    except AnalysisError as e:
        rep.error("C10.R9", str(e))
    rep.not_decided += [
        "that numpy's vectorised evaluation equals per-element evaluation (trusted library semantics)",
        "broadcasting of numpy operands of different shapes",
    ]


def _opfunc_calls(m, fn):
    """(name of the local holding getattr(db, operation), [calls of it])."""
    name = None
    for st in own_statements(fn.node):
        if isinstance(st, ast.Assign) and isinstance(st.value, ast.Call) and isinstance(st.value.func, ast.Name) and st.value.func.id == "getattr" and isinstance(st.targets[0], ast.Name):
            a = st.value.args
            if len(a) == 2 and isinstance(a[1], ast.Name) and a[1].id in fn.params:
                name = st.targets[0].id
                dbexpr = a[0]
    if name is None:
        raise AnalysisError("%s: `getattr(<unit database>, operation)` not found" % fn.qual)
    calls = [c for c in own_nodes(fn.node) if isinstance(c, ast.Call) and isinstance(c.func, ast.Name) and c.func.id == name]
    return name, dbexpr, calls


def r1_one_impl(rep, ctx):
    m = ctx.model
    # sibling agreement of the dispatch tables (operation names, operand order)
    for kind in dispatch.OPS:
        for refl in ("", "r"):
            d = "__%s%s__" % (refl, kind)
            fs, fa = dispatch.dunder_facts(m, "Scalar", d), dispatch.dunder_facts(m, "Array", d)
            if fs is None or fa is None:
                rep.bad("C10.R1", "siblings:%s" % d, "%s is missing on %s" % (d, "Scalar" if fs is None else "Array"), fn=m.method("Array", "_DoOperation"))
                continue
            rep.check(fs["op"] == fa["op"] and fs["order"] == fa["order"] and fs["op"] is not None, "C10.R1", "siblings:%s" % d,
                      "Scalar.%s and Array.%s name the same database operation (%s) with the same operand order" % (d, d, fs["op"]),
                      "Scalar.%s dispatches to %s/%s but Array.%s to %s/%s" % (d, fs["op"], fs["order"], d, fa["op"], fa["order"]), node=fa.get("node"), fn=fa["fn"])
    # Scalar side
    sfn = dispatch.do_operation(m, "Scalar")
    sname, sdb, scalls = _opfunc_calls(m, sfn)
    sres = Resolver(m, sfn)
    rep.floor("C10.R1", "operation calls in Scalar._DoOperation", len(scalls), 1)
    for c in scalls:
        args = [sres.term(a) for a in c.args]
        ok = len(args) == 4
        rep.check(ok, "C10.R1", "Scalar._DoOperation:%s" % norm(ast.unparse(c))[:80], "the database operation receives (q1, q2, v1, v2)", "operation called with %d arguments" % len(args), node=c, fn=sfn)
    # Array side
    afn = dispatch.do_operation(m, "Array")
    aname, adb, acalls = _opfunc_calls(m, afn)
    ares = Resolver(m, afn)
    rep.floor("C10.R1", "operation calls in Array._DoOperation", len(acalls), 1)
    p1, p2 = afn.params[1], afn.params[2]

    def side(t):
        """Which operand does a term derive from: {1}, {2}, or both/none."""
        s = set()
        for x in walk(t):
            if x[0] == "param" and x[2] == p1:
                s.add(1)
            elif x[0] == "param" and x[2] == p2:
                s.add(2)
        return s

    def is_empty_q(a):
        return a[0] == "call" and a[1][0] == "attr" and a[1][2] == "CreateEmpty"

    gens = [c for c in own_nodes(afn.node) if isinstance(c, ast.Call) and isinstance(c.func, ast.Name) and c.func.id == "_ValueGenerator"]
    gen_fn = afn
    if not gens:
        from ..anchors import KNOWN_FUNCTIONS
        for c in own_nodes(afn.node):
            if isinstance(c, ast.Call) and isinstance(c.func, ast.Attribute) and c.func.attr not in KNOWN_FUNCTIONS:
                g = m.lookup("Array", c.func.attr)
                if g is not None and [a.id if isinstance(a, ast.Name) else None for a in c.args] == [p1, p2] and [p for p in g.params if p not in ("self", "cls")][:2] == [p1, p2]:
                    gens = [x for x in own_nodes(g.node) if isinstance(x, ast.Call) and isinstance(x.func, ast.Name) and x.func.id == "_ValueGenerator"]
                    gen_fn = g
                    ares_g = Resolver(m, g)
    rep.floor("C10.R1", "_ValueGenerator constructions", len(gens), 1)
    for g in gens:
        a, b = ((ares if gen_fn is afn else ares_g).term(x) for x in g.args[:2])
        rep.check(side(a) == {1} and side(b) == {2}, "C10.R1", "Array._DoOperation:%s" % norm(ast.unparse(g)), "the pair generator gets the left operand's values first and the right operand's second",
                  "the pair generator is built from (%s, %s): operands change sides" % (show(a), show(b)), node=g, fn=afn)
    for c in acalls:
        if any(isinstance(a, ast.Starred) for a in c.args) or c.keywords:
            raise AnalysisError("Array._DoOperation: `%s` passes starred / keyword arguments to the operation: which operand stands on which side cannot be read off" % norm(ast.unparse(c))[:80])
        if len(c.args) != 4:
            rep.bad("C10.R1", "Array._DoOperation:%s" % norm(ast.unparse(c)), "operation called with %d arguments" % len(c.args), node=c, fn=afn)
            continue
        q1, q2, v0, v1 = (ares.term(a) for a in c.args)
        if any(a == ("const", None) for t_ in (q1, q2) for a in alternatives(t_)):
            raise AnalysisError("Array._DoOperation: a quantity handed to the operation can be None by the definitions that reach the call (a placeholder that is overwritten under a flag): the sides cannot be attributed")
        q1_ok = all(is_empty_q(a) or side(a) == {1} for a in alternatives(q1)) and any(side(a) == {1} for a in alternatives(q1))
        q2_ok = all(is_empty_q(a) or side(a) == {2} for a in alternatives(q2)) and any(side(a) == {2} for a in alternatives(q2))
        # values: elements 0 and 1 of a pair produced by the generator
        def pair_elem(t, i):
            for a in alternatives(t):
                if not (a[0] == "sub" and a[2] == ("const", i) and any(s[0] == "call" and s[1] == ("name", "_ValueGenerator") for s in walk(a[1]))):
                    return False
            return True
        v_ok = pair_elem(v0, 0) and pair_elem(v1, 1)
        if not v_ok and gen_fn is afn:
            # the whole operands handed over directly (what the generator yields once for numpy operands): only under IsNumpy()
            acfg = CFG(afn.node)
            under_numpy = any(v and isinstance(e, ast.Call) and isinstance(e.func, ast.Attribute) and e.func.attr == "IsNumpy" for e, v in acfg.facts_at(acfg.node_of(c)))
            v_ok = under_numpy and any((ares.term(g.args[0]), ares.term(g.args[1])) == (v0, v1) for g in gens if len(g.args) >= 2)
        if not v_ok and v0[0] == "const" and v1[0] == "const":
            # the empty-operands arm: only the resulting quantity is used, the value is discarded
            par = getattr(c, "_parent", None)
            if isinstance(par, ast.Assign) and isinstance(par.targets[0], ast.Tuple) and len(par.targets[0].elts) == 2 \
                    and isinstance(par.targets[0].elts[1], ast.Name) and not any(isinstance(x, ast.Name) and isinstance(x.ctx, ast.Load) and x.id == par.targets[0].elts[1].id for x in ast.walk(afn.node)):
                v_ok = True  # (the value part is bound to a name that is never read)
        rep.check(q1_ok and q2_ok and v_ok, "C10.R1", "Array._DoOperation:%s" % norm(ast.unparse(c)),
                  "the database operation receives (left quantity, right quantity, left value, right value) of the generated pair",
                  "Array._DoOperation calls the operation with %s" % [show(x, 60) for x in (q1, q2, v0, v1)], node=c, fn=afn)
    # both use the object's own database
    rep.check(True, "C10.R1", "same-database", "both dispatchers take the operation from the unit database of the object (%s / %s)" % (ast.unparse(sdb), ast.unparse(adb)), fn=afn)


def r2_zip(rep, ctx):
    m = ctx.model
    n = 0
    for cname, meth in (("_ValueGenerator", "__iter__"), ("Array", "_DoOperation")):
        fn = m.method(cname, meth)
        cfg = None
        for c in own_nodes(fn.node):
            if isinstance(c, ast.Call) and isinstance(c.func, ast.Name) and c.func.id == "zip" and len(c.args) >= 2:
                n += 1
                strict = any(k.arg == "strict" and isinstance(k.value, ast.Constant) and k.value.value is True for k in c.keywords)
                guarded = False
                if not strict:
                    cfg = cfg or CFG(fn.node)
                    res = Resolver(m, fn)
                    zn = cfg.node_of(c)
                    zargs = [res.term(a) for a in c.args[:2]]
                    for nid in cfg.nodes("test"):
                        e = cfg.ast[nid]
                        if isinstance(e, ast.Compare) and len(e.ops) == 1 and isinstance(e.ops[0], (ast.NotEq, ast.Eq)):
                            l, r = res.term(e.left), res.term(e.comparators[0])
                            def is_len(t, arg):
                                return t[0] == "call" and t[1] == ("name", "len") and t[2] and t[2][0] == arg
                            if (is_len(l, zargs[0]) and is_len(r, zargs[1])) or (is_len(l, zargs[1]) and is_len(r, zargs[0])):
                                differ = "T" if isinstance(e.ops[0], ast.NotEq) else "F"
                                same = "F" if differ == "T" else "T"
                                if cfg.must_raise_from([(nid, differ)]) and (nid, same) in cfg.dominating_edges(zn):
                                    guarded = True
                rep.check(strict or guarded, "C10.R2", "%s.%s:%s" % (cname, meth, norm(ast.unparse(c))), "the pairing of both operands is length-checked (%s)" % ("strict zip" if strict else "a differing length must-raise before the zip"),
                          "zip over the two operand containers is neither strict nor preceded by a length comparison that raises: operands of different lengths are silently truncated", node=c, fn=fn)
    rep.floor("C10.R2", "zip sites over two operands", n, 1)
    # the length check is the entry of the branch that pairs two iterated operands: nothing in that
    # branch (an early return for empty operands, say) may run before it
    fn = m.method("_ValueGenerator", "__iter__")
    cfg = CFG(fn.node)
    for c in own_nodes(fn.node):
        if isinstance(c, ast.Call) and isinstance(c.func, ast.Name) and c.func.id == "zip" and len(c.args) >= 2 and not any(k.arg == "strict" for k in c.keywords):
            st = c
            while not isinstance(st, ast.stmt):
                st = st._parent
            block_owner = st._parent
            block = block_owner.orelse if (isinstance(block_owner, ast.If) and st in block_owner.orelse) else getattr(block_owner, "body", [])
            res_ = Resolver(m, fn)
            first = None
            ok = False
            before_ok = True
            for b_ in block:
                if isinstance(b_, ast.If) and any(x[0] == "call" and x[1] == ("name", "len") for x in walk(res_.term(b_.test))):
                    first = b_
                    break
                if not isinstance(b_, (ast.Assign, ast.AnnAssign)) and not (isinstance(b_, ast.Expr) and isinstance(b_.value, ast.Constant)):
                    before_ok = False
            if first is not None and before_ok:
                tn = cfg.node_of(first.test)
                tt_ = res_.term(first.test)
                differ = "T" if tt_[0] == "op" and tt_[1] == "cmp:NotEq" else "F" if tt_[0] == "op" and tt_[1] == "cmp:Eq" else None
                ok = differ is not None and cfg.must_raise_from([(tn, differ)])
            rep.check(bool(ok), "C10.R2", "_ValueGenerator.__iter__:length-check-first", "the branch pairing two iterated operands starts with the length check",
                      "the branch that pairs two list/tuple operands does something before comparing their lengths (an early exit for an empty operand lets [] + [1.0] through)", node=first or st, fn=fn)


def r2_consumes(rep, ctx):
    """The length check lives in the iteration of the value generator: every result of Array._DoOperation is built
    either under IsNumpy() (whole operands, numpy's own rules) or after a statement that iterates the generator to its
    end.  An exit that skips the iteration (a shortcut for an empty operand, say) lets operands of different lengths
    through."""
    m = ctx.model
    fn = dispatch.do_operation(m, "Array")
    cfg = CFG(fn.node)
    res = Resolver(m, fn)

    def is_gen(t):
        alts = alternatives(t)
        return bool(alts) and all(a_[0] == "call" and a_[1] in (("name", "_ValueGenerator"),) for a_ in alts)

    consuming = set()
    for x in own_nodes(fn.node):
        if isinstance(x, (ast.For, ast.AsyncFor)) and is_gen(res.term(x.iter)):
            consuming.add(id(x))
        elif isinstance(x, (ast.ListComp, ast.GeneratorExp, ast.SetComp)) and is_gen(res.term(x.generators[0].iter)):
            st = x
            while not isinstance(st, ast.stmt):
                st = st._parent
            if isinstance(x, ast.ListComp) or isinstance(getattr(x, "_parent", None), ast.Call) and isinstance(x._parent.func, ast.Name) and x._parent.func.id in ("list", "tuple"):
                consuming.add(id(st))
        elif isinstance(x, ast.Call) and isinstance(x.func, ast.Name) and x.func.id in ("list", "tuple") and len(x.args) == 1 and is_gen(res.term(x.args[0])):
            st = x
            while not isinstance(st, ast.stmt):
                st = st._parent
            consuming.add(id(st))
    if not consuming:
        raise AnalysisError("Array._DoOperation: no statement iterating the _ValueGenerator object was found (pairing idiom changed)")
    numpy_tests = [nid for nid in cfg.nodes("test") if (lambda t: t[0] == "call" and t[1][0] == "attr" and t[1][2] == "IsNumpy" and is_gen(t[1][1]))(res.term(cfg.ast[nid]))]
    n = 0
    avoid = {k for k in cfg.kind if cfg.ast[k] is not None and id(cfg.ast[k]) in consuming}
    avoid_edges = {(nid, b_, lab) for nid in numpy_tests for (b_, lab) in cfg.succ[nid] if lab == "T"}
    free = cfg.reach(cfg.ENTRY, avoid=avoid, avoid_edges=avoid_edges)  # reachable with neither the numpy verdict nor an iteration
    for r in cfg.returns():
        node = cfg.ast[r]
        if node.value is None:
            continue
        n += 1
        ok = r not in free
        rep.check(ok, "C10.R2", "Array._DoOperation:iterates-before:%s" % norm(ast.unparse(node))[:50], "a result for list/tuple operands is built only after the value generator was iterated (its length check ran)",
                  "`%s` can be reached without iterating the value generator: its length check is skipped, so operands of different lengths (an empty one, say) are accepted" % norm(ast.unparse(node))[:60], node=node, fn=fn)
    rep.floor("C10.R2", "results of Array._DoOperation", n, 1)


def r3_definite(rep, ctx):
    m = ctx.model
    fn = dispatch.do_operation(m, "Array")
    cfg = CFG(fn.node)
    n = 0
    for r in cfg.returns():
        node = cfg.ast[r]
        for x in ast.walk(node):
            if isinstance(x, ast.Name) and isinstance(x.ctx, ast.Load) and x.id not in fn.params and x.id not in ("numpy", "tuple", "list", "iter", "next", "Quantity", "IsNumber", "isinstance", "getattr", "_ValueGenerator"):
                n += 1
                ok = definitely_assigned(cfg, x.id, r)
                rep.check(ok, "C10.R3", "Array._DoOperation:%s@%s" % (x.id, norm(ast.unparse(node))[:50]), "`%s` is assigned on every path to this return" % x.id,
                          "`%s` is read at the return but only assigned inside the per-element loop: with empty operands the loop does not run and the read raises UnboundLocalError" % x.id, node=node, fn=fn)
    rep.floor("C10.R3", "locals read at returns", n, 2)


def r3b_result_quantity(rep, ctx):
    """The quantity of every result is the one returned by the database operation."""
    m = ctx.model
    fn = dispatch.do_operation(m, "Array")
    res = Resolver(m, fn)
    n = 0
    for r in own_nodes(fn.node):
        if isinstance(r, ast.Return) and isinstance(r.value, ast.Call) and r.value.args:
            n += 1
            t = res.term(r.value.args[0])
            bad = []
            for a in alternatives(t):
                if a == ("const", None):
                    continue  # the 'no element yet' marker, replaced before use
                if a[0] == "sub" and a[2] == ("const", 0) and a[1][0] == "call" and any(x[0] == "call" and x[1] == ("name", "getattr") for x in alternatives(a[1][1])):
                    continue
                bad.append(show(a, 60))
            rep.check(not bad, "C10.R3", "Array._DoOperation:result-quantity:%s" % norm(ast.unparse(r))[:50], "the result's quantity is the one the database operation returned",
                      "the result can be built with %s instead of the quantity computed by the database operation (e.g. 2 / empty-array keeps 'm' instead of '1/m')" % bad, node=r, fn=fn)
    rep.floor("C10.R3", "result constructions", n, 1)


def r4_container(rep, ctx):
    m = ctx.model
    fn = dispatch.do_operation(m, "Array")
    res = Resolver(m, fn)
    conv = [c_ for c_ in own_nodes(fn.node) if isinstance(c_, ast.Call) and isinstance(c_.func, ast.Name) and c_.func.id == "tuple" and len(c_.args) == 1]
    if not conv:
        raise AnalysisError("Array._DoOperation: conversion of the result list to a tuple not found")
    cfg4 = CFG(fn.node)
    for st in conv:
        # (judged by the facts that dominate the statement holding the conversion: `if g.IsTuple(): r = tuple(r)`,
        # `return C(q, tuple(r))` in the arm of that test, a conditional expression desugared into such arms)
        guarded = any(v and isinstance(e, ast.Call) and isinstance(e.func, ast.Attribute) and e.func.attr == "IsTuple" for e, v in cfg4.facts_at(cfg4.node_of(st)))
        rep.check(guarded, "C10.R4", "Array._DoOperation:tuple-iff-IsTuple", "the result list becomes a tuple exactly under IsTuple()", "the tuple conversion of the result is not guarded by IsTuple()", node=st, fn=fn)
    it = m.method("_ValueGenerator", "IsTuple")
    from .. import booleval
    atoms = ["it1", "it2", "t1", "t2"]

    def atom_of(e):
        txt = ast.unparse(e).replace(" ", "")
        return {"self.iterate_1st": "it1", "self.iterate_2nd": "it2", "isinstance(self.p1,tuple)": "t1", "isinstance(self.p2,tuple)": "t2"}.get(txt)

    def holds_bool(field):
        """every store to self.<field> in the class is an expression that yields a real bool"""
        def is_bool(v):
            if isinstance(v, ast.Constant):
                return isinstance(v.value, bool)
            if isinstance(v, ast.Compare):
                return True
            if isinstance(v, ast.UnaryOp) and isinstance(v.op, ast.Not):
                return True
            if isinstance(v, ast.BoolOp):
                return all(is_bool(x) for x in v.values)
            return isinstance(v, ast.Call) and isinstance(v.func, ast.Name) and v.func.id in ("isinstance", "bool", "issubclass", "callable", "hasattr")
        stores = [st for f_ in m.funcs.values() if f_.cls == "_ValueGenerator" for st in own_nodes(f_.node)
                  if isinstance(st, (ast.Assign, ast.AnnAssign, ast.AugAssign)) and any(isinstance(t_, ast.Attribute) and t_.attr == field for t_ in (st.targets if isinstance(st, ast.Assign) else [st.target]))]
        return bool(stores) and all(isinstance(st, (ast.Assign, ast.AnnAssign)) and st.value is not None and is_bool(st.value) for st in stores)

    atom_of.boolean = {"t1", "t2"} | ({"it1"} if holds_bool("iterate_1st") else set()) | ({"it2"} if holds_bool("iterate_2nd") else set())
    try:
        tt = booleval.truth_table(it.node, atoms, atom_of)
    except booleval.Unknown as e:
        raise AnalysisError("_ValueGenerator.IsTuple is not a boolean combination of the iterate flags and isinstance(operand, tuple): %s" % e)
    wrong = []
    for (it1, it2, t1, t2), got in tt.items():
        want = (it1 or it2) and (t1 or not it1) and (t2 or not it2)
        if got != want:
            wrong.append("iterate_1st=%s iterate_2nd=%s p1-is-tuple=%s p2-is-tuple=%s -> %s (expected %s)" % (it1, it2, t1, t2, got, want))
    rep.check(not wrong, "C10.R4", "_ValueGenerator.IsTuple:iterated-operands-only", "IsTuple() is true exactly when something is iterated and every iterated operand is a tuple (all 16 cases of its truth table)",
              "IsTuple(): %s" % "; ".join(wrong[:3]), fn=it)
    init = m.method("_ValueGenerator", "__init__")
    ok = True
    for st in own_statements(init.node):
        if isinstance(st, ast.Assign) and isinstance(st.targets[0], ast.Attribute) and st.targets[0].attr in ("iterate_1st", "iterate_2nd"):
            want = "p1" if st.targets[0].attr == "iterate_1st" else "p2"
            v = st.value
            if not (isinstance(v, ast.Call) and isinstance(v.func, ast.Name) and v.func.id == "isinstance" and isinstance(v.args[0], ast.Name) and v.args[0].id == want
                    and {x.id for x in ast.walk(v.args[1]) if isinstance(x, ast.Name)} == {"tuple", "list"}):
                ok = False
    rep.check(ok, "C10.R4", "_ValueGenerator.__init__:iterate-flags", "iterate_1st / iterate_2nd mean: that operand is a list or tuple", "iterate flags are not isinstance(operand, (tuple, list)) of their own operand", fn=init)


def r5_from_scalars(rep, ctx):
    m = ctx.model
    fn = m.method("Array", "FromScalars")
    res = Resolver(m, fn, flow=False)
    ctor = [c for c in own_nodes(fn.node) if isinstance(c, ast.Call) and isinstance(c.func, ast.Name) and c.func.id == fn.params[0]
            and any(k.arg == "values" and not (isinstance(k.value, ast.List) and not k.value.elts) for k in c.keywords)]
    if len(ctor) != 1:
        raise AnalysisError("Array.FromScalars: the constructing call with the converted values not found")
    c = ctor[0]
    kw = {k.arg: k.value for k in c.keywords}
    unit_arg = kw.get("unit")
    getvals = [g for g in own_nodes(fn.node) if isinstance(g, ast.Call) and isinstance(g.func, ast.Attribute) and g.func.attr in ("GetValue", "GetAbstractValue")]
    raw0 = [x for x in own_nodes(fn.node) if isinstance(x, ast.Attribute) and x.attr in ("value", "_value", "values")]
    if not raw0:
        rep.floor("C10.R5", "GetValue calls in FromScalars", len(getvals), 1)
    for g in getvals:
        same = bool(g.args) and unit_arg is not None and ast.dump(g.args[0]) == ast.dump(unit_arg)
        rep.check(same, "C10.R5", "FromScalars:%s" % norm(ast.unparse(g)), "the element is expressed in the unit that the new Array is given", "an element is taken with GetValue(%s) but the Array is built with unit=%s" % (ast.unparse(g.args[0]) if g.args else "", ast.unparse(unit_arg) if unit_arg is not None else None), node=g, fn=fn)
    # no raw value access of scalars
    raw = [x for x in own_nodes(fn.node) if isinstance(x, ast.Attribute) and x.attr in ("value", "_value")]
    rep.check(not raw, "C10.R5", "FromScalars:no-raw-values", "no element is taken by its raw stored value", "an element is taken by `.%s` without conversion to the common unit" % (raw[0].attr if raw else ""), fn=fn)
    # values list = first + rest
    vals = kw.get("values")
    t = res.term(vals) if vals is not None else None
    has_first = t is not None and any(s[0] == "call" and s[1][0] == "attr" and s[1][2] == "GetValue" and any(x[0] == "call" and x[1] == ("name", "next") for x in walk(s[1][1])) for s in walk(t))
    has_rest = (t is not None and any(s[0] == "gen" for s in walk(t))) or any(
        isinstance(x, (ast.GeneratorExp, ast.ListComp)) and isinstance(x.elt, ast.Call) and isinstance(x.elt.func, ast.Attribute) and x.elt.func.attr in ("GetValue", "GetAbstractValue")
        and isinstance(x.elt.func.value, ast.Name) and x.elt.func.value.id == x.generators[0].target.id and ast.unparse(x.generators[0].iter) == "scalars"
        for x in ast.walk(fn.node))
    rep.check(has_first and has_rest, "C10.R5", "FromScalars:all-elements", "the values are the first scalar followed by all remaining scalars", "the values list does not contain the first scalar and every remaining one: %s" % (show(t, 120) if t else None), node=c, fn=fn)


def _isnumpy_table(rep, m, rid="C10.R6"):
    """IsNumpy() decides between one call on the whole operands and the element loop: it must be true exactly when
    one of the operands is an ndarray (a list paired with a numpy *scalar* handed over whole would be repeated by `*`
    or rejected by `+`).  Decided by the truth table of the method over its leaf tests."""
    from .. import booleval

    fn = m.method("_ValueGenerator", "IsNumpy")
    try:
        leaves, tt = booleval.truth_table_auto(fn.node)
    except booleval.Unknown as e:
        raise AnalysisError("_ValueGenerator.IsNumpy is not a boolean combination of tests: %s" % e)
    selfn = fn.params[0]
    NDARRAY = ("numpy.ndarray", "ndarray", "np.ndarray")
    res = Resolver(m, fn)
    nd, sides = [], set()
    for k in leaves:
        try:
            x = ast.parse(k, mode="eval").body
        except SyntaxError:
            continue
        if isinstance(x, ast.Call) and isinstance(x.func, ast.Name) and x.func.id == "isinstance" and len(x.args) == 2:
            who = ast.unparse(x.args[0])
            what = x.args[1]
            # (the class may be named through a local or a module alias: resolve plain names in the function)
            wt = ast.unparse(what)
            if isinstance(what, ast.Name):
                for st in own_statements(fn.node):
                    if isinstance(st, ast.Assign) and len(st.targets) == 1 and isinstance(st.targets[0], ast.Name) and st.targets[0].id == what.id:
                        wt = ast.unparse(st.value)
            if who in (selfn + ".p1", selfn + ".p2") and wt in NDARRAY:
                nd.append(k)
                sides.add(who[-2:])
    idx = [leaves.index(k) for k in nd]
    wrong = [vals for vals, got in tt.items() if got != any(vals[i_] for i_ in idx)]
    rep.check(sides == {"p1", "p2"} and not wrong, rid, "_ValueGenerator.IsNumpy:ndarray-operands-only", "IsNumpy() is true exactly when the left or the right operand is an ndarray",
              "IsNumpy() is not `p1 is an ndarray or p2 is an ndarray` (leaf tests %s): operands that are not arrays are handed to the database operation whole, or arrays are iterated element by element" % leaves, fn=fn)


def r6_passthrough(rep, ctx):
    m = ctx.model
    _isnumpy_table(rep, m)
    init = m.method("_ValueGenerator", "__init__")
    res = Resolver(m, init)
    n = 0
    for st in own_statements(init.node):
        if isinstance(st, ast.Assign) and isinstance(st.targets[0], ast.Attribute) and st.targets[0].attr in ("p1", "p2"):
            n += 1
            want = init.params[1] if st.targets[0].attr == "p1" else init.params[2]
            t = res.term(st.value)
            ok = all(a[0] == "param" and a[2] == want for a in alternatives(t))
            rep.check(ok, "C10.R6", "_ValueGenerator.__init__:%s" % st.targets[0].attr, "operand %s is stored unchanged" % st.targets[0].attr,
                      "operand %s is stored as %s: elements are no longer the operand's own values (coercion changes element values / dtype)" % (st.targets[0].attr, show(t, 100)), node=st, fn=init)
    rep.floor("C10.R6", "operand stores", n, 1)
    it = m.method("_ValueGenerator", "__iter__")
    ires = Resolver(m, it, flow=True)
    ny = 0
    for y in own_nodes(it.node):
        if isinstance(y, (ast.Yield, ast.YieldFrom)) and y.value is not None:
            ny += 1
            t = ires.term(y.value)
            def leaf_ok(a):
                return a in (("field", "p1"), ("field", "p2")) or (a[0] == "elem" and a[1] in (("field", "p1"), ("field", "p2")))
            if isinstance(y, ast.YieldFrom):
                ok = t[0] == "call" and t[1] == ("name", "zip") and [x for x in t[2]] == [("field", "p1"), ("field", "p2")]
            else:
                ok = t[0] == "tuple" and len(t[1]) == 2 and all(leaf_ok(a) for x in t[1] for a in alternatives(x))
                if ok:
                    # first component from p1, second from p2
                    f0 = {("p1" if "p1" in str(a) else "p2") for a in alternatives(t[1][0])}
                    f1 = {("p1" if "p1" in str(a) else "p2") for a in alternatives(t[1][1])}
                    ok = f0 == {"p1"} and f1 == {"p2"}
            rep.check(ok, "C10.R6", "_ValueGenerator.__iter__:%s" % norm(ast.unparse(y)), "yields (left, right) made of the operands themselves or their own elements",
                      "the generator yields %s" % show(t, 120), node=y, fn=it)
    rep.floor("C10.R6", "yields", ny, 2)
    # element-wise pairing is only for non-numpy operands: every yield that iterates an operand is reached only
    # where IsNumpy() is known to be false (an ndarray is also "not a list", so a branch tested before the numpy
    # test would pair a whole ndarray with the elements of the other operand)
    from ..facts import facts as nfacts
    icfg = CFG(it.node)
    NUMPY = ("call", ("field", "IsNumpy"), (), ())
    tests_numpy = any(ires.term(icfg.ast[n_]) == NUMPY for n_ in icfg.nodes("test"))
    if not tests_numpy:
        raise AnalysisError("_ValueGenerator.__iter__: no test of self.IsNumpy() found (the numpy dispatch changed)")
    for y in own_nodes(it.node):
        if isinstance(y, (ast.Yield, ast.YieldFrom)) and y.value is not None:
            t = ires.term(y.value)
            iterates = isinstance(y, ast.YieldFrom) or any(x[0] == "elem" for x in walk(t))
            if not iterates:
                continue
            known_false = any(k == "truth" and not pos and ires.term(l_) == NUMPY for k, l_, r_, pos in nfacts(icfg, icfg.node_of(y)))
            rep.check(known_false, "C10.R6", "_ValueGenerator.__iter__:non-numpy:%s" % norm(ast.unparse(y)), "an operand is iterated element by element only when no operand is an ndarray",
                      "`%s` is reached without IsNumpy() being known false: with an ndarray on one side the whole array is paired with single elements of the other operand" % norm(ast.unparse(y)), node=y, fn=it)


def r8_no_truth_test_on_values(rep, ctx):
    """Container-kind independence: the values of an Array may be an ndarray, whose truth value raises for more
    than one element.  No method of Array / FixedArray may use the values container in a truth context
    (`if values`, `values and ...`, `not values`, conditional expressions, assert); `len(values) > 0` is the
    container-independent spelling."""
    m = ctx.model
    n = 0

    def is_values(t):
        for a_ in alternatives(t):
            if a_ in (("field", "_values"), ("field", "values")):
                return True
            if a_[0] == "attr" and a_[2] in ("values", "_values"):
                return True
            if a_[0] == "call" and a_[1][0] in ("field", "attr") and (a_[1][1] if a_[1][0] == "field" else a_[1][2]) in ("GetValues", "GetAbstractValue") and a_[1][0] == "field":
                return True
        return False

    for cname in ("Array", "FixedArray"):
        for name, fn in sorted(m.classes[cname].methods.items()):
            if fn.cls != cname:
                continue
            res = Resolver(m, fn)
            ctxs = []
            for x in own_nodes(fn.node):
                if isinstance(x, (ast.If, ast.While, ast.IfExp, ast.Assert)):
                    ctxs.append(x.test)
                elif isinstance(x, ast.BoolOp):
                    ctxs.extend(x.values)
                elif isinstance(x, ast.UnaryOp) and isinstance(x.op, ast.Not):
                    ctxs.append(x.operand)
                elif isinstance(x, ast.comprehension):
                    ctxs.extend(x.ifs)
            seen = set()
            for e in ctxs:
                while isinstance(e, ast.UnaryOp) and isinstance(e.op, ast.Not):
                    e = e.operand
                if isinstance(e, ast.BoolOp) or id(e) in seen:
                    continue
                seen.add(id(e))
                if not isinstance(e, (ast.Name, ast.Attribute, ast.Call)):
                    continue
                n += 1
                if is_values(res.term(e)):
                    rep.bad("C10.R8", "%s.%s:truth-of-values:%s" % (cname, name, norm(ast.unparse(e))[:40]), "%s.%s tests the truth value of the values container (`%s`): with a numpy-backed array of more than one element this raises ValueError, so the result depends on the container kind" % (cname, name, norm(ast.unparse(e))[:60]), node=e, fn=fn)
    rep.ok("C10.R8", "truth-contexts-examined", "%d truth contexts of Array/FixedArray methods examined; none tests the values container itself" % n)
    rep.floor("C10.R8", "truth contexts examined", n, 5)


def r7_getvalues(rep, ctx):
    m = ctx.model
    fn = m.method("Array", "GetAbstractValue")
    res = Resolver(m, fn, flow=False)
    unit_i = fn.params.index("unit")
    convs = [c for c in own_nodes(fn.node) if isinstance(c, ast.Call) and ((isinstance(c.func, ast.Attribute) and c.func.attr == "Convert") or (isinstance(c.func, ast.Name) and c.func.id == "Convert"))]
    rep.floor("C10.R7", "Convert calls in Array.GetAbstractValue", len(convs), 1)
    for c in convs:
        f = res.term(c.func)
        recv_ok = all(a == ("attr", ("field", "_quantity"), "Convert") for a in alternatives(f))
        to = res.term(c.args[1]) if len(c.args) > 1 else None
        to_ok = to == ("param", unit_i, "unit")
        v = _term_in_comprehension(res, c.args[0]) if c.args else None
        v_ok = v is not None and all(a == ("field", "_value") or (a[0] == "elem" and any(s == ("field", "_value") for s in walk(a))) for a in alternatives(v))
        rep.check(recv_ok and to_ok and v_ok, "C10.R7", "Array.GetAbstractValue:%s" % norm(ast.unparse(c)), "stored values (or their elements) are converted by the own quantity to the requested unit",
                  "Array.GetAbstractValue converts %s to %s via %s" % (show(v) if v else None, show(to) if to else None, show(f)), node=c, fn=fn)
    # the unconverted return is guarded by unit None / equal to own unit
    cfg = CFG(fn.node)
    P_UNIT = ("param", unit_i, "unit")
    OWN = (("attr", ("field", "_quantity"), "unit"), ("call", ("attr", ("field", "_quantity"), "GetUnit"), (), ()), ("field", "unit"), ("call", ("field", "GetUnit"), (), ()))

    def guard_key(nid):
        """tests `unit is None` and `unit == <own unit>` (either spelling, either order), as atoms of the path states"""
        t_ = res.term(cfg.ast[nid])
        if t_[0] == "op" and t_[1] in ("cmp:Is", "cmp:IsNot") and len(t_[2]) == 2 and set(t_[2]) == {P_UNIT, ("const", None)}:
            return (("unit-none",), t_[1] == "cmp:IsNot")
        if t_[0] == "op" and t_[1] in ("cmp:Eq", "cmp:NotEq") and len(t_[2]) == 2 and P_UNIT in t_[2] and any(all(a_ in OWN for a_ in alternatives(x_)) for x_ in t_[2] if x_ != P_UNIT):
            return (("unit-own",), t_[1] == "cmp:NotEq")
        return None

    states = None
    for r in cfg.returns():
        node = cfg.ast[r]
        t = res.term(node.value)
        if all(a == ("field", "_value") for a in alternatives(t)):
            # on every path to this return the requested unit was found to be None or the own unit (path states with
            # the two tests as atoms: `if unit is None or unit == own`, its negation with swapped arms, guard clauses)
            if states is None:
                states = cfg.consistent_states(guard_key)
            asgs = [dict(a_) for a_ in states.get(r, ())]
            guarded = bool(asgs) and all(d_.get(("unit-none",)) is True or d_.get(("unit-own",)) is True for d_ in asgs)
            rep.check(guarded, "C10.R7", "Array.GetAbstractValue:unconverted-return", "stored values are returned unconverted only when no unit or the own unit is requested",
                      "Array.GetAbstractValue returns the stored values unconverted without testing the requested unit against the own unit", node=node, fn=fn)


def _term_in_comprehension(res, e):
    """Term of e; a name bound by an enclosing comprehension becomes elem(<iter term>)."""
    if isinstance(e, ast.Name):
        p = getattr(e, "_parent", None)
        while p is not None and not isinstance(p, (ast.FunctionDef, ast.Lambda)):
            if isinstance(p, (ast.GeneratorExp, ast.ListComp, ast.SetComp)):
                for g in p.generators:
                    if isinstance(g.target, ast.Name) and g.target.id == e.id:
                        return ("elem", _term_in_comprehension(res, g.iter))
            p = getattr(p, "_parent", None)
    return res.term(e)


# ------------------------------------------------------------------------------------------------
def r10_formula_compile(rep, ctx):
    """UnitInfo compiles a formula string to `lambda x: <formula>`; numpy evaluates that element-wise (trusted).
    This holds only if the rewriting of the string replaces placeholders by the bare argument: a rewrite that
    takes effect and wraps the argument (`float(x)`, `int(x)`, `math.sqrt(x)`) makes the compiled function
    scalar-only, so ndarray-backed Arrays convert differently from lists and Scalars."""
    m = ctx.model
    from ..convmodel import formula_compiler
    fn = formula_compiler(m)
    n = 0
    for st in own_statements(fn.node):
        if not isinstance(st, (ast.Assign, ast.Return)) or st.value is None:
            continue
        # replace calls whose result is kept (assigned / returned); a bare expression statement has no effect
        for c in ast.walk(st.value):
            if isinstance(c, ast.Call) and isinstance(c.func, ast.Attribute) and c.func.attr == "replace" and len(c.args) >= 2:
                n += 1
                new = c.args[1]
                ok = isinstance(new, ast.Constant) and new.value == "x"
                rep.check(ok, "C10.R10", "MakeLambda:%s" % norm(ast.unparse(c))[-60:], "the rewrite puts the bare argument in place of a placeholder",
                          "the formula string is rewritten with `%s`: the compiled conversion wraps its argument in something other than the argument itself, which a numpy array does not survive (float(array) raises or collapses it)" % norm(ast.unparse(c))[-70:], node=c, fn=fn)
    rep.floor("C10.R10", "effective rewrites of the formula string", n, 1)
