"""C11  Size invariants: FixedArray dimension (>= 2) and Curve image/domain length."""
import ast

from ..cfg import CFG
from ..report import AnalysisError, norm
from ..srcmodel import own_nodes, own_statements, program_order
from ..terms import Resolver, alternatives, show, walk

PROP = "C11"
EXHAUSTIVE = False
EXPLANATION = (
    "R1 single gate: every FixedArray is initialised through FixedArray._InternalCreateWithQuantity, where every path to "
    "the base-class initialiser passes the 'dimension < 2 must-raise ValueError' test, the re-definition mismatch raise "
    "and CheckValues(values, dimension) on the very `dimension` that is stored; CheckValues must-raise when "
    "len(values) differs; _dimension and _value have no other writer. R2 every construction route reaches the gate with "
    "the right dimension: __init__ tests before storing, CreateEmptyArray and CreateCopy forward dimension=, ChangingIndex "
    "and __reduce__ rebuild through the constructor with the own dimension; subclasses do not bypass the gate. R3 "
    "ChangingIndex / IndexAsScalar: the edited container is a copy expressed in the target unit, exactly one index is "
    "assigned, with the supplied amount expressed in the same unit. R4 Curve: _image/_domain are stored only in the "
    "constructor and the two setters, each store is dominated by the length check of the *new* pair, and the length "
    "check has no normal exit other than through 'lengths are equal'. Check-before-write gives 'a rejected attempt leaves "
    "its source unchanged'."
)
ASSUMPTIONS = ["len() of the containers used (list, tuple, ndarray) is their element count along the first axis"]
TRUSTED = []


def run(rep, ctx):
    rep.run_rule("C11.R1", "the FixedArray gate: dimension >= 2, no silent re-definition, len(values) == dimension, before anything is stored", r1_gate, ctx)
    rep.run_rule("C11.R2", "every construction route of FixedArray reaches the gate with the right dimension", r2_routes, ctx)
    rep.run_rule("C11.R3", "ChangingIndex / IndexAsScalar edit a copy at exactly one index in one unit", r3_index, ctx)
    rep.run_rule("C11.R4", "Curve: image and domain are stored only after the length check of the new pair, which cannot be passed with different lengths", r4_curve, ctx)
    rep.not_decided += [
        "numpy broadcasting producing arrays whose first axis is shorter than the operands (C10 not decided)",
        "the category of ChangingIndex results for plain numbers (recorded under C02)",
    ]


def _cmp_const(e, op, const):
    return isinstance(e, ast.Compare) and len(e.ops) == 1 and isinstance(e.ops[0], op) and isinstance(e.comparators[0], ast.Constant) and e.comparators[0].value == const


def _min_dim_tests(cfg, res, name):
    """test leaves `X < 2` (or `X <= 1`, `2 > X`) -> [(nid, raising label, term of X)]"""
    out = []
    for nid in cfg.nodes("test"):
        e = cfg.ast[nid]
        if _cmp_const(e, ast.Lt, 2) or _cmp_const(e, ast.LtE, 1):
            out.append((nid, "T", res.term(e.left), e.left))
        elif isinstance(e, ast.Compare) and len(e.ops) == 1 and isinstance(e.left, ast.Constant):
            if (isinstance(e.ops[0], ast.Gt) and e.left.value == 2) or (isinstance(e.ops[0], ast.GtE) and e.left.value == 1):
                out.append((nid, "T", res.term(e.comparators[0]), e.comparators[0]))
        elif _cmp_const(e, ast.GtE, 2) or _cmp_const(e, ast.Gt, 1):
            out.append((nid, "F", res.term(e.left), e.left))
    return out


def _raises_value_error(cfg, nid, lab):
    ok = cfg.must_raise_from([(nid, lab)])
    names = set()
    for x in cfg.reach(nid, start_edges={lab}):
        if cfg.kind[x] == "raise" and cfg.ast[x].exc is not None:
            exc = cfg.ast[x].exc
            names.add(ast.unparse(exc.func if isinstance(exc, ast.Call) else exc))
    return ok and names == {"ValueError"}


def r1_gate(rep, ctx):
    m = ctx.model
    fn = m.own_method("FixedArray", "_InternalCreateWithQuantity")
    if fn is None:
        raise AnalysisError("FixedArray._InternalCreateWithQuantity not found")
    cfg = CFG(fn.node)
    res = Resolver(m, fn)
    base = [c for c in own_nodes(fn.node) if isinstance(c, ast.Call) and isinstance(c.func, ast.Attribute) and c.func.attr == "_InternalCreateWithQuantity"]
    if len(base) != 1:
        raise AnalysisError("FixedArray._InternalCreateWithQuantity: expected one call of the base initialiser, found %d" % len(base))
    B = cfg.node_of(base[0])
    dom = cfg.dominating_edges(B)
    stores = [st for st in own_statements(fn.node) if isinstance(st, ast.Assign) and isinstance(st.targets[0], ast.Attribute) and st.targets[0].attr == "_dimension"]
    final = [st for st in stores if B in cfg.reach(cfg.node_of(st)) and isinstance(st.value, ast.Name)]
    if not final:
        raise AnalysisError("FixedArray._InternalCreateWithQuantity: store of the final dimension not found")
    st_dim = final[-1]
    dim_term = res.term(st_dim.value)
    # (a) dimension < 2 must-raise, dominating the base call, on the stored variable
    tests = _min_dim_tests(cfg, res, "dimension")
    ok = False
    why = "no test 'dimension < 2' found"
    for nid, lab, t, expr in tests:
        passing = "F" if lab == "T" else "T"
        if not _raises_value_error(cfg, nid, lab):
            why = "the 'dimension < 2' branch does not always raise ValueError"
            continue
        if (nid, passing) not in dom:
            why = "a path reaches the initialiser without passing the 'dimension < 2' test (e.g. when the dimension is inferred from len(values))"
            continue
        if t != dim_term:
            why = "the tested value (%s) is not the dimension that is stored (%s)" % (show(t), show(dim_term))
            continue
        ok = True
    rep.check(ok, "C11.R1", "gate:min-dimension", "every path to the initialiser passes 'dimension < 2 -> ValueError' on the dimension that is stored",
              "FixedArray gate: %s: a FixedArray of dimension 0 or 1 can be created" % why, node=base[0], fn=fn, facts={"entry": fn.qual, "offending_exit": "base initialiser call at line %d" % base[0].lineno})
    # (b) CheckValues(values, dimension) dominates, same dimension, same values as handed to the base initialiser
    cv = [c for c in own_nodes(fn.node) if isinstance(c, ast.Call) and isinstance(c.func, ast.Attribute) and c.func.attr == "CheckValues"]
    ok = False
    why = "CheckValues is not called"
    for c in cv:
        cn = cfg.node_of(c)
        if not cfg.dominated_by_node(B, lambda k, a, c=c: a is cfg.ast[cn]):
            why = "a path reaches the initialiser without CheckValues"
            continue
        args = [res.term(a) for a in c.args]
        if len(args) < 2 or args[1] != dim_term:
            why = "CheckValues is not given the dimension that is stored"
            continue
        if args[0] != res.term(base[0].args[2]) if len(base[0].args) > 2 else True:
            why = "CheckValues checks other values than the ones stored"
            continue
        ok = True
    rep.check(ok, "C11.R1", "gate:check-values", "CheckValues(values, dimension) on the stored values and dimension dominates the initialiser", "FixedArray gate: %s" % why, node=base[0], fn=fn)
    # (c) CheckValues must-raise on a length mismatch
    chk = m.method("FixedArray", "CheckValues")
    ccfg = CFG(chk.node)
    cres = Resolver(m, chk)
    ok = False
    for nid in ccfg.nodes("test"):
        e = ccfg.ast[nid]
        if isinstance(e, ast.Compare) and len(e.ops) == 1 and isinstance(e.ops[0], (ast.NotEq, ast.Eq)):
            l, r = cres.term(e.left), cres.term(e.comparators[0])
            def is_len_values(t):
                return t[0] == "call" and t[1] == ("name", "len") and t[2] and t[2][0][0] == "param" and t[2][0][2] == "values"
            def is_dim(t):
                return all(a[0] == "param" and a[2] == "dimension" or a in (("field", "dimension"), ("field", "_dimension"), ("call", ("field", "GetDimension"), (), ())) for a in alternatives(t)) and any(a[0] == "param" for a in alternatives(t))
            if (is_len_values(l) and is_dim(r)) or (is_len_values(r) and is_dim(l)):
                differ = "T" if isinstance(e.ops[0], ast.NotEq) else "F"
                same = "F" if differ == "T" else "T"
                exits_ok = ccfg.exit_requires_edge(nid, same)
                if _raises_value_error(ccfg, nid, differ) and exits_ok:
                    ok = True
    rep.check(ok, "C11.R1", "CheckValues:must-raise", "CheckValues has no normal exit unless len(values) == dimension; a mismatch raises ValueError",
              "CheckValues can return normally although len(values) differs from the dimension", fn=chk)
    # (d) re-definition mismatch raise
    mismatch = False
    for nid in cfg.nodes("test"):
        e = cfg.ast[nid]
        if isinstance(e, ast.Compare) and len(e.ops) == 1 and isinstance(e.ops[0], ast.NotEq):
            l, r = res.term(e.left), res.term(e.comparators[0])
            if {show(l), show(r)} >= {"self._dimension"} and any(s[0] == "param" and s[2] == "dimension" for t in (l, r) for s in walk(t)):
                mismatch = _raises_value_error(cfg, nid, "T")
    rep.check(mismatch, "C11.R1", "gate:redefinition", "an explicit dimension that differs from the one already set must-raise ValueError", "a differing explicit dimension silently replaces the dimension already set", fn=fn)
    # (e) who-may-write _dimension
    n = 0
    for f2 in m.funcs.values():
        for x in own_nodes(f2.node):
            if isinstance(x, ast.Attribute) and isinstance(x.ctx, ast.Store) and x.attr == "_dimension":
                n += 1
                ok = f2.cls == "FixedArray" and f2.name in ("__init__", "_InternalCreateWithQuantity")
                rep.check(ok, "C11.R1", "writer:_dimension:%s" % f2.qual.split(".", 2)[-1] + ":%d" % n, "_dimension is stored by %s" % f2.name, "_dimension is stored by %s, outside the gate" % f2.qual, node=x, fn=f2)
    rep.floor("C11.R1", "stores of _dimension", n, 1)


def r2_routes(rep, ctx):
    m = ctx.model
    # __init__: test before store and before Array.__init__
    init = m.own_method("FixedArray", "__init__")
    cfg = CFG(init.node)
    res = Resolver(m, init)
    tests = _min_dim_tests(cfg, res, "dimension")
    st = [s for s in own_statements(init.node) if isinstance(s, ast.Assign) and isinstance(s.targets[0], ast.Attribute) and s.targets[0].attr == "_dimension"]
    up = [c for c in own_nodes(init.node) if isinstance(c, ast.Call) and isinstance(c.func, ast.Attribute) and c.func.attr == "__init__"]
    if not st or not up:
        raise AnalysisError("FixedArray.__init__: store of _dimension / call of Array.__init__ not found")
    ok = False
    for nid, lab, t, expr in tests:
        passing = "F" if lab == "T" else "T"
        if _raises_value_error(cfg, nid, lab) and (nid, passing) in cfg.dominating_edges(cfg.node_of(st[0])) and t == res.term(st[0].value) and t[0] == "param":
            ok = True
    rep.check(ok, "C11.R2", "__init__:min-dimension-before-store", "FixedArray.__init__ rejects dimension < 2 before storing it", "FixedArray.__init__ stores the dimension without a dominating 'dimension < 2 -> ValueError' test", node=st[0], fn=init)
    # forwarding of dimension=
    for meth, how in (("CreateEmptyArray", "param"), ("CreateCopy", "own")):
        fn = m.own_method("FixedArray", meth)
        if fn is None:
            raise AnalysisError("FixedArray.%s not found" % meth)
        r2 = Resolver(m, fn)
        calls = [c for c in own_nodes(fn.node) if isinstance(c, ast.Call) and any(k.arg == "dimension" for k in c.keywords)]
        ok = False
        for c in calls:
            t = r2.term(next(k.value for k in c.keywords if k.arg == "dimension"))
            if how == "param":
                ok = t[0] == "param" and t[2] == "dimension"
            else:
                ok = t in (("field", "_dimension"), ("field", "dimension"), ("call", ("field", "GetDimension"), (), ()))
        rep.check(ok, "C11.R2", "%s:forwards-dimension" % meth, "%s hands the %s dimension to the gate" % (meth, "requested" if how == "param" else "own"),
                  "%s does not forward dimension= to the gate: the dimension is inferred from len(values) and any length is accepted" % meth, fn=fn)
    # rebuilding routes
    for meth in ("ChangingIndex", "__reduce__"):
        fn = m.own_method("FixedArray", meth)
        r2 = Resolver(m, fn)
        ok = False
        for r in own_nodes(fn.node):
            if isinstance(r, ast.Return) and r.value is not None:
                t = r2.term(r.value)
                cand = None
                if t[0] == "call" and t[1] == ("name", "FixedArray") and t[2]:
                    cand = t[2][0]
                elif t[0] == "tuple" and len(t[1]) == 2 and t[1][0] == ("name", "FixedArray") and t[1][1][0] == "tuple" and t[1][1][1]:
                    cand = t[1][1][1][0]
                if cand in (("field", "_dimension"), ("field", "dimension"), ("call", ("field", "GetDimension"), (), ())):
                    ok = True
        rep.check(ok, "C11.R2", "%s:rebuilds-with-own-dimension" % meth, "%s rebuilds through the constructor with the own dimension first" % meth, "%s does not rebuild through FixedArray(<own dimension>, ...)" % meth, fn=fn)
    # the shared CreateCopy forwards its extra keyword arguments (FixedArray passes `dimension` this way) on every route
    cc = m.method("AbstractValueWithQuantityObject", "CreateCopy")
    kwname = cc.node.args.kwarg.arg if cc.node.args.kwarg is not None else None
    if kwname is None:
        raise AnalysisError("AbstractValueWithQuantityObject.CreateCopy has no **kwargs parameter")
    cw = [c for c in own_nodes(cc.node) if isinstance(c, ast.Call) and isinstance(c.func, ast.Attribute) and c.func.attr == "CreateWithQuantity"]
    if not cw:
        raise AnalysisError("AbstractValueWithQuantityObject.CreateCopy: no CreateWithQuantity call found")
    for c in sorted(cw, key=program_order(cc.node)):
        fwd = any(k.arg is None and isinstance(k.value, ast.Name) and k.value.id == kwname for k in c.keywords)
        rep.check(fwd, "C11.R2", "CreateCopy:forwards-kwargs:%s" % norm(ast.unparse(c))[:70], "the copy is created with the extra keyword arguments of the caller (FixedArray's dimension)",
                  "this route of CreateCopy drops **%s: a FixedArray copied on it takes its dimension from len(values) instead of the original's dimension" % kwname, node=c, fn=cc)
    # subclasses of FixedArray must not override the gate without calling it
    for c in m.subclasses("FixedArray"):
        if c == "FixedArray":
            continue
        g = m.classes[c].methods.get("_InternalCreateWithQuantity")
        if g is not None:
            calls_gate = any(isinstance(x, ast.Call) and isinstance(x.func, ast.Attribute) and x.func.attr == "_InternalCreateWithQuantity" for x in own_nodes(g.node))
            rep.check(calls_gate, "C11.R2", "%s:override-calls-gate" % c, "the override calls the gate", "%s overrides the gate without calling it" % c, fn=g)


def r3_index(rep, ctx):
    m = ctx.model
    fn = m.own_method("FixedArray", "ChangingIndex")
    res = Resolver(m, fn)
    idx_i = fn.params.index("index")
    stores = [s for s in own_statements(fn.node) if isinstance(s, ast.Assign) and isinstance(s.targets[0], ast.Subscript)]
    rep.check(len(stores) == 1 and res.term(stores[0].targets[0].slice) == ("param", idx_i, "index"), "C11.R3", "ChangingIndex:one-index",
              "exactly one element, the one at `index`, is assigned", "ChangingIndex assigns %d elements / not at `index`" % len(stores), fn=fn)
    if stores:
        s = stores[0]
        cont = res.term(s.targets[0].value)
        val = res.term(s.value)
        # container: list(self.GetValues(U)), value: scalar.GetValue(U) with the same U
        def unit_of(t, meths):
            """The unit argument of the outermost accessor call (under list()/tuple() wrappers); the same for every alternative."""
            units = set()
            for a in alternatives(t):
                x = a
                while x[0] == "call" and x[1] in (("name", "list"), ("name", "tuple")) and len(x[2]) == 1:
                    x = x[2][0]
                if x[0] == "call" and x[1][0] in ("attr", "field") and (x[1][2] if x[1][0] == "attr" else x[1][1]) in meths and x[2]:
                    units.add(x[2][0])
                else:
                    return None
            return units.pop() if len(units) == 1 else None
        u1 = unit_of(cont, ("GetValues", "GetAbstractValue"))
        u2 = unit_of(val, ("GetValue", "GetAbstractValue"))
        fresh = all(a[0] == "call" and a[1] in (("name", "list"),) for a in alternatives(cont))
        rep.check(u1 is not None and u1 == u2 and fresh, "C11.R3", "ChangingIndex:same-unit-copy", "the edited container is a copy of the own values in the target unit and the new element is expressed in that same unit",
                  "ChangingIndex edits %s with %s: %s" % (show(cont, 80), show(val, 80), "container and element are in different units" if u1 != u2 else "the container is not a copy"), node=s, fn=fn)
    # every Scalar that ChangingIndex builds to hold the new element carries an amount: the supplied value, or
    # (tuple form: re-expression of the stored element) the element at `index`; a Scalar built from the quantity
    # alone holds the category's default value instead
    P_VALUE = ("param", fn.params.index("value"), "value")
    for c in own_nodes(fn.node):
        if isinstance(c, ast.Call) and isinstance(c.func, ast.Name) and c.func.id == "Scalar":
            t = res.term(c)
            args = list(t[2]) if t[0] == "call" else []
            stored = len(args) >= 2 and all(a_ == P_VALUE or (a_[0] == "sub" and a_[2] == ("param", idx_i, "index") and a_[1][0] == "call" and a_[1][1][0] == "field" and a_[1][1][1] in ("GetValues", "GetAbstractValue"))
                                            or (a_[0] == "sub" and a_[2] == ("const", 0) and a_[1] == P_VALUE) for a_ in alternatives(args[1]))
            rep.check(stored, "C11.R3", "ChangingIndex:scalar-holds-an-amount:%s" % norm(ast.unparse(c))[:50], "the Scalar built for the new element holds the supplied amount or the stored element",
                      "ChangingIndex builds `%s`: the Scalar that is re-expressed does not hold the stored element (a Scalar built from the quantity alone holds the category default), so ChangingIndex(i, (None, unit)) replaces the element by the default value" % norm(ast.unparse(c))[:80], node=c, fn=fn)
    ia = m.own_method("FixedArray", "IndexAsScalar")
    r2 = Resolver(m, ia)
    ok = False
    for r in own_nodes(ia.node):
        if isinstance(r, ast.Return) and r.value is not None:
            t = r2.term(r.value)
            if t[0] == "call" and t[1] == ("name", "Scalar") and len(t[2]) == 2:
                q, v = t[2]
                if v[0] == "sub" and v[2] == ("param", ia.params.index("index"), "index"):
                    inner = v[1]
                    if inner[0] == "call" and inner[1] == ("field", "GetValues"):
                        u = dict(inner[3]).get("unit") or (inner[2][0] if inner[2] else None)
                        # u must be <the same quantity>.GetUnit()
                        if u is not None and ((u[0] == "call" and u[1][0] == "attr" and u[1][2] == "GetUnit" and u[1][1] == q) or (u[0] == "attr" and u[2] == "unit" and u[1] == q)):
                            ok = True
    rep.check(ok, "C11.R3", "IndexAsScalar:unit-of-quantity", "the element is taken in the unit of the quantity the Scalar is built with", "IndexAsScalar builds a Scalar whose value is not expressed in its quantity's unit", fn=ia)


def r4_curve(rep, ctx):
    m = ctx.model
    m.cls("Curve")
    chk = m.method("Curve", "_CheckImageAndDomainLength", or_module_function=True)
    cfg = CFG(chk.node)
    res = Resolver(m, chk)
    ok = False
    why = "no comparison of the two lengths found"
    for nid in cfg.nodes("test"):
        e = cfg.ast[nid]
        if isinstance(e, ast.Compare) and len(e.ops) == 1 and isinstance(e.ops[0], (ast.NotEq, ast.Eq)):
            l, r = res.term(e.left), res.term(e.comparators[0])
            def len_of(t):
                if t[0] == "call" and t[1] == ("name", "len") and t[2]:
                    ps = {s[2] for s in walk(t[2][0]) if s[0] == "param"}
                    return ps
                return set()
            if {frozenset(len_of(l)), frozenset(len_of(r))} == {frozenset({chk.params[-2]}), frozenset({chk.params[-1]})} and len(chk.params) >= 2:
                differ = "T" if isinstance(e.ops[0], ast.NotEq) else "F"
                same = "F" if differ == "T" else "T"
                if not _raises_value_error(cfg, nid, differ):
                    why = "differing lengths do not always raise ValueError"
                    continue
                if not cfg.exit_requires_edge(nid, same):
                    why = "the check can return normally without having found the lengths equal"
                    continue
                ok = True
    rep.check(ok, "C11.R4", "Curve._CheckImageAndDomainLength:must-raise", "the length check has no normal exit other than 'lengths are equal'; a mismatch raises ValueError",
              "Curve length check: %s: image and domain of different lengths can be stored" % why, fn=chk)
    n = 0
    for fn in m.funcs.values():
        for st in own_statements(fn.node):
            if not (isinstance(st, ast.Assign) and isinstance(st.targets[0], ast.Attribute) and st.targets[0].attr in ("_image", "_domain")):
                continue
            if fn.cls != "Curve":
                n += 1
                rep.bad("C11.R4", "writer:%s:%s" % (st.targets[0].attr, fn.qual.split(".", 2)[-1]), "%s of a Curve is stored outside Curve" % st.targets[0].attr, node=st, fn=fn)
                continue
            n += 1
            attr = st.targets[0].attr
            c2 = CFG(fn.node)
            r2 = Resolver(m, fn)
            new = r2.term(st.value)
            S = c2.node_of(st)
            okc = False
            for c in own_nodes(fn.node):
                if isinstance(c, ast.Call) and ((isinstance(c.func, ast.Attribute) and c.func.attr == "_CheckImageAndDomainLength") or (isinstance(c.func, ast.Name) and c.func.id == "_CheckImageAndDomainLength" and not chk.is_method)):
                    from ..facts import ordered_args
                    oa = ordered_args(c, chk)
                    if len(oa) < 2 or oa[0] is None or oa[1] is None:
                        continue
                    cn = c2.node_of(c)
                    if not c2.dominated_by_node(S, lambda k, a, cn=cn: a is c2.ast[cn]):
                        continue
                    img, dom = r2.term(oa[0]), r2.term(oa[1])
                    mine, other = (img, dom) if attr == "_image" else (dom, img)
                    other_attr = "_domain" if attr == "_image" else "_image"
                    # the other half: the stored field, or what this function stores into it
                    other_new = [r2.term(s2.value) for s2 in own_statements(fn.node) if isinstance(s2, ast.Assign) and isinstance(s2.targets[0], ast.Attribute) and s2.targets[0].attr == other_attr]
                    if mine == new and (other == ("field", other_attr) and not other_new or other in other_new):
                        okc = True
            rep.check(okc, "C11.R4", "Curve.%s:store:%s" % (fn.name, attr), "the store of %s is dominated by the length check of the new (image, domain) pair" % attr,
                      "Curve.%s stores %s without a dominating length check of the pair it will hold afterwards" % (fn.name, attr), node=st, fn=fn)
    rep.floor("C11.R4", "stores of _image/_domain", n, 2)
