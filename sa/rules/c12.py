"""C12  Limit validation depends only on the physical amount."""
import ast

from ..cfg import CFG
from ..report import borrow, AnalysisError, norm
from ..srcmodel import own_nodes, own_statements
from ..terms import Resolver, alternatives, show, walk

PROP = "C12"
EXHAUSTIVE = False
EXPLANATION = (
    "R1 comparison table: in Quantity.CheckValue each of the four (limit, exclusivity) cases is tested with its own "
    "operator in the NaN-rejecting form `not (value OP limit)`, reports exactly that operator and that limit, and sits in "
    "the matching arm of the exclusivity flag; the same table is checked for the four default-value assertions of "
    "AddCategory. R2 convert first: every comparison sees the value after the conversion from the quantity's own unit to "
    "the category's default unit (guarded by 'unit differs from the default unit'), limits and default unit come from the "
    "same CategoryInfo. R3 Array scan: in both loops the NaN test comes first and skips, there is one min-like accumulator "
    "(updated under value < acc) and one max-like (under value > acc), both initialised from an element, both reach "
    "CheckValue; the tuple-of-tuples branch checks every element; Scalar / FractionScalar validate the stored amount "
    "through the own quantity. R4 verdict memo: written only from the outcome of the validation, by the constructor and "
    "ValidateValues. R5 exception flow: what CheckValue raises is a ValueError subclass, which IsValid catches. "
    "R6 registration: the default-value assertions are evaluated on the final default/limits (no later re-definition), "
    "every given or inherited default reaches them, derived defaults are only taken from inclusive limits, and a default "
    "unit outside the quantity type must-raise before the category is stored."
)
ASSUMPTIONS = ["monotonic conversions (C01) make checking min and max of an Array equivalent to checking every element"]
TRUSTED = ["numpy.isnan"]

OPS = {ast.Gt: ">", ast.GtE: ">=", ast.Lt: "<", ast.LtE: "<="}
TOPS = {"cmp:Gt": ">", "cmp:GtE": ">=", "cmp:Lt": "<", "cmp:LtE": "<="}
TABLE = {("min", True): ">", ("min", False): ">=", ("max", True): "<", ("max", False): "<="}


def run(rep, ctx):
    rep.run_rule("C12.R1", "each (limit, exclusivity) case uses its own operator, NaN-rejecting, and reports that operator and limit", r1_table, ctx)
    rep.run_rule("C12.R2", "comparisons see the value converted from the own unit to the category's default unit", r2_convert_first, ctx)
    rep.run_rule("C12.R3", "Array scan: NaN skipped first, min and max accumulators both checked; tuple-of-tuples checks every element; Scalar kinds check the stored amount", r3_scan, ctx)
    rep.run_rule("C12.R4", "the validity memo of an Array is written only from the outcome of its own validation", r4_memo, ctx)
    rep.run_rule("C12.R5", "CheckValue raises a ValueError subclass, which IsValid catches", r5_exceptions, ctx)
    rep.run_rule("C12.R6", "registration: default value asserted against the final limits on every non-derived path; default unit checked before the store", r6_registration, ctx)
    from . import c13
    rep.rule("C12.R7", "value objects keep no validation state besides the known verdict memo of Array, which is written only by ValidateValues (shared with C13.R1)")
    try:
        borrow(rep, c13.r1_writers, ctx, "C13.R1", "C12.R7", keep=lambda o: o.key.endswith(":new-state") or "_is_valid" in o.key or "_validity_exception" in o.key)
    except AnalysisError as e:
        rep.error("C12.R7", str(e))
    from . import c16
    rep.rule("C12.R8", "the default unit a category is registered with is a unit of its quantity type in its current spelling: the rewritten legacy spelling is what is stored (shared with C16.R4 / C16.R5)")
    try:
        borrow(rep, c16.r4_sites, ctx, "C16.R4", "C12.R8", keep=lambda o: "AddCategory" in o.key)
        borrow(rep, c16.r5_stored, ctx, "C16.R5", "C12.R8", keep=lambda o: "AddCategory" in o.key)
    except AnalysisError as e:
        rep.error("C12.R8", str(e))
    rep.not_decided += [
        "acceptance 'exactly when' for arbitrary floats (operator, operand order and dataflow are decided, not arithmetic)",
        "numpy arrays with more than one dimension",
    ]


def _limit_kind(t):
    for a in alternatives(t):
        if a[0] == "attr" and a[2] in ("min_value", "max_value"):
            return a[2][:3]
        if a[0] == "param" and a[2] in ("min_value", "max_value"):
            return a[2][:3]
    return None


def _enclosing_ifs(node, stop):
    """[(If node, in_body?)] from innermost to outermost."""
    out = []
    child, p = node, getattr(node, "_parent", None)
    while p is not None and p is not stop:
        if isinstance(p, ast.If):
            out.append((p, child in p.body))
        child, p = p, getattr(p, "_parent", None)
    return out


def _excl_flag(ifs, kind):
    """Exclusivity established by the enclosing ifs for `kind` ('min'/'max'): True/False/None."""
    for node, in_body in ifs:
        txt = ast.unparse(node.test)
        if txt.endswith("is_%s_exclusive" % kind):
            neg = txt.startswith("not ")
            return in_body != neg
    return None


def r1_table(rep, ctx):
    m = ctx.model
    fn = m.method("Quantity", "CheckValue")
    res = Resolver(m, fn)
    calls = [c for c in own_nodes(fn.node) if isinstance(c, ast.Call) and isinstance(c.func, ast.Attribute) and c.func.attr == "_RaiseValueError"]
    seen = {}
    cfg = CFG(fn.node)
    for c in calls:
        key = "CheckValue:%s" % norm(ast.unparse(c))[:70]
        raw = cfg.facts_at(cfg.node_of(c))
        if not raw:
            rep.bad("C12.R1", key, "the rejection is unconditional", node=c, fn=fn)
            continue
        # the comparison with a limit that holds (or fails) on every path to the rejection (by terms:
        # `value > limit`, operator.gt(value, limit) and TABLE['>'](value, limit) are the same comparison)
        cmp_fact = None
        for e, val in raw:
            te = res.term(e)
            if te[0] == "op" and te[1] in TOPS and len(te[2]) == 2 and _limit_kind(te[2][1]):
                cmp_fact = (e, te, val)
        if cmp_fact is None:
            rep.bad("C12.R1", key, "the rejection is not dominated by a comparison of the value with a limit", node=c, fn=fn)
            continue
        cmp_, cmp_t, val = cmp_fact
        if val:
            rep.bad("C12.R1", key, "the rejection is reached when `%s` is true: this is not the NaN-rejecting form `not (value OP limit)` - a NaN value would be accepted" % ast.unparse(cmp_), node=c, fn=fn)
            continue
        op = TOPS[cmp_t[1]]
        val_t, lim_t = cmp_t[2]
        kind = _limit_kind(lim_t)
        excl = None
        guarded = False
        for e, v in raw:
            te = res.term(e)
            txt = show(te, 200)
            if kind and txt.endswith("is_%s_exclusive" % kind):
                excl = v
            if isinstance(e, ast.Compare) and len(e.ops) == 1 and isinstance(e.comparators[0], ast.Constant) and e.comparators[0].value is None and _limit_kind(res.term(e.left)) == kind:
                if (isinstance(e.ops[0], ast.IsNot) and v) or (isinstance(e.ops[0], ast.Is) and not v):
                    guarded = True
        rep_op_t = res.term(c.args[1]) if len(c.args) > 1 else None
        rep_op = rep_op_t[1] if rep_op_t and rep_op_t[0] == "const" else None
        rep_lim = res.term(c.args[2]) if len(c.args) > 2 else None
        rep_val = res.term(c.args[0]) if c.args else None
        why = []
        if excl is None:
            why.append("the test is not inside an arm of is_%s_exclusive" % kind)
        else:
            want = TABLE[(kind, excl)]
            if op != want:
                why.append("the %s %s limit is tested with %r, expected %r" % ("exclusive" if excl else "inclusive", kind, op, want))
            seen[(kind, excl)] = seen.get((kind, excl), 0) + 1
        if rep_op != op:
            why.append("reports operator %r while testing %r" % (rep_op, op))
        if rep_lim != lim_t:
            why.append("reports limit %s while testing %s" % (show(rep_lim) if rep_lim else None, show(lim_t)))
        if rep_val != val_t:
            why.append("reports another value than the one tested")
        if not guarded:
            why.append("the test is not guarded by '%s_value is not None'" % kind)
        rep.check(not why, "C12.R1", key, "%s limit, %s: `not value %s limit` reports %r and the same limit" % (kind, "exclusive" if excl else "inclusive", op, rep_op), "CheckValue: " + "; ".join(why), node=c, fn=fn)
    missing = [k for k in TABLE if seen.get(k, 0) != 1]
    rep.check(not missing, "C12.R1", "CheckValue:all-four-cases", "each of the four (limit, exclusivity) cases is handled exactly once", "CheckValue does not handle exactly once: %s" % missing, fn=fn)
    # AddCategory's assertions on the default value
    ac = m.method("UnitDatabase", "AddCategory")
    ares = Resolver(m, ac)
    seen2 = {}
    acfg = CFG(ac.node)

    def excl_of(facts_, kind):
        """what the dominating facts say about is_<kind>_exclusive (True / False), else None"""
        for e_, v_ in facts_:
            te_ = ares.term(e_)
            if any(x[0] == "param" and x[2] == "is_%s_exclusive" % kind for x in alternatives(te_)) and all((x[0] == "param" and x[2] == "is_%s_exclusive" % kind) or (x[0] == "attr" and x[2] == "is_%s_exclusive" % kind) for x in alternatives(te_)):
                return bool(v_)
        return None

    def is_flag(te_, kind):
        al = alternatives(te_)
        return any(x[0] == "param" and x[2] == "is_%s_exclusive" % kind for x in al) and all((x[0] == "param" and x[2] == "is_%s_exclusive" % kind) or (x[0] == "attr" and x[2] == "is_%s_exclusive" % kind) for x in al)

    def test_key(nid):
        """tests that evaluate the same term have the same outcome along one path (`if A and E: ... elif A: ...`)"""
        t_ = ares.term(acfg.ast[nid])
        if t_[0] == "op" and t_[1] in ("cmp:IsNot", "cmp:NotEq", "cmp:NotIn"):
            return (("t", ("op", {"cmp:IsNot": "cmp:Is", "cmp:NotEq": "cmp:Eq", "cmp:NotIn": "cmp:In"}[t_[1]], t_[2])), True)
        return (("t", t_), False)

    _states = {}

    def excl_by_paths(node, kind):
        """the value of is_<kind>_exclusive on every consistent path to the node, else None"""
        if not _states:
            _states.update(acfg.consistent_states(test_key))
        vals = set()
        for asg in _states.get(node, ()):
            got = [v_ for (k_, v_) in asg if k_[0] == "t" and is_flag(k_[1], kind)]
            vals.add(got[0] if got else None)
        return vals.pop() if len(vals) == 1 and None not in vals else None

    for a in own_nodes(ac.node):
        if not isinstance(a, ast.Assert):
            continue
        # (by terms: `default_value > min_value`, operator.gt(default_value, min_value), an entry of a constant table of
        # comparisons applied to them, and a comparison function chosen into a local in the arms of the exclusivity
        # flag - judged with the facts of the site where it was chosen - are the same assertion)
        here = acfg.facts_at(acfg.node_of(a))
        tt = ares.term(a.test)
        cases = []
        if tt[0] == "op" and tt[1] in TOPS and len(tt[2]) == 2:
            cases.append((tt[1], tt[2], here))
        elif isinstance(a.test, ast.Call) and isinstance(a.test.func, ast.Name) and len(a.test.args) == 2 and not a.test.keywords:
            args_ = tuple(ares.term(x) for x in a.test.args)
            for st_, t_ in ares.origins(a.test.func):
                if t_[0] in ("opfn", "opfn-swapped") and t_[1] in TOPS and st_ is not None:
                    cases.append((t_[1], args_ if t_[0] == "opfn" else args_[::-1], here + acfg.facts_at(acfg.node_of(st_))))
                else:
                    cases = []
                    break
        for opk, (l, r_), facts_ in cases:
            if not any(x[0] == "param" and x[2] == "default_value" for x in alternatives(l)) and not any(s[0] == "attr" and s[2] == "default_value" for s in walk(l)):
                continue
            op = TOPS[opk]
            kind = _limit_kind(r_)
            excl = excl_of(facts_, kind) if kind else None
            if kind and excl is None:
                excl = excl_by_paths(acfg.node_of(a), kind)
            key = "AddCategory:%s" % norm(ast.unparse(a.test)) + ("" if len(cases) == 1 else ":" + op)
            if kind is None or excl is None:
                rep.bad("C12.R1", key, "assertion on the default value is not inside an arm of an exclusivity flag / does not compare with a limit", node=a, fn=ac)
                continue
            seen2[(kind, excl)] = seen2.get((kind, excl), 0) + 1
            rep.check(op == TABLE[(kind, excl)], "C12.R1", key, "default value vs %s %s limit asserted with %r" % ("exclusive" if excl else "inclusive", kind, op),
                      "AddCategory asserts the default value against the %s %s limit with %r, expected %r" % ("exclusive" if excl else "inclusive", kind, op, TABLE[(kind, excl)]), node=a, fn=ac)
    missing = [k for k in TABLE if seen2.get(k, 0) != 1]
    rep.check(not missing, "C12.R1", "AddCategory:all-four-cases", "each of the four cases is asserted exactly once", "AddCategory does not assert exactly once: %s" % missing, fn=ac)


def r2_convert_first(rep, ctx):
    m = ctx.model
    fn = m.method("Quantity", "CheckValue")
    res = Resolver(m, fn)
    val_i = fn.params.index("value")
    n = 0
    for c in own_nodes(fn.node):
        if not isinstance(c, (ast.Compare, ast.Call)):
            continue
        ct = res.term(c)
        if ct[0] == "op" and ct[1] in TOPS and len(ct[2]) == 2 and _limit_kind(ct[2][1]):
            n += 1
            t = ct[2][0]
            alts = alternatives(t)
            conv = [a for a in alts if a[0] == "call" and a[1] in (("field", "ConvertScalarValue"), ("field", "Convert"))]
            raw = [a for a in alts if a == ("param", val_i, "value")]
            other = [a for a in alts if a not in conv and a not in raw]
            ok = bool(conv) and not other
            roles = all(len(a[2]) == 2 and a[2][0] == ("param", val_i, "value") and all(x[0] == "attr" and x[2] == "default_unit" for x in alternatives(a[2][1])) for a in conv)
            rep.check(ok and roles, "C12.R2", "CheckValue:%s" % norm(ast.unparse(c)), "the compared value is the argument converted to the category's default unit (or the argument itself when the unit already is the default)",
                      "CheckValue compares %s: %s" % (show(t, 100), "the limit is compared with the unconverted value" if not conv else "the conversion does not go from the own unit to the default unit"), node=c, fn=fn)
    rep.floor("C12.R2", "limit comparisons", n, 2)
    # the guard of the conversion: own unit vs default unit of the same CategoryInfo the limits come from
    conv_st = [st for st in own_statements(fn.node) if isinstance(st, ast.Assign) and isinstance(st.value, ast.Call) and isinstance(st.value.func, ast.Attribute) and st.value.func.attr in ("ConvertScalarValue", "Convert")]
    if len(conv_st) != 1:
        raise AnalysisError("CheckValue: expected exactly one conversion assignment, found %d" % len(conv_st))
    st = conv_st[0]
    ifs = _enclosing_ifs(st, fn.node)
    g = None
    for node, in_body in ifs:
        t = node.test
        if isinstance(t, ast.Compare) and len(t.ops) == 1 and isinstance(t.ops[0], (ast.NotEq, ast.Eq)):
            l, r = res.term(t.left), res.term(t.comparators[0])
            sides = {show(l), show(r)}
            if any("default_unit" in s for s in sides) and any(s in ("self._unit", "self.unit", "self.GetUnit()") for s in sides):
                g = (isinstance(t.ops[0], ast.NotEq)) == in_body
    rep.check(bool(g), "C12.R2", "CheckValue:conversion-guard", "the conversion runs exactly when the own unit differs from the category's default unit",
              "the conversion to the default unit is not guarded by 'own unit != default unit' (values in the default unit would be converted, or others skipped)", node=st, fn=fn)
    # same CategoryInfo for limits and default unit
    ci = {show(s[1]) for c in own_nodes(fn.node) if isinstance(c, ast.Attribute) and c.attr in ("min_value", "max_value", "default_unit", "is_min_exclusive", "is_max_exclusive") for s in [res.term(c)] if s[0] == "attr"}
    rep.check(ci == {"self._category_info"}, "C12.R2", "CheckValue:one-category-info", "limits, flags and default unit are read from the quantity's own CategoryInfo", "limits / default unit are read from %s" % sorted(ci), fn=fn)


def r3_scan(rep, ctx):
    m = ctx.model
    fn = m.method("Array", "_DoValidateValues")
    loops = [n for n in own_statements(fn.node) if isinstance(n, ast.For)]
    sres = Resolver(m, fn)

    def is_checkvalue(c):
        """a call of <quantity>.CheckValue, directly or through a local alias of the bound method"""
        if not isinstance(c, ast.Call):
            return False
        t = sres.term(c.func)
        return any(a_[0] == "attr" and a_[2] == "CheckValue" for a_ in alternatives(t))

    # --- flat branch: loops over the iterator
    def isnan_test(t, var):
        if not (isinstance(t, ast.Call) and len(t.args) == 1 and isinstance(t.args[0], ast.Name) and t.args[0].id == var):
            return False
        ft = sres.term(t.func)
        return any(x[0] == "attr" and x[2] == "isnan" or x == ("name", "isnan") for x in alternatives(ft)) or "isnan" in ast.unparse(t.func).lower()

    # the scan loops of the flat branch: loops over the values (or an iterator over them) whose element is NaN-tested
    vparam = ("param", fn.params.index("values"), "values") if "values" in fn.params else None

    def over_values(lp):
        t = sres.term(lp.iter)
        return any(a_ == vparam or (a_[0] == "call" and a_[1] == ("name", "iter") and a_[2] == (vparam,)) for a_ in alternatives(t))

    it_loops = [lp for lp in loops if isinstance(lp.target, ast.Name) and over_values(lp)
                and any(isnan_test(x, lp.target.id) for x in ast.walk(fn.node) if isinstance(x, ast.Call))
                and not any(isinstance(x, ast.Call) and isinstance(x.func, ast.Name) and x.func.id == "isinstance" and x.args and isinstance(x.args[0], ast.Name) and x.args[0].id == lp.target.id for x in ast.walk(lp))]
    if len(it_loops) < 1:
        raise AnalysisError("Array._DoValidateValues: scan loops over the values with a NaN test not found (scan idiom changed)")
    from ..facts import facts as nfacts
    scfg = CFG(fn.node)
    total_reads = 0
    for i, lp in enumerate(it_loops):
        var = lp.target.id if isinstance(lp.target, ast.Name) else None
        # every read of this loop's element (inside the loop or after it, as long as it is this loop's binding that
        # reaches the read) other than the NaN test itself happens where `isnan(element)` is known false
        ok = var is not None

        def binding(node_, var=var):
            """the definitions of the loop variable that reach a use (a fact about `var` counts only if it was
            established for the same binding of the variable: the element of the same iteration)"""
            try:
                at_ = sres._at(node_)
                return frozenset(idx for (nm, idx) in sres.IN[at_] if nm == var)
            except Exception:
                return None

        mine = frozenset(idx for idx in range(len(sres.defs.get(var, []))) if sres.def_stmt.get((var, idx)) is lp) if var else frozenset()
        n_reads = 0
        for x in own_nodes(fn.node):
            if not (isinstance(x, ast.Name) and x.id == var and isinstance(x.ctx, ast.Load)):
                continue
            par = getattr(x, "_parent", None)
            if isnan_test(par, var):
                continue
            bx = binding(x)
            inside = any(x is y for y in ast.walk(lp))
            if not (bx == mine and mine) and not (inside and bx is None):
                if inside and bx is not None and (bx & mine):
                    ok = False  # a read that this loop's element and another binding can both reach: not decidable here
                continue
            n_reads += 1
            try:
                nid = scfg.node_of(x)
            except AnalysisError:
                ok = False
                continue
            if not any(k == "truth" and not pos and isnan_test(l_, var) and binding(l_.args[0]) == bx for k, l_, r_, pos in nfacts(scfg, nid)):
                ok = False
        total_reads += n_reads
        rep.check(ok, "C12.R3", "scan:loop%d:nan-first" % i, "the loop skips NaN elements before anything else looks at them",
                  "a scan loop uses the element before (or without) the NaN test: a NaN element enters the min/max accumulators and fails or hides a limit violation", node=lp, fn=fn)
    rep.floor("C12.R3", "reads of scanned elements", total_reads, 2)
    inner = it_loops[-1]
    var = inner.target.id
    mins, maxs = [], []
    for st in own_statements(inner):
        if isinstance(st, ast.Assign) and isinstance(st.value, ast.Name) and st.value.id == var and isinstance(st.targets[0], ast.Name):
            acc = st.targets[0].id
            par = st._parent
            if isinstance(par, ast.If) and isinstance(par.test, ast.Compare) and len(par.test.ops) == 1:
                l, op, r = par.test.left, par.test.ops[0], par.test.comparators[0]
                names = (ast.unparse(l), ast.unparse(r))
                if names == (var, acc):
                    (mins if isinstance(op, ast.Lt) else maxs if isinstance(op, ast.Gt) else []).append(acc)
                elif names == (acc, var):
                    (mins if isinstance(op, ast.Gt) else maxs if isinstance(op, ast.Lt) else []).append(acc)
    rep.check(len(set(mins)) == 1 and len(set(maxs)) == 1 and set(mins) != set(maxs), "C12.R3", "scan:accumulators",
              "one min-like accumulator (updated under value < acc) and one max-like (under value > acc)",
              "the scan keeps min-like %s and max-like %s accumulators: the smallest or the largest element is not found" % (sorted(set(mins)), sorted(set(maxs))), node=inner, fn=fn)
    # both initialised from an element and both reach CheckValue after the inner loop
    outer = it_loops[0]
    elem_names = {lp.target.id for lp in it_loops if isinstance(lp.target, ast.Name)}
    H = scfg.node_of(inner)
    init_ok = False
    for st in own_statements(fn.node):
        # `min = max = <element>` on the way to the scan loop (the element is known not to be NaN there: first part)
        if isinstance(st, ast.Assign) and len(st.targets) == 2 and isinstance(st.value, ast.Name) and st.value.id in elem_names:
            if {t.id for t in st.targets if isinstance(t, ast.Name)} == set(mins) | set(maxs):
                n_st = scfg.node_of(st)
                if inner is outer or scfg.dominated_by_node(H, lambda k, a, st=st: a is st):
                    init_ok = True
    rep.check(init_ok, "C12.R3", "scan:initialised-from-element", "both accumulators start from the first non-NaN element", "the accumulators are not both initialised from the first non-NaN element", node=outer, fn=fn)
    want = set(mins) | set(maxs)
    checked = set()
    # which accumulators a value is a copy of: plain copies, float(...), and pairs packed and unpacked by position
    # (`r = (float(lo), float(hi))` ... `lo2, hi2 = r` ... `CheckValue(lo2)`)
    assigns = [st for st in own_statements(fn.node) if isinstance(st, ast.Assign) and len(st.targets) == 1]
    pair_loops = {lp_.target.id: lp_.iter for lp_ in own_statements(fn.node) if isinstance(lp_, ast.For) and isinstance(lp_.target, ast.Name) and isinstance(lp_.iter, ast.Name) and lp_ not in it_loops}

    def srcs(e, depth=0, pos=None):
        if depth > 6:
            return set()
        if isinstance(e, ast.Name):
            if pos is None and e.id in want:
                return {e.id}
            out_ = set()
            for st in assigns:
                t_ = st.targets[0]
                if isinstance(t_, ast.Name) and t_.id == e.id and not (isinstance(st.value, ast.Name) and st.value.id == e.id):
                    out_ |= srcs(st.value, depth + 1, pos)
                elif pos is None and isinstance(t_, ast.Tuple):
                    for i_, x_ in enumerate(t_.elts):
                        if isinstance(x_, ast.Name) and x_.id == e.id:
                            out_ |= srcs(st.value, depth + 1, i_)
            if pos is None and e.id in pair_loops:
                # the variable of a loop over the pair: each of its members in turn
                out_ |= srcs(pair_loops[e.id], depth + 1, 0) | srcs(pair_loops[e.id], depth + 1, 1)
            return out_
        if isinstance(e, ast.Call) and isinstance(e.func, ast.Name) and e.func.id == "float" and len(e.args) == 1 and pos is None:
            return srcs(e.args[0], depth + 1)
        if isinstance(e, ast.Tuple) and pos is not None and pos < len(e.elts):
            return srcs(e.elts[pos], depth + 1)
        if isinstance(e, ast.IfExp):
            return srcs(e.body, depth + 1, pos) | srcs(e.orelse, depth + 1, pos)
        return set()

    # a result that is None when nothing was found: on the paths from the scan loop it is the pair, so the edge on which
    # it is None is not taken (every path from the scan to that test builds the pair first)
    infeasible = set()
    for nid in scfg.nodes("test"):
        e_ = scfg.ast[nid]
        if isinstance(e_, ast.Compare) and len(e_.ops) == 1 and isinstance(e_.ops[0], (ast.Is, ast.IsNot)) and isinstance(e_.left, ast.Name) and isinstance(e_.comparators[0], ast.Constant) and e_.comparators[0].value is None:
            if all(srcs(e_.left, 0, i_) for i_ in (0, 1)) and (srcs(e_.left, 0, 0) | srcs(e_.left, 0, 1)) >= want:
                pack = {scfg.node_of(st) for st in assigns if isinstance(st.value, ast.Tuple) and len(st.value.elts) == 2 and any(srcs(x_) for x_ in st.value.elts)}
                if pack and nid not in scfg.reach(H, avoid=pack):
                    none_lab = "T" if isinstance(e_.ops[0], ast.Is) else "F"
                    infeasible |= {(nid, b_, l_) for (b_, l_) in scfg.succ[nid] if l_ == none_lab}
    for acc in sorted(want):
        # every path from the scan loop to a normal exit hands the accumulator to CheckValue
        nodes = {scfg.node_of(st) for st in own_statements(fn.node) if isinstance(st, ast.Expr) and is_checkvalue(st.value) and st.value.args
                 and (srcs(st.value.args[0]) == {acc} or (isinstance(st.value.args[0], ast.Name) and st.value.args[0].id in pair_loops and acc in srcs(st.value.args[0])))}
        # a loop over the pair that hands its variable to CheckValue in every iteration checks each member (a pair is not empty)
        for lp_ in own_statements(fn.node):
            if isinstance(lp_, ast.For) and isinstance(lp_.target, ast.Name) and lp_.target.id in pair_loops and acc in srcs(lp_.target) \
                    and any(isinstance(b_, ast.Expr) and is_checkvalue(b_.value) and b_.value.args and isinstance(b_.value.args[0], ast.Name) and b_.value.args[0].id == lp_.target.id for b_ in lp_.body):
                nodes.add(scfg.node_of(lp_))
        if nodes and scfg.EXIT not in scfg.reach(H, avoid=nodes, avoid_edges=infeasible):
            checked.add(acc)
    rep.check(bool(want) and want <= checked, "C12.R3", "scan:both-extremes-checked", "the smallest and the largest element are both handed to CheckValue",
              "only %s of the extremes %s reach CheckValue: a violation of the other limit goes unnoticed" % (sorted(checked), sorted(want)), node=outer, fn=fn)
    # float() normalisation must not swap them
    for st in own_statements(fn.node):
        if isinstance(st, ast.Assign) and isinstance(st.targets[0], ast.Name) and st.targets[0].id in want and isinstance(st.value, ast.Call) and st.value.args:
            src = st.value.args[0]
            rep.check(isinstance(src, ast.Name) and src.id == st.targets[0].id, "C12.R3", "scan:normalise:%s" % st.targets[0].id, "normalising %s keeps it" % st.targets[0].id,
                      "%s is overwritten from %s" % (st.targets[0].id, ast.unparse(src)), node=st, fn=fn)
    # --- tuple-of-tuples branch: every element of every tuple
    tup = [lp for lp in loops if isinstance(lp.iter, ast.Name) and lp.iter.id == "values"]
    ok = False
    for lp in tup:
        for in_lp in [x for x in own_statements(lp) if isinstance(x, ast.For)]:
            if isinstance(in_lp.iter, ast.Name) and isinstance(lp.target, ast.Name) and in_lp.iter.id == lp.target.id:
                calls = [c for c in own_nodes(in_lp) if is_checkvalue(c) and c.args and isinstance(c.args[0], ast.Name) and c.args[0].id == in_lp.target.id]
                ok = ok or bool(calls)
    rep.check(ok, "C12.R3", "tuples:every-element", "in the tuple-of-tuples branch every component of every tuple reaches CheckValue", "the tuple-of-tuples branch does not hand every component to CheckValue", fn=fn)
    # every amount handed to CheckValue is an element (tuple branch) or a scan accumulator: an aggregate of the whole
    # container (values.min(), max(values), numpy.amin(values)) does not skip NaN elements - numpy's min of an array
    # holding a NaN is NaN, which satisfies no limit; the builtin's result depends on where the NaN stands
    tuple_elems = {in_lp.target.id for lp in tup for in_lp in own_statements(lp) if isinstance(in_lp, ast.For) and isinstance(in_lp.target, ast.Name)}

    def whole_container(e, depth=0):
        """sub-expression that calls a min/max-like aggregate on the `values` parameter itself, if any"""
        if depth > 4:
            return None
        for x in ast.walk(e):
            if isinstance(x, ast.Call):
                fname = x.func.attr if isinstance(x.func, ast.Attribute) else x.func.id if isinstance(x.func, ast.Name) else ""
                recv_is_values = isinstance(x.func, ast.Attribute) and isinstance(x.func.value, ast.Name) and x.func.value.id == "values"
                arg_is_values = any(isinstance(a_, ast.Name) and a_.id == "values" for a_ in x.args)
                if (recv_is_values or arg_is_values) and fname:
                    return x, fname
            if isinstance(x, ast.Name) and isinstance(x.ctx, ast.Load) and x is not e:
                pass
        if isinstance(e, ast.Name):
            for st in assigns:
                if isinstance(st.targets[0], ast.Name) and st.targets[0].id == e.id and not (isinstance(st.value, ast.Name)):
                    got = whole_container(st.value, depth + 1)
                    if got:
                        return got
        return None

    nan_on_whole = any(isinstance(x, ast.Call) and "isnan" in ast.unparse(x.func).lower() and any(isinstance(a_, ast.Name) and a_.id == "values" for a_ in x.args) for x in own_nodes(fn.node))
    n_args = 0
    for c in own_nodes(fn.node):
        if not (is_checkvalue(c) and c.args):
            continue
        n_args += 1
        a0 = c.args[0]
        if isinstance(a0, ast.Name) and (a0.id in tuple_elems or a0.id in pair_loops):
            continue
        got = srcs(a0)
        if got and got <= want:
            continue
        agg = whole_container(a0)
        if agg is None:
            raise AnalysisError("Array._DoValidateValues: where the amount `%s` handed to CheckValue comes from was not recognised" % norm(ast.unparse(a0))[:60])
        call_, fname = agg
        if nan_on_whole or "nan" in fname.lower() or fname.lower() not in ("min", "max", "amin", "amax"):
            raise AnalysisError("Array._DoValidateValues: `%s` is computed from the whole container by `%s` (possibly NaN-aware): not judged" % (norm(ast.unparse(a0))[:60], fname))
        rep.bad("C12.R3", "scan:aggregate-of-container:%s" % fname,
                "`%s` hands CheckValue an aggregate of the whole container instead of the NaN-skipping scan's extremes: with a NaN element numpy's %s is NaN (no limit is satisfied), so an Array is rejected although every non-NaN amount satisfies the limits - and the verdict depends on the container kind" % (norm(ast.unparse(c))[:70], fname),
                node=c, fn=fn)
    rep.floor("C12.R3", "amounts handed to CheckValue in Array._DoValidateValues", n_args, 2)
    # CheckValue is the quantity's
    PQ = ("param", fn.params.index("quantity"), "quantity") if "quantity" in fn.params else None
    cvs = [c for c in own_nodes(fn.node) if is_checkvalue(c)]
    recvs = {a_[1] for c in cvs for a_ in alternatives(sres.term(c.func)) if a_[0] == "attr"}
    if not cvs or PQ is None:
        raise AnalysisError("Array._DoValidateValues: no CheckValue call / no quantity parameter found (validation idiom changed)")
    okb = recvs == {PQ}
    rep.check(okb, "C12.R3", "scan:checker-is-the-quantity", "elements are checked by the CheckValue of the quantity being validated", "CheckValue is taken from %s" % sorted(show(x, 60) for x in recvs), fn=fn)
    # --- scalar kinds
    for cname, want_arg in (("Scalar", ("field", "_value")), ("FractionScalar", ("call", ("name", "float"), (("field", "_value"),), ()))):
        cv = m.own_method(cname, "CheckValidity")
        if cv is None:
            raise AnalysisError("%s.CheckValidity not found" % cname)
        r = Resolver(m, cv)
        calls = [c for c in own_nodes(cv.node) if isinstance(c, ast.Call) and isinstance(c.func, ast.Attribute) and c.func.attr == "CheckValue"]
        ok = len(calls) == 1 and r.term(calls[0].func.value) == ("field", "_quantity") and len(calls[0].args) >= 1 and r.term(calls[0].args[0]) == want_arg
        rep.check(ok, "C12.R3", "%s.CheckValidity" % cname, "%s validates its whole stored amount through its own quantity" % cname,
                  "%s.CheckValidity checks %s" % (cname, show(r.term(calls[0].args[0])) if calls and calls[0].args else "nothing"), fn=cv)
    av = m.own_method("Array", "CheckValidity")
    r = Resolver(m, av)
    calls = [c for c in own_nodes(av.node) if isinstance(c, ast.Call) and isinstance(c.func, ast.Attribute) and c.func.attr == "ValidateValues"]
    ok = len(calls) == 1 and [r.term(a) for a in calls[0].args] == [("field", "_value"), ("field", "_quantity")]
    rep.check(ok, "C12.R3", "Array.CheckValidity", "Array validates its own stored values with its own quantity", "Array.CheckValidity validates something else than (self._value, self._quantity)", fn=av)


def r4_memo(rep, ctx):
    m = ctx.model
    n = 0
    for fn in m.funcs.values():
        if fn.path.endswith("posc.py"):
            continue
        for x in own_nodes(fn.node):
            if isinstance(x, ast.Attribute) and isinstance(x.ctx, ast.Store) and x.attr in ("_is_valid", "_validity_exception"):
                n += 1
                is_self = isinstance(x.value, ast.Name) and fn.params and x.value.id == fn.params[0]
                ok = is_self and fn.cls == "Array" and fn.name in ("_InternalCreateWithQuantity", "ValidateValues")
                rep.check(ok, "C12.R4", "%s:%s:%d" % (fn.qual.split(".", 2)[-1], x.attr, n), "validity memo written by %s" % fn.name,
                          "the validity memo is written by %s%s: a cached verdict can describe other values / another category than the object's" % (fn.qual.split(".", 2)[-1], "" if is_self else " on another object"), node=x, fn=fn)
    rep.floor("C12.R4", "stores of the validity memo", n, 2)
    vv = m.method("Array", "ValidateValues")
    cfg = CFG(vv.node)
    # _is_valid = True only after _DoValidateValues returned; False/exception only in its handler
    for st in own_statements(vv.node):
        if isinstance(st, ast.Assign) and isinstance(st.targets[0], ast.Attribute) and st.targets[0].attr == "_is_valid" and isinstance(st.value, ast.Constant):
            par = st._parent
            if st.value.value is True:
                # every path to the store passes the normal completion of the validation call
                calls_ = [c for c in own_nodes(vv.node) if isinstance(c, ast.Call) and isinstance(c.func, ast.Attribute) and c.func.attr == "_DoValidateValues"]
                avoid_e = set()
                for c in calls_:
                    cn = cfg.node_of(c)
                    avoid_e |= {(cn, b, l) for (b, l) in cfg.succ[cn] if l != "exc"}
                # handlers that do not re-raise would let a failed validation fall through to the store
                ok = bool(calls_) and cfg.node_of(st) not in cfg.reach(cfg.ENTRY, avoid_edges=avoid_e)
                rep.check(ok, "C12.R4", "ValidateValues:valid-only-after-success", "the positive verdict is stored only when the validation ran without raising", "the positive verdict is stored without a successful validation", node=st, fn=vv)
            else:
                ok = isinstance(par, ast.ExceptHandler)
                rep.check(ok, "C12.R4", "ValidateValues:invalid-only-on-failure", "the negative verdict is stored only in the failure handler", "the negative verdict is stored outside the failure handler", node=st, fn=vv)


def r5_exceptions(rep, ctx):
    m = ctx.model
    fn = m.method("Quantity", "_RaiseValueError")
    raised = set()
    for r in own_nodes(fn.node):
        if isinstance(r, ast.Raise) and r.exc is not None:
            raised.add(ast.unparse(r.exc.func if isinstance(r.exc, ast.Call) else r.exc))
    cfg = CFG(fn.node)
    always = cfg.EXIT not in cfg.reach(cfg.ENTRY)
    ok_sub = True
    for name in raised:
        if name == "ValueError":
            continue
        if name not in m.classes or "ValueError" not in m.mro(name) and "ValueError" not in [b for c in m.mro(name) for b in m.classes[c].bases]:
            ok_sub = False
    rep.check(bool(raised) and ok_sub and always, "C12.R5", "_RaiseValueError:raises-ValueError-subclass", "_RaiseValueError always raises %s, a ValueError" % sorted(raised),
              "_RaiseValueError %s" % ("can return without raising" if not always else "raises %s, which IsValid (except ValueError) does not catch" % sorted(raised)), fn=fn)
    iv = m.method("AbstractValueWithQuantityObject", "IsValid")
    handlers = [h for t in own_nodes(iv.node) if isinstance(t, ast.Try) for h in t.handlers]
    ok = any(h.type is not None and ast.unparse(h.type) in ("ValueError", "Exception") for h in handlers) and any(
        isinstance(r, ast.Return) and isinstance(r.value, ast.Constant) and r.value.value is False for h in handlers for r in ast.walk(h))
    rep.check(ok, "C12.R5", "IsValid:catches-ValueError", "IsValid turns the ValueError of CheckValidity into False", "IsValid does not catch ValueError and return False", fn=iv)
    calls = [c for c in own_nodes(iv.node) if isinstance(c, ast.Call) and isinstance(c.func, ast.Attribute) and c.func.attr == "CheckValidity"]
    rep.check(len(calls) == 1, "C12.R5", "IsValid:calls-CheckValidity", "IsValid decides through CheckValidity", "IsValid does not call CheckValidity exactly once", fn=iv)


def r6_registration(rep, ctx, RID="C12.R6"):
    m = ctx.model
    fn = m.method("UnitDatabase", "AddCategory")
    cfg = CFG(fn.node)
    res = Resolver(m, fn)
    ctor = [c for c in own_nodes(fn.node) if isinstance(c, ast.Call) and isinstance(c.func, ast.Name) and c.func.id == "CategoryInfo"]
    if len(ctor) != 1:
        raise AnalysisError("AddCategory: construction of CategoryInfo not found")
    C = cfg.node_of(ctor[0])
    VARS = ("default_value", "min_value", "max_value", "is_min_exclusive", "is_max_exclusive")
    kw = {k.arg: k.value for k in ctor[0].keywords}
    for v in VARS:
        rep.check(isinstance(kw.get(v), ast.Name) and kw[v].id == v, RID, "AddCategory:stores:%s" % v, "the CategoryInfo stores the local %s" % v, "CategoryInfo(%s=%s)" % (v, ast.unparse(kw[v]) if v in kw else None), node=ctor[0], fn=fn)
    defs = {v: [] for v in VARS}
    for st in own_statements(fn.node):
        if isinstance(st, (ast.Assign, ast.AugAssign, ast.AnnAssign)):
            targets = st.targets if isinstance(st, ast.Assign) else [st.target]
            for t in targets:
                for x in ast.walk(t):
                    if isinstance(x, ast.Name) and isinstance(x.ctx, ast.Store) and x.id in defs:
                        defs[x.id].append(st)
    asserts = []
    for a in own_nodes(fn.node):
        if isinstance(a, ast.Assert):
            tt_ = res.term(a.test)
            if tt_[0] == "op" and tt_[1] in TOPS and len(tt_[2]) == 2 and any(x[0] == "param" and x[2] == "default_value" for x in alternatives(tt_[2][0])):
                asserts.append(a)
    rep.floor(RID, "default-value assertions", len(asserts), 2)
    # (1) no re-definition of the asserted variables between an assertion and the construction
    stored_t = {k_: res.term(v_) for k_, v_ in kw.items() if k_ in VARS}
    for a in asserts:
        after = cfg.reach(cfg.node_of(a))
        redefs = [st for v in VARS for st in defs[v] if cfg.node_of(st) in after and C in cfg.reach(cfg.node_of(st))]
        if redefs:
            # a re-definition that only hands the asserted values on (the result variable of an extracted phase is
            # copied back into the argument's name): the asserted default is one of the values that are stored, and the
            # limit it was compared with is the limit that is stored
            at_ = res.term(a.test)
            lk = _limit_kind(at_[2][1])
            same_default = "default_value" in stored_t and all(x in alternatives(stored_t["default_value"]) for x in alternatives(at_[2][0]))
            same_limit = lk is not None and stored_t.get("%s_value" % lk) == at_[2][1]
            if same_default and same_limit:
                redefs = []
        rep.check(not redefs, RID, "AddCategory:final-values:%s" % norm(ast.unparse(a.test)), "the assertion sees the values that are stored (no later re-definition)",
                  "after `assert %s` the variable(s) %s are re-defined (line %s) before the category is built: the stored default/limits were never checked against each other"
                  % (ast.unparse(a.test), sorted({t.id for st in redefs for t in ast.walk(st) if isinstance(t, ast.Name) and isinstance(t.ctx, ast.Store) and t.id in VARS}), sorted(st.lineno for st in redefs)), node=a, fn=fn)
    # (2) every given or inherited default reaches the assertions
    validating = None
    for nid in cfg.nodes("test"):
        e = cfg.ast[nid]
        if isinstance(e, ast.Compare) and isinstance(e.left, ast.Name) and e.left.id == "default_value" and isinstance(e.comparators[0], ast.Constant) and e.comparators[0].value is None:
            is_none_lab = "T" if isinstance(e.ops[0], ast.Is) else "F"
            given_lab = "F" if is_none_lab == "T" else "T"
            reach_given = cfg.reach(nid, start_edges={given_lab})
            if all(cfg.node_of(a) in reach_given for a in asserts) and asserts:
                validating = (nid, given_lab)
    if validating is None:
        rep.bad(RID, "AddCategory:validating-branch", "no `default_value is None` test separates derived defaults from given ones with the assertions on the 'given' side", fn=fn)
        return
    T, given_lab = validating
    P_LIM = {("param", fn.params.index(k_), k_): k_[:3] for k_ in ("min_value", "max_value")}

    def derived(st):
        # a default derived from the limits themselves (or a constant), possibly through the result variable of an
        # extracted helper: every value it can hold is a constant or one of the two limit arguments
        v = st.value
        if isinstance(v, ast.Constant) or (isinstance(v, ast.Name) and v.id in ("min_value", "max_value")):
            return True
        if not isinstance(v, ast.Name):
            return False
        # follow plain copies back to the statements that chose the value
        seen_, todo_, leaves = set(), [v.id], []
        while todo_:
            nm = todo_.pop()
            if nm in seen_:
                continue
            seen_.add(nm)
            for st2 in own_statements(fn.node):
                if isinstance(st2, ast.Assign) and any(isinstance(t_, ast.Name) and t_.id == nm for t_ in st2.targets):
                    if isinstance(st2.value, ast.Name) and st2.value.id not in ("min_value", "max_value"):
                        todo_.append(st2.value.id)
                    else:
                        leaves.append(st2)
        return bool(leaves) and all(isinstance(l_.value, ast.Constant) or (isinstance(l_.value, ast.Name) and l_.value.id in ("min_value", "max_value")) for l_ in leaves)
    dv_nodes = {cfg.node_of(st): st for st in defs["default_value"]}
    unsafe = [("the default_value argument", cfg.ENTRY)] + [("`%s` (line %d)" % (norm(ast.unparse(st)), st.lineno), n) for n, st in dv_nodes.items() if not derived(st)]
    given_edges = {(T, b, l) for (b, l) in cfg.succ[T] if l == given_lab}
    for what, d in unsafe:
        others = set(dv_nodes) - {d}
        r = cfg.reach(d, avoid=others, avoid_edges=given_edges)
        rep.check(C not in r, RID, "AddCategory:validated:%s" % what[:60], "a default coming from %s reaches the category only through the limit assertions" % what,
                  "a default coming from %s can reach CategoryInfo(...) without passing the limit assertions: a category whose default violates its own limits is registered" % what, node=ctor[0], fn=fn,
                  facts={"entry": fn.qual, "offending_exit": "CategoryInfo(...) at line %d" % ctor[0].lineno})
    # (3) inside the validating branch each limit is asserted unless it is None
    for kind in ("min", "max"):
        a_nodes = {cfg.node_of(a) for a in asserts if _limit_kind(res.term(a.test)[2][1]) == kind}
        none_edges = set()
        for nid in cfg.nodes("test"):
            e = cfg.ast[nid]
            if isinstance(e, ast.Compare) and isinstance(e.left, ast.Name) and e.left.id == "%s_value" % kind and isinstance(e.comparators[0], ast.Constant) and e.comparators[0].value is None and nid in cfg.reach(T, start_edges={given_lab}):
                lab = "F" if isinstance(e.ops[0], ast.IsNot) else "T"
                none_edges |= {(nid, b, l) for (b, l) in cfg.succ[nid] if l == lab}
        r = cfg.reach(T, avoid=a_nodes, avoid_edges=none_edges, start_edges={given_lab})
        rep.check(bool(a_nodes) and C not in r, RID, "AddCategory:asserts-%s" % kind, "a given default is asserted against the %s limit unless there is none" % kind,
                  "a given default can reach CategoryInfo(...) without being asserted against an existing %s limit" % kind, fn=fn)
    # (4) derived defaults: exclusive limits must-raise, min before max
    for nid in cfg.nodes("test"):
        e = cfg.ast[nid]
        if ast.unparse(e) in ("is_min_exclusive", "is_max_exclusive") and nid in cfg.reach(T, start_edges={"T" if given_lab == "F" else "F"}):
            rep.check(cfg.must_raise_from([(nid, "T")]), RID, "AddCategory:exclusive-needs-default:%s" % ast.unparse(e), "an exclusive limit without a given default must-raise", "with %s and no default value a default equal to the limit is derived" % ast.unparse(e), fn=fn)
    limit_sites = []
    for st in defs["default_value"]:
        if isinstance(st.value, ast.Name) and st.value.id in ("min_value", "max_value"):
            limit_sites.append((st, st.value.id[:3]))
        elif isinstance(st.value, ast.Name):
            seen_, todo_ = set(), [st.value.id]
            while todo_:
                nm = todo_.pop()
                if nm in seen_:
                    continue
                seen_.add(nm)
                for st2 in own_statements(fn.node):
                    if isinstance(st2, ast.Assign) and any(isinstance(t_, ast.Name) and t_.id == nm for t_ in st2.targets) and isinstance(st2.value, ast.Name):
                        if st2.value.id in ("min_value", "max_value"):
                            limit_sites.append((st2, st2.value.id[:3]))
                        else:
                            todo_.append(st2.value.id)
    for st, kind in limit_sites:
        if True:
            dom = cfg.dominating_edges(cfg.node_of(st))
            ok = any(cfg.kind[nid] == "test" and ast.unparse(cfg.ast[nid]) == "is_%s_exclusive" % kind and lab == "F" for (nid, lab) in dom)
            rep.check(ok, RID, "AddCategory:derived-from-inclusive-%s" % kind, "a default is derived from the %s limit only when that limit is inclusive" % kind,
                      "`%s` is not dominated by 'not is_%s_exclusive': with an exclusive %s limit the derived default equals the limit and violates it" % (norm(ast.unparse(st)), kind, kind), node=st, fn=fn)
    # (5) default unit outside the quantity type must-raise before the store
    store = [st for st in own_statements(fn.node) if isinstance(st, ast.Assign) and isinstance(st.targets[0], ast.Subscript) and "categories_to_quantity_types" in ast.unparse(st.targets[0])]
    ok = False
    P_DU = ("param", fn.params.index("default_unit"), "default_unit")
    for nid in cfg.nodes("test"):
        e = cfg.ast[nid]
        if isinstance(e, ast.Compare) and len(e.ops) == 1 and isinstance(e.ops[0], (ast.NotIn, ast.In)):
            # <the given default unit (possibly its legacy rewrite)> not in <units of the quantity type>
            lt, rt = res.term(e.left), res.term(e.comparators[0])
            from_given = any(x == P_DU for a_ in alternatives(lt) for x in walk(a_))
            in_type_units = any(x[0] == "call" and x[1][0] in ("field", "attr") and (x[1][1] if x[1][0] == "field" else x[1][2]) == "GetUnits" for x in walk(rt))
            if from_given and in_type_units:
                lab = "T" if isinstance(e.ops[0], ast.NotIn) else "F"
                ok = ok or cfg.must_raise_from([(nid, lab)])
    rep.check(ok and bool(store), RID, "AddCategory:default-unit-in-type", "a given default unit that is not a unit of the quantity type must-raise before the category is stored", "a default unit outside the quantity type is accepted", fn=fn)
