"""C13  Operations never mutate their operands; copies and pickles are equal."""
import ast

from .. import prov
from ..cfg import CFG
from ..report import borrow, AnalysisError, norm
from ..srcmodel import own_nodes, own_statements
from ..terms import Resolver, alternatives, show, walk

PROP = "C13"
EXHAUSTIVE = True
EXPLANATION = (
    "Decided for all operation sequences from which code may write which state. R1 who-may-write: the state fields of "
    "the value classes (_value, _quantity, _unit_database, _dimension) are stored only by the constructors "
    "(__init__ / _InternalCreateWithQuantity), the validation memo only there and in ValidateValues; no store through a "
    "non-self receiver anywhere in the library. R2 ownership (provenance analysis over every mutation sink of the "
    "library, two container levels, call-site obligations through function summaries): no sink - subscript/attribute "
    "store, del, augmented assignment, container mutator, or one of the Fraction/FractionValue part-mutators - can reach "
    "the stored value container of a value object, the FractionValue of a FractionScalar, or the Fraction inside a "
    "FractionValue; results are built on fresh objects (list(...), copy.copy(...), new FractionValue). R3: copy hooks "
    "return the object itself (value objects are immutable, so the identical object is an equal copy); __reduce__ of "
    "Scalar and FixedArray return the class with arguments in the order of the quantity form of the constructor. "
    "R4: CreateCopy builds through CreateWithQuantity from the source's value and quantity."
)
TRUSTED = ["hand-written provenance summaries of stdlib/numpy callables (list, tuple, copy.copy, deepcopy, ...)"]
ASSUMPTIONS = ["callers do not mutate containers they handed to an Array (the Array keeps the caller's container by reference, by design)"]

VALUE_CLASSES = ("AbstractValueWithQuantityObject", "Scalar", "Array", "FixedArray", "FractionScalar")
FIELDS = {"_value", "_quantity", "_unit_database", "_dimension"}
MEMO = {"_is_valid", "_validity_exception"}
CTORS = {"__init__", "_InternalCreateWithQuantity"}
PROTECTED = {("FractionValue", "_fraction"), ("FractionValue", "_number"), ("Fraction", "x")} | {(c, "_value") for c in VALUE_CLASSES}


def run(rep, ctx):
    rep.run_rule("C13.R1", "state fields of value objects are stored only by constructors (validation memo: also ValidateValues)", r1_writers, ctx)
    rep.run_rule("C13.R2", "no mutation sink of the library reaches operand data (value containers, FractionValue parts)", r2_sinks, ctx)
    rep.run_rule("C13.R3", "copy hooks return the object itself; __reduce__ argument order matches the constructor's quantity form", r3_copies, ctx)
    rep.run_rule("C13.R5", "conversion functions never update their argument in place (an ndarray operand would be changed for the caller)", r5_no_inplace_in_conversions, ctx)
    rep.run_rule("C13.R4", "CreateCopy builds a new object through CreateWithQuantity from the source's own value and quantity", r4_createcopy, ctx)
    from . import c07
    rep.rule("C13.R6", "operations work on copies of the operands' composing maps (shared with C07.R3), interned quantities are returned as requested including the caption (C07.R5), and the pickle hooks hand every part of the state back (C07.R8)")
    try:
        borrow(rep, c07.r3_ownership, ctx, "C07.R3", "C13.R6")
        borrow(rep, c07.r5_interning, ctx, "C07.R5", "C13.R6", keep=lambda o: ":ret:" in o.key)
        borrow(rep, c07.r8_pickle, ctx, "C07.R8", "C13.R6")
    except AnalysisError as e:
        rep.error("C13.R6", str(e))
    rep.not_decided += [
        "equality of a pickle round-trip beyond the argument order of __reduce__ (Quantity's own round-trip is C07.R8)",
        "mutation by numpy ufuncs called with out= (none occur in the library)",
    ]


def r1_writers(rep, ctx):
    m = ctx.model
    fam = set()
    for c in VALUE_CLASSES:
        fam |= m.family(c)
    n = 0
    for fn in m.funcs.values():
        if fn.path.endswith("posc.py"):
            continue
        selfn = fn.params[0] if (fn.params and fn.is_method) else None
        for x in own_nodes(fn.node):
            if not (isinstance(x, ast.Attribute) and isinstance(x.ctx, (ast.Store, ast.Del)) and x.attr in FIELDS | MEMO):
                continue
            is_self = isinstance(x.value, ast.Name) and x.value.id == selfn
            if is_self and fn.cls not in fam:
                continue  # another class's own field of the same name (UnitSystem._read_only etc. do not collide; Quantity._unit_database)
            if not is_self:
                # which classes can the receiver be?  unknown receivers count (conservative) unless typed as a non-value class
                rc = ctx.prov.ti.expr_classes(x.value, fn)
                if rc and not (set(rc) & fam):
                    continue
            n += 1
            st = x
            while not isinstance(st, ast.stmt):
                st = st._parent
            key = "%s:%s:%s" % (fn.qual.split(".", 2)[-1], x.attr, norm(ast.unparse(st))[:60])
            if is_self and fn.name in CTORS:
                rep.ok("C13.R1", key, "%s is stored by the constructor %s" % (x.attr, fn.name), node=st, fn=fn)
            elif is_self and x.attr in MEMO and fn.name == "ValidateValues":
                rep.ok("C13.R1", key, "validation memo written by ValidateValues", node=st, fn=fn)
            elif is_self and x.attr == "_dimension" and fn.cls == "FixedArray" and fn.name in CTORS:
                rep.ok("C13.R1", key, "dimension stored by the constructor", node=st, fn=fn)
            else:
                rep.bad("C13.R1", key, "%s of a value object is stored by %s%s: an operation can change an existing object"
                        % (x.attr, fn.qual.split(".", 2)[-1], "" if is_self else " through a non-self receiver"), node=st, fn=fn)
    rep.floor("C13.R1", "stores to value-object state", n, 9)
    # any other attribute a method of a value class stores on self outside its constructors is new mutable state:
    # a flag or memo that lets a later call answer from what an earlier call saw (formatting settings excepted)
    SETTINGS = {"FORMATTED_SUFFIX_FORMAT", "FORMATTED_VALUE_FORMAT"}
    for fn in m.funcs.values():
        if fn.cls not in fam or not fn.is_method or not fn.params or fn.is_staticmethod or fn.name in CTORS:
            continue
        for x in own_nodes(fn.node):
            if isinstance(x, ast.Attribute) and isinstance(x.ctx, (ast.Store, ast.Del)) and isinstance(x.value, ast.Name) and x.value.id == fn.params[0] \
                    and x.attr not in FIELDS | MEMO | SETTINGS:
                st = x
                while not isinstance(st, ast.stmt):
                    st = st._parent
                rep.bad("C13.R1", "%s:%s:new-state" % (fn.qual.split(".", 2)[-1], x.attr), "%s stores the attribute %s on an existing value object: state that is not part of the value (a 'checked already' flag, a memo) makes later answers depend on earlier calls and is not reset when the held value changes"
                        % (fn.qual.split(".", 2)[-1], x.attr), node=st, fn=fn)


def _protected(atoms):
    out = []
    for x in atoms:
        if x[0] == "F" and (x[1], x[2]) in PROTECTED and x[3] <= 1:
            out.append(x)
    return out


def r2_sinks(rep, ctx):
    a, m = ctx.prov, ctx.model
    n = 0
    n_fresh = 0
    for fn, sk in a.sinks():
        if fn.path.endswith("posc.py"):
            continue
        n += 1
        prot = _protected(sk["atoms"])
        stmt = norm(ast.unparse(sk["node"]))[:70]
        key = "%s:%s:%s" % (fn.qual.split(".", 2)[-1], sk["kind"], stmt)
        if not prot:
            if prov.is_fresh(set(sk["atoms"])):
                n_fresh += 1
                # only the sinks inside value-class code are listed individually
                if fn.cls in VALUE_CLASSES + ("FractionValue", "Fraction") or "_value_generator" in fn.path:
                    rep.ok("C13.R2", key, "mutates a fresh object (%s)" % prov.fmt_atoms(set(sk["atoms"])), node=sk["node"], fn=fn)
            continue
        # a class's own constructor / part-mutator writing its own parts through self is the definition of the mutator, not a use of it
        if sk.get("target") in ("self",) or set(sk["atoms"]) <= {("SELF",)}:
            continue
        if sk["kind"] == "via":
            what = "passes %s to %s, which mutates that argument" % (prov.fmt_atoms(set(prot)), sk["callee"].split(".")[-1])
        else:
            what = "mutates %s, which may be %s" % (sk.get("target"), prov.fmt_atoms(set(prot)))
        rep.bad("C13.R2", key, "%s %s: the stored data of an operand changes (results must be built on a fresh copy)" % (fn.qual.split(".", 2)[-1], what), node=sk["node"], fn=fn,
                facts={"atoms": prov.fmt_atoms(set(sk["atoms"]))})
    rep.floor("C13.R2", "mutation sinks examined", n, 44)
    rep.floor("C13.R2", "sinks on fresh objects", n_fresh, 26)
    # the copies the current code relies on (named instances: dropping one is what R2 exists to catch)
    ci = m.method("FixedArray", "ChangingIndex")
    # (whatever the edited container is called: the local that receives the element store, judged by every value bound to it)
    edited = {st.targets[0].value.id for st in own_statements(ci.node) if isinstance(st, ast.Assign) and len(st.targets) == 1 and isinstance(st.targets[0], ast.Subscript) and isinstance(st.targets[0].value, ast.Name)}
    vs = []
    for st in own_statements(ci.node):
        if isinstance(st, ast.Assign) and len(st.targets) == 1 and isinstance(st.targets[0], ast.Name) and st.targets[0].id in edited:
            vs.append(a.value(ci, st.value))
    if not vs:
        raise AnalysisError("FixedArray.ChangingIndex: the container whose element is replaced was not found (no `<local>[index] = ...` on a local bound in the method)")
    atoms = set().union(*[set(v.lv[0]) for v in vs])
    rep.check(prov.is_fresh(atoms), "C13.R2", "ChangingIndex:values-is-a-copy", "ChangingIndex edits a fresh container (%s)" % prov.fmt_atoms(atoms),
              "ChangingIndex edits %s in place" % prov.fmt_atoms(atoms), fn=ci)


def r3_copies(rep, ctx):
    m = ctx.model
    n = 0
    for cname in VALUE_CLASSES:
        for meth in ("__copy__", "__deepcopy__", "Copy", "CreateCopyInstance"):
            fn = m.classes[cname].methods.get(meth) if cname in m.classes else None
            if fn is None:
                continue
            n += 1
            rets = [r for r in own_nodes(fn.node) if isinstance(r, ast.Return)]
            selfn = fn.params[0]
            def is_self(r):
                v = r.value
                if isinstance(v, ast.Name) and v.id == selfn:
                    return True
                return isinstance(v, ast.Call) and isinstance(v.func, ast.Attribute) and isinstance(v.func.value, ast.Name) and v.func.value.id == selfn and v.func.attr in ("Copy", "CreateCopyInstance") and not v.args
            ok = bool(rets) and all(is_self(r) for r in rets)
            rep.check(ok, "C13.R3", "%s.%s:returns-self" % (cname, meth), "%s returns the object itself" % meth, "%s.%s does not return the object itself on every path" % (cname, meth), fn=fn)
    rep.floor("C13.R3", "copy hooks", n, 2)
    # __reduce__
    for cname, want in (("Scalar", ["_quantity", "value", None]), ("FixedArray", ["_dimension", "_quantity", "values", None])):
        fn = m.own_method(cname, "__reduce__")
        if fn is None:
            raise AnalysisError("%s.__reduce__ not found" % cname)
        rets = [r for r in own_nodes(fn.node) if isinstance(r, ast.Return)]
        if len(rets) != 1 or not isinstance(rets[0].value, ast.Tuple) or len(rets[0].value.elts) != 2:
            rep.bad("C13.R3", "%s.__reduce__:shape" % cname, "%s.__reduce__ does not return (callable, args)" % cname, fn=fn)
            continue
        callee, args = rets[0].value.elts
        ok_cls = isinstance(callee, ast.Name) and callee.id == cname
        got = []
        if isinstance(args, ast.Tuple):
            for e in args.elts:
                if isinstance(e, ast.Attribute) and isinstance(e.value, ast.Name) and e.value.id == fn.params[0]:
                    got.append(e.attr)
                elif isinstance(e, ast.Constant) and e.value is None:
                    got.append(None)
                elif isinstance(e, ast.Call) and isinstance(e.func, ast.Attribute) and e.func.attr in ("GetValue", "GetValues", "GetAbstractValue", "GetQuantity", "GetDimension") and not e.args:
                    got.append({"GetValue": "value", "GetValues": "values", "GetAbstractValue": "value", "GetQuantity": "_quantity", "GetDimension": "_dimension"}[e.func.attr])
                else:
                    got.append("?" + ast.unparse(e))
        norm_ = lambda x: {"_value": "value", "values": "value", "dimension": "_dimension", "quantity": "_quantity"}.get(x, x)
        ok_args = [norm_(g) for g in got] == [norm_(w) for w in want]
        # the constructor's quantity form: (dimension,) category=Quantity, value(s), unit=None
        init = m.method(cname, "__init__")
        pos = [p for p in init.params[1:]]
        form_ok = (cname == "Scalar" and pos[:3] == ["category", "value", "unit"]) or (cname == "FixedArray" and pos[:4] == ["dimension", "category", "values", "unit"])
        rep.check(ok_cls and ok_args and form_ok, "C13.R3", "%s.__reduce__:args" % cname,
                  "%s.__reduce__ rebuilds through %s(%s) in the order of the constructor's quantity form" % (cname, cname, ", ".join(str(w) for w in want)),
                  "%s.__reduce__ returns %s(%s), which does not match the constructor parameters %s" % (cname, ast.unparse(callee), got, pos), node=rets[0], fn=fn)


def r4_createcopy(rep, ctx):
    m = ctx.model
    fn = m.method("AbstractValueWithQuantityObject", "CreateCopy")
    res = Resolver(m, fn)
    calls = [c for c in own_nodes(fn.node) if isinstance(c, ast.Call) and isinstance(c.func, ast.Attribute) and c.func.attr == "CreateWithQuantity"]
    rep.floor("C13.R4", "CreateWithQuantity calls in CreateCopy", len(calls), 1)
    for c in calls:
        val = next((k.value for k in c.keywords if k.arg == "value"), None)
        t = res.term(val) if val is not None else None
        ok_val = t is not None and all(a[0] == "param" or (a[0] == "call" and a[1] == ("field", "GetAbstractValue")) for a in alternatives(t))
        rets = isinstance(getattr(c, "_parent", None), ast.Return)
        rep.check(ok_val and rets, "C13.R4", "CreateCopy:%s" % norm(ast.unparse(c))[:70], "the copy is a new object built from the given value or the source's own value in the requested unit",
                  "CreateCopy builds the copy from %s" % (show(t) if t else None), node=c, fn=fn)
    # CreateWithQuantity itself builds a new object (never returns self / the class's shared instance)
    cw = m.method("AbstractValueWithQuantityObject", "CreateWithQuantity")
    a = ctx.prov
    ret = a.sum[cw.qual].ret
    rep.check(prov.is_fresh(set(ret.lv[0])), "C13.R4", "CreateWithQuantity:fresh", "CreateWithQuantity returns a freshly allocated object", "CreateWithQuantity may return %s" % prov.fmt_atoms(set(ret.lv[0])), fn=cw)


# ------------------------------------------------------------------------------------------------
CONVERSION_FUNCS = ("Convert", "ConvertNumpyArray", "ConvertScalarValue", "_ConvertWithExp", "ConvertFractionValue", "GetAbstractValue", "_MatchQuantities",
                    "_DoOperationWithSameQuantity", "_DoOperationResultingInNewQuantity")


def r5_no_inplace_in_conversions(rep, ctx):
    """`x *= b` on a parameter is an in-place update when x is an ndarray: the closures produced by the
    conversion factories, the conversion routes and the operation routines receive the operands' own arrays, so
    an augmented assignment to one of their parameters changes the caller's data."""
    m = ctx.model
    n = 0
    for q, fn in sorted(m.funcs.items()):
        in_factory = fn.parent is not None and fn.path.endswith("posc.py") and fn.parent.parent is None
        if not (in_factory or fn.name in CONVERSION_FUNCS):
            continue
        n += 1
        for x in own_nodes(fn.node):
            if isinstance(x, ast.AugAssign) and isinstance(x.target, ast.Name) and x.target.id in fn.params:
                rep.bad("C13.R5", "%s:in-place:%s" % (q.split(".", 2)[-1], x.target.id), "`%s` in %s updates its argument in place: with an ndarray the operand held by the caller (a stored Array value) is rescaled as a side effect of a conversion or an operation" % (norm(ast.unparse(x)), q.split(".", 2)[-1]), node=x, fn=fn)
    # the operators handed to the shared operation routines are not the in-place variants of the operator module
    for q, fn in sorted(m.funcs.items()):
        if fn.cls != "UnitDatabase" and fn.cls not in ("Scalar", "Array", "FixedArray", "FractionScalar"):
            continue
        for x in own_nodes(fn.node):
            if isinstance(x, ast.Attribute) and isinstance(x.value, ast.Name) and x.value.id in ("operator", "_operator") and x.attr.startswith("i") and x.attr[1:] in ("add", "sub", "mul", "truediv", "floordiv", "mod", "pow", "concat"):
                rep.bad("C13.R5", "%s:in-place-operator:%s" % (q.split(".", 2)[-1], x.attr), "%s uses operator.%s: on an ndarray operand it computes the result in place, overwriting the left operand's stored values" % (q.split(".", 2)[-1], x.attr), node=x, fn=fn)
    rep.ok("C13.R5", "conversion-functions:no-in-place", "%d conversion closures / routes examined: no augmented assignment to a parameter" % n)
    rep.floor("C13.R5", "conversion functions examined", n, 4)
