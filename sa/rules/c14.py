"""C14  The unit registry stays well-formed under any registration history."""
import ast

from .. import legacy, tablechecks
from ..cfg import CFG
from ..report import borrow, AnalysisError, norm
from ..srcmodel import own_nodes, own_statements
from ..terms import Resolver, alternatives, show, walk

PROP = "C14"
EXHAUSTIVE = True
EXPLANATION = (
    "History clauses decided from code shape (hold for every registration history): R1 the three registry maps and the "
    "per-type unit lists are written only by AddUnit, AddUnitBase, AddCategory and Clear (every mutation site of the "
    "library whose receiver resolves to a registry field is enumerated); R2 check-before-write: in each registration "
    "method no path leads from a registry write to a raise/assert (two reasoned exceptions); R3 the duplicate test on the "
    "unit map dominates the write; R4 AddUnitBase moves the just-appended info to the front with no raise in between, "
    "and AddUnit refuses nothing for a type without base (recorded finding). Shipped-table clauses (exhaustive over the "
    "registration log recovered by interpreting the fillers): R5 every quantity type's first-listed unit is an identity "
    "base row; R6 every AddCategory refers to an existing quantity type with valid/default units drawn from it, defaults "
    "inside limits, no duplicate without override; R7 every unit resolves to a registered category of its own quantity "
    "type, so a Scalar can be built from it; unit symbols are unique."
)
TRUSTED = ["the semantics of dict/list mutation methods named in the sink table"]
ASSUMPTIONS = ["the registry maps are not mutated from outside the library (attributes are public by convention only)"]

REGISTRY_FIELDS = ("quantity_types", "unit_to_unit_info", "categories_to_quantity_types")
WRITERS = {"AddUnit", "AddUnitBase", "AddCategory", "Clear", "__init__"}
MUTATORS = {"append", "extend", "insert", "pop", "remove", "clear", "update", "setdefault", "sort", "reverse",
            "popitem", "move_to_end", "add", "discard", "__setitem__", "__delitem__"}


def run(rep, ctx):
    rep.run_rule("C14.R1", "the registry maps and unit lists are mutated only by AddUnit / AddUnitBase / AddCategory / Clear", r1_writers, ctx)
    rep.run_rule("C14.R2", "registration methods check before they write: no path from a registry write to a raise/assert", r2_check_before_write, ctx)
    rep.run_rule("C14.R3", "the duplicate test on the unit map dominates the registration of a unit", r3_unique, ctx)
    rep.run_rule("C14.R4", "AddUnitBase moves the new info to the front; a unit cannot become first-listed without being a base", r4_base_first, ctx)
    rep.run_rule("C14.R5", "shipped tables: every quantity type's first-listed unit is an identity base row (exhaustive)", r5_table_base, ctx)
    rep.run_rule("C14.R6", "shipped tables: every category is consistent with its quantity type (exhaustive)", r6_categories, ctx)
    rep.run_rule("C14.R7", "shipped default table: every unit resolves to a category of its own quantity type; symbols unique (exhaustive)", r7_units, ctx)
    from . import c12
    rep.run_rule("C14.R9", "AddCategory: every path that registers a caller-given list of valid units passes the membership test of each unit in the quantity type's units", r9_valid_units, ctx)
    from . import c05
    rep.rule("C14.R10", "a registered unit is found under its own quantity type whatever categories are registered: GetInfo looks it up first under the quantity type as given (shared with C05.R2)")
    try:
        borrow(rep, c05.r2_getinfo, ctx, "C05.R2", "C14.R10", keep=lambda o: o.key == "GetInfo:first-lookup-as-given")
    except AnalysisError as e:
        rep.error("C14.R10", str(e))
    from . import c15
    rep.rule("C14.R12", "a unit or category can be used as soon as it is registered: registration clears the verdicts cached before it (shared with C15.R3)")
    try:
        borrow(rep, c15.r3_coherence, ctx, "C15.R3", "C14.R12", keep=lambda o: "_category_unit_valid" in o.key)
    except AnalysisError as e:
        rep.error("C14.R12", str(e))
    from . import c16, c20
    rep.rule("C14.R11", "a registered unit builds a Quantity under the spelling it was registered with: the constructor stores the unit as asked, and falls back to the rewritten legacy spelling only after the unit as given was refused (shared with C20.R3 / C16.R4)")
    try:
        borrow(rep, c20.r3_simple, ctx, "C20.R3", "C14.R11", keep=lambda o: "Quantity.__init__" in o.key)
        borrow(rep, c16.r4_sites, ctx, "C16.R4", "C14.R11", keep=lambda o: "Quantity.__init__" in o.key)
    except AnalysisError as e:
        rep.error("C14.R11", str(e))
    rep.run_rule("C14.R8", "registration code: every given or inherited default value is asserted against the final limits; derived defaults only from inclusive limits; default unit drawn from the quantity type", c12.r6_registration, ctx, "C14.R8")
    rep.not_decided += [
        "step-by-step agreement with a reference model for arbitrary argument values (only ordering, ownership and table facts are decided)",
        "AddCategory's default-value derivation for non-literal limits",
    ]


# ------------------------------------------------------------------------------------------------
def registry_mutations(m, fn, res=None):
    """Mutation sites in fn whose receiver resolves (through locals) to a registry field, at
    depth 0 (the map) or depth 1 (a per-type list / a value of the map).
    Returns [(stmt-level node, field, depth, kind)]."""
    res = res or Resolver(m, fn)
    out = []

    def classify(recv_expr):
        t = res.term(recv_expr)
        hits = []
        for alt in alternatives(t):
            d = 0
            x = alt
            # peel subscripts / .get / setdefault results / elem: one level deeper each
            while True:
                if x[0] == "sub":
                    x = x[1]
                    d += 1
                elif x[0] == "elem":
                    x = x[1]
                    d += 1
                elif x[0] == "call" and x[1][0] == "attr" and x[1][2] in ("get", "setdefault", "pop") :
                    x = x[1][1]
                    d += 1
                elif x[0] == "call" and x[1][0] == "attr" and x[1][2] in ("values", "items"):
                    x = x[1][1]
                else:
                    break
            if x[0] == "field" and x[1] in REGISTRY_FIELDS:
                hits.append((x[1], d))
            elif x[0] == "attr" and x[2] in REGISTRY_FIELDS:
                hits.append((x[2], d))
        return hits

    for n in own_nodes(fn.node):
        if isinstance(n, ast.Call) and isinstance(n.func, ast.Attribute) and n.func.attr in MUTATORS:
            for f, d in classify(n.func.value):
                out.append((n, f, d, "call." + n.func.attr))
        elif isinstance(n, (ast.Assign, ast.AugAssign, ast.AnnAssign)):
            targets = n.targets if isinstance(n, ast.Assign) else [n.target]
            for t in targets:
                for x in ([t] if not isinstance(t, (ast.Tuple, ast.List)) else t.elts):
                    if isinstance(x, ast.Subscript):
                        for f, d in classify(x.value):
                            out.append((n, f, d, "store[]"))
                    elif isinstance(x, ast.Attribute):
                        if x.attr in REGISTRY_FIELDS and not (isinstance(x.value, ast.Name) and fn.params and x.value.id == fn.params[0] and fn.name == "__init__"):
                            out.append((n, x.attr, 0, "rebind"))
        elif isinstance(n, ast.Delete):
            for x in n.targets:
                if isinstance(x, ast.Subscript):
                    for f, d in classify(x.value):
                        out.append((n, f, d, "del[]"))
    return out


def r1_writers(rep, ctx):
    m = ctx.model
    n_sites = 0
    for fn in m.funcs.values():
        if fn.path.endswith("posc.py") and fn.name.startswith("Fill"):
            continue
        for node, field, depth, kind in registry_mutations(m, fn):
            n_sites += 1
            key = "%s:%s:%s" % (fn.qual.split(".", 2)[-1], field, norm(ast.unparse(node))[:80])
            owner_ok = fn.cls == "UnitDatabase" and fn.name in WRITERS and fn.is_method
            rep.check(owner_ok, "C14.R1", key, "registry field %s is written by the registration method %s" % (field, fn.name),
                      "registry field %s (depth %d) is mutated by %s, which is not a registration method" % (field, depth, fn.qual), node=node, fn=fn)
    rep.floor("C14.R1", "registry mutation sites", n_sites, 4)


def _stmt_of(cfg, node):
    return cfg.node_of(node)


def r2_check_before_write(rep, ctx):
    m = ctx.model
    total = 0
    for name in ("AddUnit", "AddUnitBase", "AddCategory"):
        fn = m.method("UnitDatabase", name)
        res = Resolver(m, fn)
        cfg = CFG(fn.node)
        writes = []
        for node, field, depth, kind in registry_mutations(m, fn, res):
            writes.append((cfg.node_of(node), node, "registry field %s" % field))
        if name == "AddCategory":
            # in-place edits of a list that belongs to another category / to the caller
            for n in own_nodes(fn.node):
                if isinstance(n, ast.Assign) and isinstance(n.targets[0], ast.Subscript):
                    t = res.term(n.targets[0].value)
                    if any(s[0] == "attr" and s[2] == "valid_units" for s in walk(t)):
                        writes.append((cfg.node_of(n), n, "the valid_units list of the category copied from"))
        seen = set()
        for nid, node, what in writes:
            if nid in seen:
                continue
            seen.add(nid)
            total += 1
            after = cfg.reach(nid)
            raisers = sorted(x for x in after if cfg.kind[x] in ("raise", "assert"))
            key = "%s:%s" % (name, norm(ast.unparse(node))[:80])
            if not raisers:
                rep.ok("C14.R2", key, "no raise/assert is reachable after the write to %s" % what, node=node, fn=fn)
                continue
            # reasoned exceptions
            reason = _exception_reason(cfg, fn, res, nid, node, raisers)
            if reason:
                rep.ok("C14.R2", key, "write to %s is followed by a raise that %s" % (what, reason), node=node, fn=fn)
            else:
                lines = [getattr(cfg.ast[x], "lineno", "?") for x in raisers]
                rep.bad("C14.R2", key, "a rejected call can leave the registry changed: the write to %s can be followed by the raise/assert at line(s) %s" % (what, lines),
                        node=node, fn=fn, facts={"entry": fn.qual, "offending_exit_lines": lines})
    rep.floor("C14.R2", "write sites in registration methods", total, 3)


def _exception_reason(cfg, fn, res, nid, node, raisers):
    """Named, reasoned exceptions of check-before-write (DESIGN §5 C14/R2)."""
    if fn.name == "AddUnit":
        # every raise reachable after the write is guarded by `unit in [q.unit for q in <per-type list>]`,
        # which cannot hold when the dominating `unit in self.unit_to_unit_info` test was false
        # (per-type lists only hold units that are in the map: both are written together, R1).
        ok = True
        for r in raisers:
            facts = cfg.facts_at(r)
            guarded = False
            for expr, val in facts:
                # `unit in [q.unit for q in <per-type list>]`, `any(q.unit == unit for q in <per-type list>)`, ...
                if val and any(s[0] == "field" and s[1] == "quantity_types" for s in walk(res.term(expr))):
                    guarded = True
            if not guarded:
                ok = False
        from ..facts import absent_keys
        first_test = any(any(s == ("field", "unit_to_unit_info") for s in walk(mp)) for mp, _k in absent_keys(cfg, res, nid))
        if ok and first_test:
            return "is unreachable (the per-type list only holds units of the unit map, and the write is dominated by the map's duplicate test)"
    if fn.name == "AddCategory" and isinstance(node, ast.Assign) and isinstance(node.targets[0], ast.Subscript):
        t = res.term(node.targets[0].value)
        only_lists = all(a[0] == "param" or (a[0] == "attr" and a[2] == "valid_units") for a in alternatives(t))
        v = res.term(node.value)
        fixed = any(legacy.fixed_arg(a) is not None for a in alternatives(v))
        if only_lists and fixed:
            return ("only replaces a legacy spelling inside the caller's / the source category's valid_units list by its "
                    "rewritten form (registered lists are already rewritten, so the registry content does not change)")
    return None


def r3_unique(rep, ctx):
    m = ctx.model
    fn = m.method("UnitDatabase", "AddUnit")
    res = Resolver(m, fn)
    cfg = CFG(fn.node)
    n = 0
    for node, field, depth, kind in registry_mutations(m, fn, res):
        if field != "unit_to_unit_info" or depth != 0:
            continue
        n += 1
        nid = cfg.node_of(node)
        ok = False
        idx = None
        if isinstance(node, ast.Assign) and isinstance(node.targets[0], ast.Subscript):
            idx = res.term(node.targets[0].slice)
        from ..facts import absent_keys
        for mp, k in absent_keys(cfg, res, nid):
            if any(s == ("field", "unit_to_unit_info") for s in walk(mp)) and (idx is None or k == idx):
                ok = True
        rep.check(ok, "C14.R3", "AddUnit:" + norm(ast.unparse(node)), "the unit is stored only when it is not yet in the unit map (a symbol belongs to one quantity type)",
                  "the store into the unit map is not dominated by a 'not already registered' test on the same key: a second registration silently replaces the first", node=node, fn=fn)
    rep.floor("C14.R3", "stores into the unit map", n, 1)


def r4_base_first(rep, ctx):
    m = ctx.model
    fn = m.method("UnitDatabase", "AddUnitBase")
    res = Resolver(m, fn)
    cfg = CFG(fn.node)
    adds = [n for n in own_nodes(fn.node) if isinstance(n, ast.Call) and isinstance(n.func, ast.Attribute) and n.func.attr == "AddUnit"]
    if len(adds) != 1:
        raise AnalysisError("AddUnitBase: expected one call of AddUnit, found %d" % len(adds))
    inserts = []
    for n in own_nodes(fn.node):
        if isinstance(n, ast.Call) and isinstance(n.func, ast.Attribute) and n.func.attr == "insert" and len(n.args) == 2:
            recv = res.term(n.func.value)
            is_list = any(a[0] == "sub" and a[1] == ("field", "quantity_types") for a in alternatives(recv))
            if is_list and isinstance(n.args[0], ast.Constant) and n.args[0].value == 0:
                inserts.append((n, recv))
    key = "AddUnitBase:move-to-front"
    if not inserts:
        rep.bad("C14.R4", key, "AddUnitBase does not insert the new unit at index 0 of its quantity type's list: the base is not first-listed", fn=fn)
    else:
        n, recv = inserts[0]
        moved = res.term(n.args[1])
        last = any((a[0] == "sub" and a[2] in (("op", "USub", (("const", 1),)), ("const", -1))) or (a[0] == "call" and a[1][0] == "attr" and a[1][2] == "pop") for a in alternatives(moved))
        removed = any(isinstance(x, ast.Delete) for x in own_nodes(fn.node)) or any(a[0] == "call" and a[1][0] == "attr" and a[1][2] == "pop" for a in alternatives(moved))
        add_id = cfg.node_of(adds[0])
        ins_id = cfg.node_of(n)
        between = cfg.reach(add_id)
        raises_between = [x for x in between if cfg.kind[x] in ("raise", "assert")]
        post = cfg.postdominated_by(add_id, lambda k, a: a is cfg.ast[ins_id])
        ok = last and removed and not raises_between and post
        why = []
        if not last:
            why.append("the inserted element is not the just-appended (last) one")
        if not removed:
            why.append("the appended element is not removed from the end")
        if raises_between:
            why.append("a raise can happen between the append and the move")
        if not post:
            why.append("the move does not happen on every path after AddUnit")
        rep.check(ok, "C14.R4", key, "after AddUnit appended the info, it is removed from the end and inserted at index 0 on every path, with no raise in between", "; ".join(why), node=n, fn=fn)
    # AddUnit itself: can a non-base unit become the first-listed unit of a type?
    add = m.method("UnitDatabase", "AddUnit")
    ares = Resolver(m, add)
    acfg = CFG(add.node)
    appends = [n for n in own_nodes(add.node) if isinstance(n, ast.Call) and isinstance(n.func, ast.Attribute) and n.func.attr == "append"
               and any(s == ("field", "quantity_types") for s in walk(ares.term(n.func.value)))]
    if not appends:
        raise AnalysisError("AddUnit: append to the per-type list not found")
    for ap in appends:
        nid = acfg.node_of(ap)
        guarded = False
        for e, val in acfg.facts_at(nid):
            # any dominating test about the list being non-empty / the type being known
            t = ares.term(e)
            if any(s == ("field", "quantity_types") for s in walk(t)) and not (isinstance(e, ast.Compare) and any(isinstance(c, ast.ListComp) for c in e.comparators)):
                guarded = True
        rep.check(guarded, "C14.R4", "AddUnit:no-base-guard",
                  "AddUnit appends to a quantity type's list only when the type already has a base",
                  "AddUnit (public) appends a converting unit to a quantity type that has no base yet without any test: the first-listed unit of that type is then not an identity",
                  node=ap, fn=add)


def r5_table_base(rep, ctx):
    for cfgname in ("posc", "simple"):
        tablechecks.check_base_first(rep, "C14.R5", ctx.tables[cfgname])
    rep.floor("C14.R5", "quantity types", len(ctx.tables["posc"].qts), 150)


def r6_categories(rep, ctx):
    pairs, _, _ = legacy.chain(ctx.model)
    for cfgname in ("posc", "simple"):
        tb = ctx.tables[cfgname]
        for reg, msg in tb.problems:
            raise AnalysisError("%s:%d: %s" % (reg.path, reg.line, msg))
        tablechecks.check_categories(rep, "C14.R6", tb, pairs)
    rep.floor("C14.R6", "categories", len(ctx.tables["posc"].cats), 250)


def r7_units(rep, ctx):
    tb = ctx.tables["posc"]
    tablechecks.check_units_unique(rep, "C14.R7", tb)
    tablechecks.check_units_unique(rep, "C14.R7", ctx.tables["simple"])
    tablechecks.check_unit_resolution(rep, "C14.R7", tb)
    tablechecks.check_unit_resolution(rep, "C14.R7", ctx.tables["simple"])
    rep.floor("C14.R7", "units", len(tb.units), 1000)


# ------------------------------------------------------------------------------------------------
def r9_valid_units(rep, ctx):
    """Must-pass-through: the CategoryInfo(...) registration is reached either through the loop that tests
    every element of `valid_units` for membership in the quantity type's units (raising otherwise), or
    over an edge on which `valid_units is None` holds (nothing was given; the quantity type's own units apply)."""
    from ..facts import norm_fact, none_fact

    m = ctx.model
    fn = m.method("UnitDatabase", "AddCategory")
    cfg = CFG(fn.node)
    res = Resolver(m, fn)
    if "valid_units" not in fn.params:
        raise AnalysisError("AddCategory has no valid_units parameter")
    ctor = [c for c in own_nodes(fn.node) if isinstance(c, ast.Call) and isinstance(c.func, ast.Name) and c.func.id == "CategoryInfo"]
    if len(ctor) != 1:
        raise AnalysisError("AddCategory: the CategoryInfo(...) construction was not found")
    # the units that valid_units / default_unit are tested against are those of the quantity type that is stored:
    # every GetUnits(...) / GetBaseUnit(...) of the method is asked with the value `quantity_type` has at the construction
    kw = {k_.arg: k_.value for k_ in ctor[0].keywords}
    qt_arg = kw.get("quantity_type", ctor[0].args[1] if len(ctor[0].args) > 1 else None)
    if qt_arg is not None:
        stored_qt = res.term(qt_arg)
        for c_ in own_nodes(fn.node):
            if isinstance(c_, ast.Call) and isinstance(c_.func, ast.Attribute) and c_.func.attr in ("GetUnits", "GetBaseUnit") and c_.args and res.term(c_.func.value) == ("self",):
                asked = res.term(c_.args[0])
                rep.check(asked == stored_qt, "C14.R9", "AddCategory:units-of-the-stored-type:%s" % norm(ast.unparse(c_))[:50], "the units a category's default / valid units are drawn from are those of the quantity type it is stored with",
                          "`%s` is evaluated with quantity type %s while the category is stored with %s (the value is taken before the quantity type is final): units of another quantity type pass the membership tests"
                          % (norm(ast.unparse(c_))[:60], show(asked, 60), show(stored_qt, 60)), node=c_, fn=fn)
    # the validating loops: iterate valid_units (possibly through enumerate) and raise on `<element> not in <units of the quantity type>`
    loops = []
    for lp in own_statements(fn.node):
        if not isinstance(lp, ast.For):
            continue
        if not any(isinstance(x, ast.Name) and x.id == "valid_units" for x in ast.walk(lp.iter)):
            continue
        L = cfg.node_of(lp)
        ok = False
        for nid in cfg.nodes("test"):
            e = cfg.ast[nid]
            inside = False
            p_ = getattr(e, "_parent", None)
            while p_ is not None and p_ is not fn.node:
                if p_ is lp:
                    inside = True
                p_ = getattr(p_, "_parent", None)
            if not inside:
                continue
            for lab in ("T", "F"):
                k, l_, r_, pos = norm_fact(e, lab == "T")
                if k == "in" and not pos and any(s_[0] == "call" and s_[1][0] in ("field", "attr") and (s_[1][1] if s_[1][0] == "field" else s_[1][2]) == "GetUnits" for s_ in walk(res.term(r_))):
                    if cfg.must_raise_from([(nid, lab)]):
                        ok = True
        if ok:
            loops.append(L)
    if not loops:
        rep.bad("C14.R9", "AddCategory:valid-units-validated", "AddCategory has no loop that rejects a valid unit outside the quantity type's units: a category can list units of another quantity type", node=ctor[0], fn=fn)
        return
    none_edges = set()
    for nid in cfg.nodes("test"):
        e = cfg.ast[nid]
        for lab in ("T", "F"):
            nf = none_fact(norm_fact(e, lab == "T"))
            if nf and isinstance(nf[0], ast.Name) and nf[0].id == "valid_units" and nf[1]:
                none_edges |= {(nid, b_, l_) for (b_, l_) in cfg.succ[nid] if l_ == lab}
    C = cfg.node_of(ctor[0])
    r = cfg.reach(cfg.ENTRY, avoid=set(loops), avoid_edges=none_edges)
    rep.check(C not in r, "C14.R9", "AddCategory:valid-units-validated", "every path to the registration validates the given valid units, or none were given",
              "a path reaches CategoryInfo(...) with a caller-given valid_units list that was never tested against the units of the quantity type (the validation is skipped for some argument form): a category can list units of another quantity type",
              node=ctor[0], fn=fn)
