"""C15  Queries are pure and caches are semantically invisible."""
import ast

from .. import prov
from ..report import borrow, AnalysisError, norm
from ..srcmodel import own_nodes

PROP = "C15"
EXHAUSTIVE = True
EXPLANATION = (
    "R1 purity: for every function of the library that is not a registration method (AddUnit, AddUnitBase, AddCategory, "
    "Clear, the fillers, constructors), the transitive write-effect set on registry state - the three registry maps, "
    "the per-type unit lists, and every field of CategoryInfo / UnitInfo objects - is empty (effects closed over the "
    "resolved call graph). R2 escape+sink: registry-owned containers that escape through getters (GetValidUnits, "
    "GetInfos, GetCategoryInfo ...) reach no mutation sink outside the registration methods (provenance analysis of all "
    "mutation sinks of the library). R3 cache coherence: for each memo table (the category/unit verdict memo, the "
    "Quantity intern table) the registry fields its fill path reads are computed, and every registration method writing "
    "one of those fields must also clear the memo; the class-level empty-quantity memo reads no registry field."
)
TRUSTED = ["hand-written provenance summaries of stdlib container methods"]
ASSUMPTIONS = ["callers outside the library do not mutate the lists/objects that getters hand out by reference (listed as escapes in the evidence)"]

REGISTRY = {("UnitDatabase", "quantity_types"), ("UnitDatabase", "unit_to_unit_info"), ("UnitDatabase", "categories_to_quantity_types")}
REGISTRY_CLASSES = ("CategoryInfo", "UnitInfo")
MEMOS = ("_category_unit_valid", "quantities_cache")
REGISTRATION = {"AddUnit", "AddUnitBase", "AddCategory", "Clear", "FillSimple", "FillUnitDatabaseWithPosc", "CreateDefaultSingleton"}


def is_registry_atom(w):
    cls, attr = w[0], w[1]
    return (cls, attr) in REGISTRY or cls in REGISTRY_CLASSES


def _is_registration(fn):
    if fn.name in REGISTRATION:
        return True
    if fn.name in ("__init__", "__new__") and fn.cls in ("UnitDatabase",) + REGISTRY_CLASSES:
        return True
    # nested helpers of registration methods
    p = fn.parent
    while p is not None:
        if p.name in REGISTRATION or (p.name == "__init__" and p.cls in REGISTRY_CLASSES):
            return True
        p = p.parent
    return False


def run(rep, ctx):
    rep.run_rule("C15.R1", "non-registration functions have an empty transitive write set on registry state", r1_purity, ctx)
    rep.run_rule("C15.R2", "registry-owned containers handed out by getters reach no mutation sink outside the registration methods", r2_sinks, ctx)
    rep.run_rule("C15.R3", "every registration method that writes a field a memo's fill path reads also clears that memo", r3_coherence, ctx)
    from . import c07
    from ..report import borrow
    rep.rule("C15.R5", "the intern table is keyed by everything its entries depend on, in order (shared with C07.R5 / C07.R6)")
    try:
        borrow(rep, c07.r5_interning, ctx, "C07.R5", "C15.R5", keep=lambda o: ":key:" in o.key or ":ret:" in o.key or ":store-key:" in o.key or ":store-after-miss:" in o.key or ":miss-key-stored:" in o.key)
        borrow(rep, c07.r6_eq_hash, ctx, "C07.R6", "C15.R5", keep=lambda o: o.key == "ObtainQuantity:key-ordered")
    except AnalysisError as e:
        rep.error("C15.R5", str(e))
    from . import c14
    rep.rule("C15.R6", "arithmetic never edits an interned quantity's composing map (shared with C07.R3); a rejected registration leaves the registry as it was (C14.R2)")
    try:
        borrow(rep, c07.r3_ownership, ctx, "C07.R3", "C15.R6")
        borrow(rep, c14.r2_check_before_write, ctx, "C14.R2", "C15.R6")
    except AnalysisError as e:
        rep.error("C15.R6", str(e))
    from . import c05
    rep.rule("C15.R7", "a memoised verdict answers like a computed one: CheckCategoryUnit raises for every pair without a positive verdict, whether the verdict was just computed or comes from the memo (shared with C05.R3)")
    try:
        borrow(rep, c05.r3_check_category_unit, ctx, "C05.R3", "C15.R7")
    except AnalysisError as e:
        rep.error("C15.R7", str(e))
    rep.run_rule("C15.R4", "the only state a query may write is a known memo table (whose coherence R3 establishes); no unlisted cache on the database or on interned quantities", r4_no_unlisted_memo, ctx)
    rep.not_decided.append("equality of query *answers* between warm and fresh databases beyond purity and memo coherence")


def _registration_side(ctx):
    """Registration methods and fillers, plus private helpers that are only ever called from them (a block of
    table rows moved into `_AddUnits(db, rows)`): qualified names."""
    cached = getattr(ctx, "_registration_side", None)
    if cached is not None:
        return cached
    m, eff = ctx.model, ctx.effects
    side = {q for q, fn in m.funcs.items() if _is_registration(fn)}
    callers = {}
    for caller, callees in eff.calls.items():
        for c in callees:
            callers.setdefault(c, set()).add(caller)
    # callers the effect analysis does not record (the table module is not part of it): by reference, same module
    for q, fn in m.funcs.items():
        if q in side or q in callers or not (fn.name.startswith("_") and not fn.name.startswith("__")) or not fn.path.endswith("posc.py"):
            continue
        for q2, f2 in m.funcs.items():
            if f2.path == fn.path and f2 is not fn and f2.parent is None:
                if any((isinstance(x, ast.Name) and x.id == fn.name) or (isinstance(x, ast.Attribute) and x.attr == fn.name) for x in ast.walk(f2.node)):
                    callers.setdefault(q, set()).add(q2)
    changed = True
    while changed:
        changed = False
        for q, fn in m.funcs.items():
            if q in side or not (fn.name.startswith("_") and not fn.name.startswith("__")):
                continue
            cs = callers.get(q, set()) - {q}
            if cs and cs <= side:
                side.add(q)
                changed = True
    try:
        ctx._registration_side = side
    except Exception:
        pass
    return side


def r1_purity(rep, ctx):
    m, eff = ctx.model, ctx.effects
    n = 0
    side = _registration_side(ctx)
    for q, fn in sorted(m.funcs.items()):
        if ctx.prov.skip(q) or q in side:
            continue
        if "rich_text" in fn.path:
            continue
        n += 1
        ws = sorted({(w[0], w[1]) for w in eff.trans_w.get(q, ()) if is_registry_atom(w)})
        key = "pure:%s" % q.split(".", 2)[-1]
        if not ws:
            rep.ok("C15.R1", key, "no transitive write to registry state", fn=fn)
            continue
        direct = sorted({(w[0], w[1]) for w in eff.direct_w.get(q, ()) if is_registry_atom(w)})
        path = eff.path(q, is_registry_atom) or [q]
        if direct:
            what = "writes registry state %s directly" % direct
        else:
            what = "reaches a write of registry state %s through %s" % (ws, " -> ".join(p.split(".", 2)[-1] for p in path))
        # report at the function that holds the direct write only once per writer: callers are consequences
        if direct:
            rep.bad("C15.R1", key, "%s is not a registration method but %s" % (fn.name, what), fn=fn, facts={"path": path})
        else:
            root = path[-1]
            rootfn = m.funcs[root]
            if root in side:
                rep.bad("C15.R1", key, "%s is not a registration method but %s" % (fn.name, what), fn=fn, facts={"path": path})
            else:
                rep.ok("C15.R1", key, "impure only through %s, which is reported itself" % root.split(".", 2)[-1], fn=fn)
    rep.floor("C15.R1", "functions examined", n, 150)


def r2_sinks(rep, ctx):
    a, m = ctx.prov, ctx.model
    n = 0
    for fn, sk in a.sinks():
        atoms = [x for x in sk["atoms"] if x[0] == "F" and is_registry_atom((x[1], x[2]))]
        if not atoms:
            continue
        n += 1
        stmt = norm(ast.unparse(sk["node"]))[:80]
        if sk["kind"] == "via":
            key = "%s:via:%s(%s):%s" % (fn.qual.split(".", 2)[-1], sk["callee"].split(".")[-1], sk["param"], stmt)
            what = "passes registry-owned %s to %s, which mutates that argument" % (prov.fmt_atoms(set(atoms)), sk["callee"].split(".")[-1])
        else:
            key = "%s:%s:%s" % (fn.qual.split(".", 2)[-1], sk["kind"], stmt)
            what = "mutates %s, which is registry-owned (%s)" % (sk["target"], prov.fmt_atoms(set(atoms)))
        if _is_registration(fn):
            rep.ok("C15.R2", key, "registration method %s %s" % (fn.name, what), node=sk["node"], fn=fn)
        else:
            rep.bad("C15.R2", key, "%s %s: a query changes what the database reports afterwards" % (fn.name, what), node=sk["node"], fn=fn)
    rep.floor("C15.R2", "sinks on registry-owned containers", n, 5)
    # escapes (informational): getters returning registry-owned mutable containers by reference
    esc = []
    for q, fn in m.funcs.items():
        if fn.cls != "UnitDatabase" or not fn.name.startswith("Get"):
            continue
        ret = a.sum[q].ret
        at = [x for x in ret.lv[0] if x[0] == "F" and is_registry_atom((x[1], x[2])) and not a.field_imm(x[1], x[2])]
        if at:
            esc.append("%s -> %s" % (fn.name, prov.fmt_atoms(set(at))))
    rep.analysed["getters handing out registry-owned containers by reference"] = sorted(esc)


def r3_coherence(rep, ctx):
    m, eff, a = ctx.model, ctx.effects, ctx.prov
    for memo in MEMOS:
        fills = [fn for (fn, node, depth, kind) in eff.write_sites.get(("UnitDatabase", memo), []) if kind in ("substore",) and depth == 0]
        fills = list(dict.fromkeys(fills))
        if not fills:
            raise AnalysisError("no fill site of memo %s found" % memo)
        reads = set()
        for f in fills:
            reads |= {(r[0], r[1]) for r in eff.trans_r.get(f.qual, ()) if is_registry_atom(r)}
        reads_maps = sorted(r for r in reads if r in REGISTRY)
        # registration methods that write what the fill path reads
        writers = []
        for q, fn in m.funcs.items():
            if fn.cls != "UnitDatabase" or fn.name not in ("AddUnit", "AddUnitBase", "AddCategory", "Clear"):
                continue
            w = {(x[0], x[1]) for x in eff.direct_w.get(q, ()) if is_registry_atom(x)}
            if w & reads:
                writers.append((fn, sorted(w & reads)))
        if not writers:
            raise AnalysisError("no registration method writes a field that memo %s depends on" % memo)
        for fn, fields in sorted(writers, key=lambda x: x[0].name):
            clears = any(x[0] == "UnitDatabase" and x[1] == memo for x in eff.trans_w.get(fn.qual, ()))
            only_reorders = fn.name == "AddUnitBase"
            key = "%s:%s" % (fn.name, memo)
            if only_reorders:
                # AddUnitBase registers through AddUnit (checked there) and then only reorders the per-type list
                calls_add = any(c.endswith(".AddUnit") for c in eff.calls.get(fn.qual, ()))
                rep.check(calls_add, "C15.R3", key, "registers through AddUnit (whose obligation covers it) and only reorders the list",
                          "writes %s without going through AddUnit and without clearing %s" % (fields, memo), fn=fn)
                continue
            if clears:
                # ... on every path: from each write of those fields no normal exit is reachable without the clear
                from ..cfg import CFG
                from ..terms import Resolver
                from ..srcmodel import own_nodes
                cfg_ = CFG(fn.node)
                res_ = Resolver(m, fn)
                clear_nodes = {cfg_.node_of(c_) for c_ in own_nodes(fn.node) if isinstance(c_, ast.Call) and isinstance(c_.func, ast.Attribute) and c_.func.attr == "clear"
                               and res_.term(c_.func.value) == ("field", memo)}
                if not clear_nodes and memo == "_category_unit_valid":
                    # a selective invalidation (`del memo[key]` for the keys passing a filter) instead of clear(): the
                    # filter must select by the component of the memo key that holds what this method registers
                    _selective_invalidation(rep, m, fn, res_, memo, key)
                if clear_nodes:
                    for fld in fields:
                        for (wf, wnode, depth, kind) in eff.write_sites.get(tuple(fld), []):
                            if wf is not fn:
                                continue
                            try:
                                W = cfg_.node_of(wnode)
                            except Exception:
                                continue
                            if W in clear_nodes:
                                continue
                            ok_path = cfg_.EXIT not in cfg_.reach(W, avoid=clear_nodes)
                            rep.check(ok_path, "C15.R3", "%s:%s:every-path:%s" % (fn.name, memo, fld[1]), "after writing %s every path to a normal exit clears %s" % (fld[1], memo),
                                      "%s writes %s and can return without clearing %s (the clear is conditional): a verdict cached before the registration - also a negative one for a then-unknown category - stays in effect" % (fn.name, fld[1], memo),
                                      node=wnode, fn=fn)
            rep.check(clears, "C15.R3", key, "%s writes %s, which the fill path of %s reads, and clears the memo" % (fn.name, fields, memo),
                      "%s changes %s, which the cached entries of %s were computed from (fill path: %s), but does not clear the memo: answers cached before the registration stay in effect"
                      % (fn.name, fields, memo, ", ".join(f.name for f in fills)), fn=fn, facts={"memo_reads": reads_maps})
    # the class-level empty-quantity memo
    ce = m.func("Quantity.CreateEmpty")
    rd = {(r[0], r[1]) for r in eff.direct_r.get(ce.qual, ()) if is_registry_atom(r)}
    rep.check(not rd, "C15.R3", "Quantity._EMPTY_QUANTITY", "the empty-quantity memo is filled without reading registry state", "the empty-quantity memo depends on %s" % sorted(rd), fn=ce)


def _selective_invalidation(rep, m, fn, res, memo, key):
    """`for k in [k for k in memo if k[i] == X]: del memo[k]` (or the same with pop / a loop with an if): component i
    of the memo key must be the one that is built from the same datum as X - the memo is keyed (category, unit), so
    AddUnit may select by `k[1] == unit` and AddCategory by `k[0] == category`.  A filter on another component, or on
    another datum, leaves stale verdicts: violation.  A filter on the right component is not decided here (whether
    only those verdicts can change is arithmetic on the registry's content): analysis error."""
    from ..srcmodel import own_nodes

    # layout of the memo key, from the store in CheckCategoryUnit: positions -> parameter names
    ccu = m.method("UnitDatabase", "CheckCategoryUnit")
    from ..terms import Resolver
    cres = Resolver(m, ccu)
    layout = None
    for st in own_nodes(ccu.node):
        if isinstance(st, ast.Assign):
            for t_ in st.targets:
                if isinstance(t_, ast.Subscript) and cres.term(t_.value) == ("field", memo):
                    kt = cres.term(t_.slice)
                    if kt[0] == "tuple" and all(c_[0] == "param" for c_ in kt[1]):
                        layout = [c_[2] for c_ in kt[1]]
    if layout is None:
        raise AnalysisError("CheckCategoryUnit: the key under which the verdict memo is stored was not recognised")
    filters = []
    for x in own_nodes(fn.node):
        if isinstance(x, ast.Compare) and len(x.ops) == 1 and isinstance(x.ops[0], ast.Eq):
            for l_, r_ in ((x.left, x.comparators[0]), (x.comparators[0], x.left)):
                if isinstance(l_, ast.Subscript) and isinstance(l_.slice, ast.Constant) and isinstance(l_.slice.value, int) and isinstance(l_.value, ast.Name):
                    # is the subscripted name an element of the memo (comprehension / loop over it)?
                    p_ = getattr(x, "_parent", None)
                    over_memo = False
                    while p_ is not None and p_ is not fn.node:
                        gens = getattr(p_, "generators", None) or []
                        for g_ in gens:
                            if any(isinstance(y, ast.Name) and y.id == l_.value.id for y in ast.walk(g_.target)) and any(s_ == ("field", memo) for s_ in _walk(res.term(g_.iter))):
                                over_memo = True
                        if isinstance(p_, ast.For) and any(isinstance(y, ast.Name) and y.id == l_.value.id for y in ast.walk(p_.target)) and any(s_ == ("field", memo) for s_ in _walk(res.term(p_.iter))):
                            over_memo = True
                        p_ = getattr(p_, "_parent", None)
                    if over_memo:
                        filters.append((l_.slice.value, res.term(r_), x))
    # a single entry removed (`memo.pop(key, None)` / `del memo[key]`): a registration can change the verdict of every
    # (category, unit) pair that shares the registered datum - one key is never all of them
    singles = []
    for x in own_nodes(fn.node):
        if isinstance(x, ast.Call) and isinstance(x.func, ast.Attribute) and x.func.attr == "pop" and x.args and res.term(x.func.value) == ("field", memo):
            singles.append((x, res.term(x.args[0])))
        elif isinstance(x, ast.Delete):
            for t_ in x.targets:
                if isinstance(t_, ast.Subscript) and res.term(t_.value) == ("field", memo):
                    singles.append((x, res.term(t_.slice)))
    if singles and not filters and not any(isinstance(p_, (ast.For, ast.While, ast.ListComp, ast.GeneratorExp)) for x, _ in singles for p_ in _ancestors(x, fn.node)):
        for x, kt in singles:
            rep.bad("C15.R3", key + ":selective-invalidation", "%s removes the single memo entry %s: the memo is keyed by (%s), and this registration can change the verdict of every entry that shares the registered %s - the others (a refusal cached for another category of the quantity type, say) stay in effect"
                    % (fn.name, show_term(kt), ", ".join(layout), "/".join(p for p in layout if p in fn.params) or "datum"), node=x, fn=fn)
        return
    if not filters:
        raise AnalysisError("%s writes the verdict memo without clear() and without a recognisable selective invalidation" % fn.name)
    for i, xt, node in filters:
        comp = layout[i] if -len(layout) <= i < len(layout) else None
        right = comp is not None and xt[0] == "param" and xt[2] == comp
        if not right:
            rep.bad("C15.R3", key + ":selective-invalidation", "%s invalidates only the memo entries whose key component %d (the %s) equals %s: the entries that this registration makes stale are keyed by their %s component, so stale verdicts - a refusal cached before the registration - stay in effect"
                    % (fn.name, i, comp, show_term(xt), "/".join(p for p in layout if p in fn.params) or "own"), node=node, fn=fn)
        else:
            raise AnalysisError("%s invalidates the verdict memo selectively (entries whose %s is the registered one): whether no other cached verdict can change is not decided by this rule" % (fn.name, comp))


def _ancestors(x, stop):
    p_ = getattr(x, "_parent", None)
    while p_ is not None and p_ is not stop:
        yield p_
        p_ = getattr(p_, "_parent", None)


def _walk(t):
    from ..terms import walk
    return walk(t)


def show_term(t):
    from ..terms import show
    return show(t, 60)


KNOWN_WRITERS = {
    # (class, field) -> functions allowed to write it outside registration, with the reason
    ("UnitDatabase", "quantities_cache"): {"ObtainQuantity": "the intern table (coherence: R3)"},
    ("UnitDatabase", "_category_unit_valid"): {"CheckCategoryUnit": "the verdict memo (coherence: R3)"},
    ("UnitDatabase", "_additional_conversions"): {"RegisterAdditionalConversionType": "registration of a conversion function for a value type (import-time)"},
    ("Quantity", "_hash"): {"__hash__": "memo of a pure function of frozen fields (C07.R1)"},
    ("Quantity", "_composing_units_joining_exponents"): {"GetComposingUnitsJoiningExponents": "memo of a pure function of frozen fields (C07.R1)"},
    ("Quantity", "_EMPTY_QUANTITY"): {"CreateEmpty": "class-level memo of the empty quantity (reads no registry state: R3)"},
}


def r4_no_unlisted_memo(rep, ctx):
    m, eff = ctx.model, ctx.effects
    n = 0
    for q, ws in sorted(eff.direct_w.items()):
        fn = m.funcs[q]
        if q in _registration_side(ctx) or fn.name in ("__init__", "__new__"):
            continue
        for w in sorted(ws):
            if w[0] not in ("UnitDatabase", "Quantity") or is_registry_atom(w):
                continue
            n += 1
            allowed = dict(KNOWN_WRITERS.get((w[0], w[1]), {}))
            if (w[0], w[1]) == ("UnitDatabase", "quantities_cache") and fn.name not in allowed:
                from . import c07
                if any(f is fn for f in c07.interning_functions(m)):
                    allowed[fn.name] = "the intern table, written by a phase of ObtainQuantity that is called directly (the interning rules of C07.R5 are applied to it: R5 here)"
            key = "%s:%s.%s" % (q.split(".", 2)[-1], w[0], w[1])
            rep.check(fn.name in allowed, "C15.R4", key, "%s writes %s.%s: %s" % (fn.name, w[0], w[1], allowed.get(fn.name, "")),
                      "%s writes %s.%s, a cache that is not among the known memo tables: nothing establishes that it is keyed by everything its content depends on, nor that registrations invalidate it "
                      "(answers can depend on the order of earlier queries)" % (q.split(".", 2)[-1], w[0], w[1]), fn=fn)
    rep.floor("C15.R4", "non-registration writes to database/quantity state", n, 3)
