"""C16  Legacy unit spellings are exact aliases and never capture current units."""
import ast

from .. import legacy
from ..report import borrow, AnalysisError, norm
from ..srcmodel import own_nodes
from ..terms import Resolver, alternatives, show, walk

PROP = "C16"
EXHAUSTIVE = True
EXPLANATION = (
    "Static decision of the structural clauses of C16. R1: FixUnitIfIsLegacy is verified to be a fold of "
    "str.replace over a literal list of (legacy, current) pairs returning (changed?, rewritten); the list is then "
    "applied as constant folding to literals of the source. R2 (exhaustive): no current symbol of the shipped table "
    "(recovered by interpreting the fillers) is changed by the chain. R3 (exhaustive): every legacy spelling derivable "
    "by inverse substitution from a current symbol maps back exactly to that symbol, the chain is idempotent on all "
    "current symbols, derived spellings and the pairs themselves. R4: each unit-string entry point of the library "
    "(GetInfo, GetDefaultCategory, ObtainQuantity, Quantity.__init__, AddCategory x2) calls the fixer on the requested "
    "unit, branches on its flag and feeds the rewritten string into the retry lookup; GetInfo defaults to fixing and "
    "only CheckQuantityTypeUnit turns it off. R5: on the rewritten path the stored unit / cache key derive from the "
    "rewritten string."
)
TRUSTED = ["semantics of str.replace (applied to literals of the source as constant folding)"]
ASSUMPTIONS = ["legacy spellings are those derivable from the substitution list and the shipped table (the property's own quantifier)"]

# entry points that must tolerate legacy spellings: (qualified function, unit role, what the rewritten string must reach)
SITES = [
    ("UnitDatabase.GetInfo", ("param", 2), "lookup", "the retry lookup of the unit info"),
    ("UnitDatabase.GetDefaultCategory", ("param", 1), "lookup", "the retry lookup in the unit map"),
    ("Quantity.__init__", ("param", 2), "check", "the retry of the category/unit check"),
    ("ObtainQuantity", ("param", 0), "lookup", "the retry of the default-category lookup"),
    ("UnitDatabase.AddCategory", ("elem-param", 3), "member", "the membership test of each valid unit"),
    ("UnitDatabase.AddCategory", ("param", 5), "member", "the membership test of the default unit"),
]


def run(rep, ctx):
    rep.run_rule("C16.R1", "FixUnitIfIsLegacy is a fold of str.replace over a literal pair list and reports whether the string changed", r1_chain, ctx)
    rep.run_rule("C16.R2", "no current unit symbol of the shipped table is rewritten (exhaustive)", r2_capture, ctx)
    rep.run_rule("C16.R3", "every derivable legacy spelling maps exactly to its current symbol; rewriting is idempotent (exhaustive)", r3_alias, ctx)
    rep.run_rule("C16.R4", "every unit-string entry point retries with the rewritten spelling", r4_sites, ctx)
    rep.run_rule("C16.R5", "the rewritten spelling is what gets stored / cached", r5_stored, ctx)
    from . import c19
    from ..report import borrow
    from . import c07
    rep.rule("C16.R7", "a request written with a legacy spelling is interned under its own (rewritten) unit, category and caption (shared with C07.R5)")
    try:
        borrow(rep, c07.r5_interning, ctx, "C07.R5", "C16.R7")
    except AnalysisError as e:
        rep.error("C16.R7", str(e))
    rep.rule("C16.R6", "a legacy spelling resolves its default category exactly like the current spelling (GetDefaultCategory's resolution order holds on the legacy path too; shared with C19.R1b)")
    try:
        borrow(rep, c19.r1b_mechanism, ctx, "C19.R1b", "C16.R6")
    except AnalysisError as e:
        rep.error("C16.R6", str(e))
    from . import c14
    rep.rule("C16.R9", "AddCategory rewrites legacy spellings in the list it registers and takes the default unit from that rewritten list: nothing of the caller's or another category's list is edited on a rejected call (shared with C14.R2)")
    try:
        borrow(rep, c14.r2_check_before_write, ctx, "C14.R2", "C16.R9", keep=lambda o: o.key.startswith("AddCategory"))
    except AnalysisError as e:
        rep.error("C16.R9", str(e))
    from . import c05
    rep.rule("C16.R8", "the legacy rewrite in Quantity's constructor is reached whenever the spelling as given is refused: CheckCategoryUnit raises for every pair without a positive verdict, memoised or not (shared with C05.R3)")
    try:
        borrow(rep, c05.r3_check_category_unit, ctx, "C05.R3", "C16.R8")
    except AnalysisError as e:
        rep.error("C16.R8", str(e))
    rep.not_decided.append("equality of the conversion *results* for legacy vs current spelling beyond resolving to the same UnitInfo (follows from C01/C02 routes)")


def r1_chain(rep, ctx):
    pairs, fn, info = legacy.chain(ctx.model)
    rep.floor("C16.R1", "substitution pairs", len(pairs), 1)
    rep.ok("C16.R1", "FixUnitIfIsLegacy:shape", "fold of str.replace over %d literal pairs" % len(pairs), fn=fn)
    rep.check(info["flag_is_changed_test"], "C16.R1", "FixUnitIfIsLegacy:flag", "the first result is `original != rewritten`",
              "the first result is `%s`, not a test that the string changed" % info["flag_expr"], node=info["return"], fn=fn)
    for a, b, line in pairs:
        rep.check(a != b and a != "", "C16.R1", "pair:%s" % a, "pair (%r -> %r) rewrites a non-empty legacy fragment" % (a, b),
                  "degenerate substitution pair (%r -> %r)" % (a, b), file=fn.path, line=line)


def _symbols(ctx):
    tb = ctx.tables["posc"]
    syms = list(tb.units)
    if len(syms) < 1000:
        raise AnalysisError("only %d unit symbols recovered from the fillers" % len(syms))
    return tb, syms


def r2_capture(rep, ctx):
    pairs, fn, _ = legacy.chain(ctx.model)
    tb, syms = _symbols(ctx)
    for cfgname in ("posc", "simple"):
        for sym, row in ctx.tables[cfgname].units.items():
            fixed = legacy.apply(pairs, sym)
            rep.check(fixed == sym, "C16.R2", "%s:%s" % (cfgname, sym), "current symbol %r is a fixed point of the rewrite" % sym,
                      "current unit %r (%s) is rewritten to %r by the legacy chain (captured)" % (sym, row.qt, fixed),
                      file=row.reg.path, line=row.reg.line)
    rep.floor("C16.R2", "symbols", len(syms), 1000)


def derive_legacy(pairs, syms):
    out = []
    for u in syms:
        for a, b, _ in pairs:
            if b and b in u:
                s = u.replace(b, a)
                if s != u:
                    out.append((s, u, a, b))
    return out


def r3_alias(rep, ctx):
    pairs, fn, _ = legacy.chain(ctx.model)
    tb, syms = _symbols(ctx)
    symset = set(syms)
    derived = derive_legacy(pairs, syms)
    n_alias = 0
    for s, u, a, b in derived:
        fixed = legacy.apply(pairs, s)
        if fixed == u:
            n_alias += 1
            again = legacy.apply(pairs, fixed)
            rep.check(again == fixed, "C16.R3", "alias:%s" % s, "legacy %r -> %r, and rewriting again changes nothing" % (s, u),
                      "rewriting is not idempotent on %r: %r then %r" % (s, fixed, again), file=fn.path, line=fn.node.lineno)
        elif s in symset:
            # the inverse substitution produced another *current* symbol (e.g. Mcf <-> 1000ft3 both registered): R2 covers it
            continue
        elif fixed in symset:
            # the spelling still resolves to a current unit, but not the one it was derived from
            rep.bad("C16.R3", "alias:%s" % s, "legacy spelling %r (from %r by %r<-%r) is rewritten to a different current unit %r" % (s, u, b, a, fixed),
                    file=fn.path, line=fn.node.lineno)
        elif getattr(pairs, "count", None) is not None and legacy.apply(legacy.PairList(pairs), s) == u:
            rep.bad("C16.R3", "alias:%s" % s, "legacy spelling %r of %r is rewritten to %r: the chain replaces only the first %d occurrence(s) of a legacy token, so a spelling in which the token occurs more often is no longer an alias"
                    % (s, u, fixed, pairs.count), file=fn.path, line=fn.node.lineno)
        else:
            # an earlier pair of the chain rewrites part of the spelling first: the derived string is not a
            # spelling the chain ever accepted for u.  Only an alias if some pair maps to it; record as set aside.
            rep.note("derived spelling %r of %r is not an alias (rewrites to %r)" % (s, u, fixed))
    rep.floor("C16.R3", "derivable legacy spellings", n_alias, 20)
    # idempotence on every current symbol and on the pairs themselves
    bad = [u for u in syms if legacy.apply(pairs, legacy.apply(pairs, u)) != legacy.apply(pairs, u)]
    rep.check(not bad, "C16.R3", "idempotent:symbols", "rewriting twice equals rewriting once on all %d current symbols" % len(syms),
              "rewrite not idempotent on current symbols %r" % bad[:5], fn=fn)
    for a, b, line in pairs:
        once = legacy.apply(pairs, a)
        twice = legacy.apply(pairs, once)
        rep.check(once == twice, "C16.R3", "idempotent:pair:%s" % a, "legacy fragment %r -> %r is stable under a second rewrite" % (a, once),
                  "legacy fragment %r rewrites to %r and then to %r (not idempotent)" % (a, once, twice), file=fn.path, line=line)
        rep.check(legacy.apply(pairs, b) == b, "C16.R3", "fixedpoint:pair:%s" % a, "replacement %r is a fixed point of the chain" % b,
                  "replacement text %r of pair %r is itself rewritten to %r" % (b, a, legacy.apply(pairs, b)), file=fn.path, line=line)
        rep.check(once == b, "C16.R3", "exact:pair:%s" % a, "legacy fragment %r rewrites exactly to %r" % (a, b),
                  "legacy fragment %r rewrites to %r, not to its listed replacement %r (an earlier pair fires first)" % (a, once, b), file=fn.path, line=line)


def _role_ok(t, role):
    """term t denotes the site's unit role (parameter by position, or an element of a parameter)."""
    for a in alternatives(t):
        if role[0] == "param" and a[0] == "param" and a[1] == role[1]:
            return True
        if role[0] == "elem-param":
            # element of the parameter: elem(param) or enumerate(param) element
            for s in walk(a):
                if s[0] == "param" and s[1] == role[1]:
                    return any(x[0] == "elem" for x in walk(a))
    return False


def _site_uses(m, fn, role):
    """Collect, inside fn (and its nested helpers), expressions whose term has an alternative
    FixUnitIfIsLegacy(<role>)[1] (fixed) or [0] (flag)."""
    res = Resolver(m, fn)
    fixed_uses, flag_uses, calls = [], [], []
    for n in own_nodes(fn.node):
        if isinstance(n, ast.Call):
            nm = n.func.id if isinstance(n.func, ast.Name) else (n.func.attr if isinstance(n.func, ast.Attribute) else None)
            if nm == legacy.FIXER and len(n.args) == 1 and _role_ok(res.term(n.args[0]), role):
                calls.append(n)
            for a in list(n.args) + [k.value for k in n.keywords]:
                t = res.term(a)
                for alt in alternatives(t):
                    fa = legacy.fixed_arg(alt)
                    if fa is not None and _role_ok(fa, role):
                        fixed_uses.append(("arg:" + (nm or "?"), n))
        elif isinstance(n, ast.Subscript) and isinstance(n.ctx, ast.Load):
            t = res.term(n.slice)
            for alt in alternatives(t):
                fa = legacy.fixed_arg(alt)
                if fa is not None and _role_ok(fa, role):
                    fixed_uses.append(("index", n))
        elif isinstance(n, ast.Compare):
            for x in [n.left] + n.comparators:
                t = res.term(x)
                for alt in alternatives(t):
                    fa = legacy.fixed_arg(alt)
                    if fa is not None and _role_ok(fa, role):
                        fixed_uses.append(("compare", n))
        if isinstance(n, (ast.If, ast.While, ast.IfExp)):
            for x in ast.walk(n.test):
                if isinstance(x, ast.Name):
                    t = res.term(x)
                    for alt in alternatives(t):
                        fa = legacy.flag_arg(alt)
                        if fa is not None and _role_ok(fa, role):
                            flag_uses.append(n)
    return calls, fixed_uses, flag_uses, res


def r4_sites(rep, ctx):
    m = ctx.model
    for qual, role, kind, what in SITES:
        fn = m.func(qual)
        key = "%s:%s%d" % (qual, role[0], role[1])
        calls, fixed_uses, flag_uses, res = _site_uses(m, fn, role)
        want = {"lookup": ("index", "arg:"), "check": ("arg:",), "member": ("compare",)}[kind]
        hits = [u for u in fixed_uses if any(u[0].startswith(w) for w in want) and not u[0].endswith(":" + legacy.FIXER)]
        if not calls:
            rep.bad("C16.R4", key, "%s never rewrites the requested unit: a legacy spelling is rejected here" % qual, fn=fn)
            continue
        problems = []
        if not hits:
            problems.append("the rewritten spelling never reaches %s" % what)
        if not flag_uses:
            problems.append("the 'was rewritten' flag is never tested")
        rep.check(not problems, "C16.R4", key, "calls the fixer on the requested unit, tests its flag, and the rewritten string reaches %s" % what,
                  "; ".join(problems), node=calls[0], fn=fn, facts={"uses": sorted({u[0] for u in fixed_uses})})
    # GetInfo: fixing is on by default, and only the strict quantity-type check turns it off
    gi = m.func("UnitDatabase.GetInfo")
    a = gi.node.args
    names = [x.arg for x in a.args]
    defaults = dict(zip(names[len(names) - len(a.defaults):], a.defaults))
    d = defaults.get("fix_legacy")
    if "fix_legacy" not in names:
        raise AnalysisError("GetInfo has no fix_legacy parameter")
    rep.check(isinstance(d, ast.Constant) and d.value is True, "C16.R4", "UnitDatabase.GetInfo:fix_legacy-default", "GetInfo fixes legacy spellings by default",
              "GetInfo's fix_legacy default is %s" % (ast.unparse(d) if d is not None else "missing"), fn=gi)
    idx = names.index("fix_legacy") - 1
    n_sites = 0
    for f in m.funcs.values():
        if f.path.endswith("posc.py") and f.name.startswith("Fill"):
            continue
        for n in own_nodes(f.node):
            if isinstance(n, ast.Call) and isinstance(n.func, ast.Attribute) and n.func.attr == "GetInfo":
                n_sites += 1
                flag = None
                for k in n.keywords:
                    if k.arg == "fix_legacy":
                        flag = k.value
                if len(n.args) > idx:
                    flag = n.args[idx]
                off = flag is not None and not (isinstance(flag, ast.Constant) and flag.value is True)
                allowed = f.name == "CheckQuantityTypeUnit"
                key = "GetInfo-call:%s:%s" % (f.qual.split(".", 2)[-1], norm(ast.unparse(n)))
                rep.check(not off or allowed, "C16.R4", key, "lookup keeps legacy fixing on" if not off else "strict check turns legacy fixing off (by design: callers retry with the rewritten unit)",
                          "lookup turns legacy fixing off (fix_legacy=%s): legacy spellings are rejected on this route" % ast.unparse(flag) if flag is not None else "", node=n, fn=f)
    rep.floor("C16.R4", "GetInfo call sites", n_sites, 4)


def r5_stored(rep, ctx):
    m = ctx.model
    # Quantity.__init__: the stored unit derives from the rewritten string on the legacy path
    init = m.func("Quantity.__init__")
    res = Resolver(m, init)
    stores = [s for s in res.field_stores("_unit", "Quantity") if s[0] is init]
    simple = []
    for fn_, value, st in stores:
        t = res.term(value)
        if any(s[0] == "param" and s[1] == 2 for s in walk(t)):
            simple.append((t, st))
    if not simple:
        raise AnalysisError("Quantity.__init__: no store of self._unit deriving from the unit argument")
    for t, st in simple:
        has_fixed = any(legacy.fixed_arg(s) is not None for s in walk(t))
        rep.check(has_fixed, "C16.R5", "Quantity.__init__:self._unit", "the stored unit is the rewritten spelling when the retry succeeded",
                  "the stored unit never derives from the rewritten spelling (a legacy string would be stored verbatim)", node=st, fn=init, facts={"term": show(t, 300)})
    # ObtainQuantity: constructor arguments / cache keys built after the rewrite use the rewritten unit
    oq = m.func("ObtainQuantity")
    res2 = Resolver(m, oq)
    n = 0
    for c in own_nodes(oq.node):
        if isinstance(c, ast.Call) and isinstance(c.func, ast.Name) and c.func.id == "Quantity" and len(c.args) >= 2:
            t = res2.term(c.args[1])
            if any(s[0] == "param" and s[1] == 0 for s in walk(t)) and any(legacy.fixed_arg(s) is not None for s in walk(t)):
                n += 1
    rep.check(n >= 1, "C16.R5", "ObtainQuantity:Quantity(category, unit)", "the quantity built after resolving the default category receives the rewritten unit",
              "no Quantity(...) construction in ObtainQuantity receives the rewritten unit", fn=oq)
    # AddCategory: the stored valid units / default unit are the rewritten ones
    ac = m.func("UnitDatabase.AddCategory")
    res3 = Resolver(m, ac)
    ok_default = False
    ok_valid = False
    for c in own_nodes(ac.node):
        if isinstance(c, ast.Call) and isinstance(c.func, ast.Name) and c.func.id == "CategoryInfo":
            for k in c.keywords:
                if k.arg == "default_unit":
                    t = res3.term(k.value)
                    ok_default = any(legacy.fixed_arg(s) is not None for s in walk(t))
        if isinstance(c, ast.Assign) and isinstance(c.targets[0], ast.Subscript):
            base = res3.term(c.targets[0].value)
            if any(s[0] == "param" and s[1] == 3 for s in walk(base)):
                t = res3.term(c.value)
                ok_valid = ok_valid or any(legacy.fixed_arg(s) is not None for s in walk(t))
    rep.check(ok_default, "C16.R5", "AddCategory:default_unit", "the registered default unit is the rewritten spelling", "CategoryInfo.default_unit never derives from the rewritten spelling", fn=ac)
    rep.check(ok_valid, "C16.R5", "AddCategory:valid_units", "legacy entries of valid_units are replaced by the rewritten spelling", "valid_units entries are never replaced by the rewritten spelling", fn=ac)
