"""C17  The unit-system manager is a registry with exactly one current system."""
import ast

from ..cfg import CFG
from ..report import AnalysisError, norm
from ..srcmodel import own_nodes, own_statements
from ..terms import Resolver, alternatives, show, walk

PROP = "C17"
EXHAUSTIVE = False
EXPLANATION = (
    "Decided for all operation sequences from which code may write which state and in what order relative to checks and "
    "notifications. R1 who-may-write: _current is stored only by SetCurrent, _unit_systems is mutated only by "
    "AddUnitSystem / RemoveUnitSystem, the template only by SetTemplateUnitSystemByUnitsMapping (every store and every "
    "container mutation in the module is enumerated). R2 check-before-write: in those methods no raise/assert is "
    "reachable after a state write (a rejected call changes nothing); the id-uniqueness test and the template-coverage "
    "test dominate the registration. R3 listener pairing in SetCurrent: on every path the old current system's listener "
    "is unregistered before the store unless there was none, the new one's is registered after it unless it is None, "
    "with the same callback, and on_current fires on every path after the store. R4 selection: AddUnitSystem selects the "
    "newly registered object iff none is current; RemoveUnitSystem re-selects from the registry or None; public "
    "SetCurrent has no membership guard (finding). R5: UnitSystem.SetDefaultUnit / RemoveCategory notify after mutating, "
    "with the category and new unit; the manager forwards them unchanged. R6 capture: mappings handed to a unit system "
    "are not aliases of another system's / the template's mapping inside the manager; UnitSystem itself keeps the "
    "caller's dict by reference (finding). R7 ConvertToCurrent: returns its inputs when there is no default unit, else "
    "converts value from unit to the current default of the category, and returns that unit."
)
TRUSTED = ["oop_ext Callback: calling the callback object notifies the registered listeners"]
ASSUMPTIONS = ["unit systems are mutated only through the IUnitSystem interface"]

M = "UnitSystemManager"
STATE = {"_current": {"SetCurrent"}, "_unit_systems": {"AddUnitSystem", "RemoveUnitSystem"}, "_unit_system_template": {"SetTemplateUnitSystemByUnitsMapping"}}
MUTATORS = {"append", "extend", "insert", "pop", "remove", "clear", "update", "setdefault", "popitem", "move_to_end", "add", "discard", "__setitem__", "__delitem__"}


def run(rep, ctx):
    rep.run_rule("C17.R1", "manager state is written only by its designated methods", r1_writers, ctx)
    rep.run_rule("C17.R2", "check-before-write: no raise after a state write; uniqueness and template coverage dominate registration", r2_check_before_write, ctx)
    rep.run_rule("C17.R3", "SetCurrent pairs Unregister(old) / Register(new) around the store and always fires on_current", r3_pairing, ctx)
    rep.run_rule("C17.R4", "automatic selection: add selects iff none is current, remove re-selects from the registry; SetCurrent membership", r4_selection, ctx)
    rep.run_rule("C17.R5", "default-unit changes notify after the mutation with (category, unit); the manager forwards them", r5_notify, ctx)
    rep.run_rule("C17.R6", "mappings are not shared between systems / with the template", r6_capture, ctx)
    rep.run_rule("C17.R7", "ConvertToCurrent converts from the given unit to the current default unit of the category", r7_convert, ctx)
    rep.not_decided += [
        "'notified exactly': absence of spurious notifications when re-selecting the current system (needs a reference model)",
        "numeric result of ConvertToCurrent (C01/C02)",
    ]


def _state_writes(m, fn):
    """[(node, field, kind)] writes to manager state in fn."""
    res = Resolver(m, fn)
    out = []
    selfn = fn.params[0] if fn.params else "self"

    def field_of(e):
        t = res.term(e)
        for a in alternatives(t):
            x = a
            while x[0] in ("sub", "elem"):
                x = x[1]
            if x[0] == "field" and x[1] in STATE:
                return x[1]
            if x[0] == "call" and x[1] == ("field", "GetUnitSystems"):
                return "_unit_systems"
        return None

    for n in own_nodes(fn.node):
        if isinstance(n, (ast.Assign, ast.AnnAssign, ast.AugAssign)):
            targets = n.targets if isinstance(n, ast.Assign) else [n.target]
            if isinstance(n, ast.AnnAssign) and n.value is None:
                continue
            for t in targets:
                for x in (t.elts if isinstance(t, (ast.Tuple, ast.List)) else [t]):
                    if isinstance(x, ast.Attribute) and isinstance(x.value, ast.Name) and x.value.id == selfn and x.attr in STATE:
                        out.append((n, x.attr, "store"))
                    elif isinstance(x, ast.Subscript):
                        f = field_of(x.value)
                        if f:
                            out.append((n, f, "item-store"))
        elif isinstance(n, ast.Delete):
            for x in n.targets:
                if isinstance(x, ast.Subscript):
                    f = field_of(x.value)
                    if f:
                        out.append((n, f, "del"))
        elif isinstance(n, ast.Call) and isinstance(n.func, ast.Attribute) and n.func.attr in MUTATORS:
            f = field_of(n.func.value)
            if f:
                out.append((n, f, "call." + n.func.attr))
    return out


def r1_writers(rep, ctx):
    m = ctx.model
    m.cls(M)
    n = 0
    for fn in m.funcs.values():
        if not fn.path.endswith("unit_system_manager.py"):
            continue
        for node, field, kind in _state_writes(m, fn):
            n += 1
            ok = fn.cls == M and (fn.name in STATE[field] or fn.name == "__init__")
            rep.check(ok, "C17.R1", "%s:%s:%s" % (fn.qual.split(".", 2)[-1], field, norm(ast.unparse(node))[:70]),
                      "%s is written by %s" % (field, fn.name), "%s is written (%s) by %s, which is not its designated writer" % (field, kind, fn.qual), node=node, fn=fn)
    # stores through a non-self receiver anywhere in the library
    for fn in m.funcs.values():
        if fn.path.endswith("posc.py"):
            continue
        for x in own_nodes(fn.node):
            if isinstance(x, ast.Attribute) and isinstance(x.ctx, ast.Store) and x.attr in STATE and not (isinstance(x.value, ast.Name) and fn.params and x.value.id == fn.params[0] and fn.cls == M):
                n += 1
                rep.bad("C17.R1", "%s:%s:foreign-store" % (fn.qual.split(".", 2)[-1], x.attr), "%s of the manager is stored from outside the manager" % x.attr, node=x, fn=fn)
    rep.floor("C17.R1", "state writes", n, 3)


def _calls(fn, name):
    return [c for c in own_nodes(fn.node) if isinstance(c, ast.Call) and isinstance(c.func, ast.Attribute) and c.func.attr == name]


def r2_check_before_write(rep, ctx):
    m = ctx.model
    total = 0
    for name in ("AddUnitSystem", "RemoveUnitSystem", "SetTemplateUnitSystemByUnitsMapping", "SetCurrent"):
        fn = m.method(M, name)
        cfg = CFG(fn.node)
        writes = [(n, "%s (%s)" % (f, k)) for n, f, k in _state_writes(m, fn)]
        writes += [(c, "SetCurrent(...)") for c in _calls(fn, "SetCurrent")]
        for node, what in writes:
            total += 1
            nid = cfg.node_of(node)
            after = [x for x in cfg.reach(nid) if cfg.kind[x] in ("raise", "assert")]
            lines = sorted(getattr(cfg.ast[x], "lineno", 0) for x in after)
            rep.check(not after, "C17.R2", "%s:%s" % (name, norm(ast.unparse(node))[:70]),
                      "no raise/assert is reachable after the write to %s" % what,
                      "a rejected call can leave the manager changed: after the write to %s the raise/assert at line(s) %s is reachable" % (what, lines),
                      node=node, fn=fn, facts={"entry": fn.qual, "offending_exit_lines": lines})
    rep.floor("C17.R2", "writes in manager methods", total, 3)
    # uniqueness
    fn = m.method(M, "AddUnitSystem")
    cfg = CFG(fn.node)
    res = Resolver(m, fn)
    stores = [n for n, f, k in _state_writes(m, fn) if f == "_unit_systems" and k == "item-store"]
    if not stores:
        raise AnalysisError("AddUnitSystem: store into _unit_systems not found")
    for st in stores:
        key_t = res.term(st.targets[0].slice)
        ok = False
        for e, val in cfg.facts_at(cfg.node_of(st)):
            if isinstance(e, ast.Compare) and len(e.ops) == 1 and ((isinstance(e.ops[0], ast.In) and not val) or (isinstance(e.ops[0], ast.NotIn) and val)):
                if res.term(e.left) == key_t and any(s == ("field", "_unit_systems") or s == ("call", ("field", "GetUnitSystems"), (), ()) for s in walk(res.term(e.comparators[0]))):
                    ok = True
        rep.check(ok, "C17.R2", "AddUnitSystem:id-unique", "the system is registered only under an id that is not yet in the registry",
                  "the registration is not dominated by an 'id not in registry' test on the same id: a second system silently replaces the first", node=st, fn=fn)
        # template coverage: when a template exists and a mapping was given, the coverage test dominates
        def coverage_in(f2, mapping_param):
            """In f2: a test on _CheckUnitSystemMapping(<mapping_param>, <template categories>) whose 'no match' edge must-raise."""
            c2 = CFG(f2.node)
            r2 = Resolver(m, f2, inline=False)
            for c in _calls(f2, "_CheckUnitSystemMapping"):
                for nid in c2.nodes("test"):
                    t = r2.term(c2.ast[nid])
                    if any(s2[0] == "call" and s2[1] == ("field", "_CheckUnitSystemMapping") for s2 in walk(t)):
                        # `not match` is split by the CFG: the leaf is `match`, its F edge means "no match"
                        if c2.must_raise_from([(nid, "F")]):
                            args = c.args
                            if len(args) == 2 and all(a[0] == "param" and a[2] == mapping_param for a in alternatives(r2.term(args[0]))) \
                                    and any(s2[0] == "call" and s2[1][0] == "attr" and s2[1][2] == "GetUnitsMapping" for s2 in walk(r2.term(args[1]))):
                                return True
            return False

        covered = coverage_in(fn, "units_mapping")
        if not covered:
            # the check may live in a helper introduced later, called (with the mapping) before the registration
            from ..anchors import KNOWN_FUNCTIONS
            for c in own_nodes(fn.node):
                if isinstance(c, ast.Call) and isinstance(c.func, ast.Attribute) and c.func.attr not in KNOWN_FUNCTIONS and isinstance(c.func.value, ast.Name) and c.func.value.id == fn.params[0]:
                    g = m.lookup(M, c.func.attr)
                    if g is None:
                        continue
                    pos = [i for i, a in enumerate(c.args) if isinstance(a, ast.Name) and a.id == "units_mapping"]
                    if pos and cfg.dominated_by_node(cfg.node_of(st), lambda k, a, c=c: a is cfg.ast[cfg.node_of(c)]):
                        gp = [p_ for p_ in g.params if p_ not in ("self", "cls")]
                        if pos[0] < len(gp) and coverage_in(g, gp[pos[0]]):
                            covered = True
        rep.check(covered, "C17.R2", "AddUnitSystem:template-coverage", "a given mapping is checked against the template's categories and a mismatch must-raise before registration",
                  "AddUnitSystem does not reject (before registering) a mapping that misses template categories, or checks the wrong operands", node=st, fn=fn)
    # SetTemplate...: the new template is stored only after *every* registered system was checked against it
    st_fn = m.method(M, "SetTemplateUnitSystemByUnitsMapping")
    scfg = CFG(st_fn.node)
    sres = Resolver(m, st_fn)
    tstores = [n for n, f, k in _state_writes(m, st_fn) if f == "_unit_system_template"]
    loops = [lp for lp in own_statements(st_fn.node) if isinstance(lp, ast.For)]
    def whole_registry(a):
        if a in (("field", "_unit_systems"), ("call", ("field", "GetUnitSystems"), (), ())):
            return True
        if a[0] == "call" and a[1] in (("name", "list"), ("name", "tuple")) and len(a[2]) == 1:
            return whole_registry(a[2][0])
        if a[0] == "call" and a[1][0] == "attr" and a[1][2] in ("values", "items") and not a[2]:
            return whole_registry(a[1][1])
        return False

    ok_iter = False
    collectors = set()  # locals that gather the systems failing the check
    for lp in loops:
        t = sres.term(lp.iter)
        direct = all(whole_registry(a) for a in alternatives(t))
        if direct and tstores and scfg.dominated_by_node(scfg.node_of(tstores[0]), lambda k, a, lp=lp: a is lp):
            checks_ = [c for c in own_nodes(lp) if isinstance(c, ast.Call) and sres.term(c.func) == ("field", "_CheckUnitSystemMapping")]
            collectors |= {c.func.value.id for c in own_nodes(lp) if isinstance(c, ast.Call) and isinstance(c.func, ast.Attribute) and c.func.attr in ("append", "add") and isinstance(c.func.value, ast.Name)}
            H = scfg.node_of(lp)
            every = bool(checks_) and H not in scfg.reach(H, avoid={scfg.node_of(c) for c in checks_}, start_edges={"T"})
            ok_iter = every
    if not ok_iter and tstores:
        # comprehension form: [.. for us in <whole registry> if not self._CheckUnitSystemMapping(..)]
        for st_ in own_statements(st_fn.node):
            if isinstance(st_, ast.Assign) and isinstance(st_.value, (ast.ListComp, ast.SetComp, ast.GeneratorExp)) and len(st_.value.generators) == 1:
                g = st_.value.generators[0]
                t = sres.term(g.iter)
                filt = any(isinstance(c, ast.Call) and sres.term(c.func) == ("field", "_CheckUnitSystemMapping") for i_ in g.ifs for c in ast.walk(i_))
                if all(whole_registry(a) for a in alternatives(t)) and filt and scfg.dominated_by_node(scfg.node_of(tstores[0]), lambda k, a, st_=st_: a is st_):
                    ok_iter = True
                    collectors |= {t_.id for t_ in st_.targets if isinstance(t_, ast.Name)}
    # operands of the check: (mapping of the registered system, categories of the *new* template)
    P_MAP = ("param", st_fn.params.index("units_mapping"), "units_mapping")
    all_checks = [c for c in own_nodes(st_fn.node) if isinstance(c, ast.Call) and sres.term(c.func) == ("field", "_CheckUnitSystemMapping")]
    for c in all_checks:
        a_ = [sres.term_in_context(x) for x in c.args[:2]]
        from ..terms import params_in
        sys_side = len(a_) == 2 and all(x[0] == "call" and x[1][0] == "attr" and x[1][2] == "GetUnitsMapping" and x[1][1][0] == "elem" and all(whole_registry(y) for y in alternatives(x[1][1][1]))
                                         for x in alternatives(a_[0]))
        tmpl_side = len(a_) == 2 and any(x == P_MAP for x in walk(a_[1])) and not any(x[0] == "elem" for x in walk(a_[1]))
        rep.check(bool(sys_side and tmpl_side), "C17.R2", "SetTemplate:check-operands", "each registered system's mapping is checked against the categories of the new template",
                  "the coverage check is called with (%s): not (mapping of the registered system, categories of the new template) - a template that a registered system does not cover is accepted" % ", ".join(show(x, 70) for x in a_), node=c, fn=st_fn)
    rep.check(ok_iter, "C17.R2", "SetTemplate:every-system-checked", "the template is stored only after a loop over all registered systems checked each of them against it",
              "the new template can be stored without checking every registered system against it (the loop does not iterate the registry itself on every path, or skips systems): a template that a registered system does not cover is accepted",
              node=tstores[0] if tstores else None, fn=st_fn)
    inv_ok = False
    for nid in scfg.nodes("test"):
        e = scfg.ast[nid]
        if isinstance(e, ast.Name) and (e.id in collectors or any(isinstance(st_, ast.Assign) and any(isinstance(t_, ast.Name) and t_.id in collectors for t_ in st_.targets) for st_, _ in sres.origins(e) if st_ is not None)
                                        or any(isinstance(x, ast.Name) and x.id in collectors for ch in [sres.origins(e)] for ch2 in sres.origin_chains for st_ in ch2 if st_ is not None for x in ast.walk(st_.value))):
            inv_ok = scfg.must_raise_from([(nid, "T")]) and tstores and (nid, "F") in scfg.dominating_edges(scfg.node_of(tstores[0]))
    rep.check(bool(inv_ok), "C17.R2", "SetTemplate:mismatch-must-raise", "a non-covering system must-raise InvalidTemplateError before the template is stored", "a non-covering registered system does not prevent the template from being stored", fn=st_fn)
    chk = m.method(M, "_CheckUnitSystemMapping")
    cres = Resolver(m, chk)
    rets = [r for r in own_nodes(chk.node) if isinstance(r, ast.Return) and r.value is not None]
    ok = False
    for r in rets:
        t = cres.term(r.value)
        # set(keys of param 1).issuperset(set(param 2))
        if t[0] == "call" and t[1][0] == "attr" and t[1][2] == "issuperset":
            recv_params = {s[1] for s in walk(t[1][1]) if s[0] == "param"}
            arg_params = {s[1] for a in t[2] for s in walk(a) if s[0] == "param"}
            ok = recv_params == {1} and arg_params == {2}
        elif t[0] == "call" and t[1][0] == "attr" and t[1][2] == "issubset":
            recv_params = {s[1] for s in walk(t[1][1]) if s[0] == "param"}
            arg_params = {s[1] for a in t[2] for s in walk(a) if s[0] == "param"}
            ok = recv_params == {2} and arg_params == {1}
        elif t[0] == "op" and t[1] in ("cmp:GtE", "cmp:LtE") and len(t[2]) == 2 and all(x[0] == "call" and x[1] in (("name", "set"), ("name", "frozenset")) for x in t[2]):
            # set(mapping) >= set(required)   /   set(required) <= set(mapping)
            big, small = (t[2][0], t[2][1]) if t[1] == "cmp:GtE" else (t[2][1], t[2][0])
            ok = {s[1] for s in walk(big) if s[0] == "param"} == {1} and {s[1] for s in walk(small) if s[0] == "param"} == {2}
    rep.check(ok, "C17.R2", "_CheckUnitSystemMapping:direction", "coverage means: the mapping's categories are a superset of the required categories",
              "_CheckUnitSystemMapping does not test mapping-categories ⊇ required-categories", fn=chk)


CURRENT_TERMS = [("field", "_current")]


def _is_current_test(e, res):
    """leaf `<current system> is not None` -> 'T' (the T edge means: there is one); `is None` -> 'F'.
    The current system is self._current or, inside SetCurrent, the value being stored into it."""
    if isinstance(e, ast.Compare) and len(e.ops) == 1 and isinstance(e.comparators[0], ast.Constant) and e.comparators[0].value is None:
        fres = getattr(res, "flowres", None)
        if res.term(e.left) in CURRENT_TERMS or (fres is not None and fres.term(e.left) in CURRENT_TERMS):
            return "T" if isinstance(e.ops[0], ast.IsNot) else "F" if isinstance(e.ops[0], ast.Is) else None
    return None


def r3_pairing(rep, ctx):
    m = ctx.model
    fn = m.method(M, "SetCurrent")
    res = Resolver(m, fn, flow=False)
    res.flowres = Resolver(m, fn)  # (tests of a local that holds the current system at that point)
    cfg = CFG(fn.node)
    stores = [n for n, f, k in _state_writes(m, fn) if f == "_current" and k == "store"]
    if not stores:
        raise AnalysisError("SetCurrent: no store of _current found")
    del CURRENT_TERMS[1:]
    # "no current system" has one representation, None (AddUnitSystem and RemoveUnitSystem test `_current is None`,
    # GetCurrent maps it to the null system): the null system itself is never stored as the current one
    for st0 in stores:
        alts = [a_ for x in walk(res.term(st0.value)) for a_ in alternatives(x)]
        nulls = [a_ for a_ in alts if a_[0] == "field" and a_[1].endswith("null_unit_system")]
        rep.check(not nulls, "C17.R3", "SetCurrent:none-is-the-only-no-current-state:%s" % norm(ast.unparse(st0))[:60], "the null system is never stored as the current system (None stands for 'no current system')",
                  "SetCurrent stores the null unit system into _current: the tests `_current is None` (a system added while none is current becomes current; removal re-selects) no longer recognise that no system is current", node=st0, fn=fn)
    for st0 in stores:
        stored_t = res.term(st0.value)
        if stored_t[0] == "param" and stored_t not in CURRENT_TERMS:
            CURRENT_TERMS.append(stored_t)
    if len(stores) > 1:
        # several stores (an early exit for one argument form): each one is held to the unregister rule, and to the
        # notification rule; the store of a system other than None also to the register rule
        for st0 in stores:
            _one_store(rep, m, fn, res, cfg, st0, suffix=":line-order-%d" % sorted(x.lineno for x in stores).index(st0.lineno))
        return
    _one_store(rep, m, fn, res, cfg, stores[0], suffix="")


def _one_store(rep, m, fn, res, cfg, store, suffix):
    stores = [store]
    S = cfg.node_of(stores[0])
    stored_t = res.term(stores[0].value)
    stores_none = stored_t == ("const", None)
    unreg = [c for c in _calls(fn, "Unregister")]
    reg = [c for c in _calls(fn, "Register")]
    # tests on _current: label of the edge meaning "there is a current system"
    has_edges = set()
    none_edges = set()
    for nid in cfg.nodes("test"):
        lab = _is_current_test(cfg.ast[nid], res)
        if lab:
            other = "F" if lab == "T" else "T"
            for (b, l2) in cfg.succ[nid]:
                if l2 == lab:
                    has_edges.add((nid, b, l2))
                elif l2 == other:
                    none_edges.add((nid, b, l2))
    # --- Unregister(old) before the store on every path where an old system exists
    un_nodes = {cfg.node_of(c) for c in unreg if cfg.node_of(c) not in cfg.reach(S) or True}
    pre_un = {n for n in un_nodes if S in cfg.reach(n)}
    def on_old(e):
        # a test on the *old* current system: the field itself, evaluated before the store
        leaf = cfg.ast[e[0]]
        return isinstance(leaf, ast.Compare) and res.term(leaf.left) == ("field", "_current")
    reach = cfg.reach(cfg.ENTRY, avoid=pre_un, avoid_edges={e for e in none_edges if S in cfg.reach(e[0]) and e[0] not in cfg.reach(S) and on_old(e)})
    ok_un = bool(pre_un) and S not in reach
    rep.check(ok_un, "C17.R3", "SetCurrent:unregister-old" + suffix,
              "every path to the store of _current either unregisters the old system's listener or had no old system",
              "a path reaches the store of _current with an old current system whose on_default_unit listener is not unregistered (it keeps feeding on_unit_changed after it stops being current)"
              if pre_un else "SetCurrent never unregisters the old system's listener before replacing it", node=stores[0], fn=fn,
              facts={"entry": fn.qual, "offending_exit": "store of _current at line %d" % stores[0].lineno})
    # --- Register(new) after the store on every path where the new system is not None
    post_reg = {cfg.node_of(c) for c in reg if cfg.node_of(c) in cfg.reach(S)}
    post_none_edges = {e for e in none_edges if e[0] in cfg.reach(S)}
    r2 = cfg.reach(S, avoid=post_reg, avoid_edges=post_none_edges)
    ok_reg = stores_none or (bool(post_reg) and cfg.EXIT not in r2)
    rep.check(ok_reg, "C17.R3", "SetCurrent:register-new" + suffix,
              "after the store, every path registers the listener on the new system unless it is None",
              "after the store of _current a path reaches the exit without registering the listener on the new current system: its default-unit changes are not forwarded", node=stores[0], fn=fn)
    # --- same callback on both sides, receivers are the current system's on_default_unit
    def cb(c):
        return ast.unparse(c.args[0]) if c.args else None
    same = suffix not in ("", ":line-order-0") or (bool(unreg) and bool(reg) and {cb(c) for c in unreg} == {cb(c) for c in reg} and len({cb(c) for c in reg}) == 1)
    recv = all(res.term(c.func.value)[0] == "attr" and res.term(c.func.value)[2] == "on_default_unit" and res.term(c.func.value)[1] in CURRENT_TERMS for c in unreg + reg) \
        and all(res.term(c.func.value)[1] == ("field", "_current") for c in unreg)
    rep.check(bool(same and recv), "C17.R3", "SetCurrent:same-callback" + suffix, "Unregister and Register use the same callback on the current system's on_default_unit",
              "Unregister/Register do not pair: callbacks %s vs %s" % (sorted({cb(c) for c in unreg}), sorted({cb(c) for c in reg})), fn=fn)
    # --- on_current fires on every path after the store
    fire = {cfg.node_of(c) for c in own_nodes(fn.node) if isinstance(c, ast.Call) and isinstance(c.func, ast.Attribute) and c.func.attr == "on_current"}
    ok_fire = bool(fire) and cfg.EXIT not in cfg.reach(S, avoid=fire)
    rep.check(ok_fire, "C17.R3", "SetCurrent:on_current-fires" + suffix, "on_current is called on every path after the store", "a path from the store of _current to the exit does not call on_current", node=stores[0], fn=fn)
    # --- argument of on_current: the new current system, or the null system in the None arm
    for c in (own_nodes(fn.node) if suffix in ("", ":line-order-0") else []):
        if isinstance(c, ast.Call) and isinstance(c.func, ast.Attribute) and c.func.attr == "on_current":
            t = res.term(c.args[0]) if c.args else ("const", None)

            def none_arm(node):
                return any((_is_current_test(e, res) == "T" and not v) or (_is_current_test(e, res) == "F" and v) for e, v in cfg.facts_at(cfg.node_of(node)))

            # each value the argument can hold is judged where it is chosen (its defining statement, or the call)
            okarg = bool(c.args)
            for st_, t_ in (res.origins(c.args[0]) if c.args else []):
                site = st_ if st_ is not None else c
                for a_ in alternatives(t_):
                    in_none_arm = none_arm(site) or none_arm(c)
                    okarg = okarg and ((a_ in CURRENT_TERMS and not in_none_arm) or (in_none_arm and a_[0] == "field" and "null" in a_[1]))
            rep.check(okarg, "C17.R3", "SetCurrent:on_current-arg:%s" % norm(ast.unparse(c)), "listeners receive the new current system (the null system when None)",
                      "on_current is called with %s" % show(t), node=c, fn=fn)


def r4_selection(rep, ctx):
    m = ctx.model
    add = m.method(M, "AddUnitSystem")
    cfg = CFG(add.node)
    res = Resolver(m, add)
    calls = _calls(add, "SetCurrent")
    stores = [n for n, f, k in _state_writes(m, add) if f == "_unit_systems" and k == "item-store"]
    if len(calls) != 1 or len(stores) != 1:
        raise AnalysisError("AddUnitSystem: expected one SetCurrent call and one registry store")
    c = calls[0]
    facts = cfg.facts_at(cfg.node_of(c))
    guarded = [(e, v) for e, v in facts if _is_current_test(e, res)]
    only_when_none = len(guarded) == 1 and ((_is_current_test(guarded[0][0], res) == "F" and guarded[0][1]) or (_is_current_test(guarded[0][0], res) == "T" and not guarded[0][1]))
    after_store = cfg.reach(cfg.node_of(stores[0]))
    other_guards = [e for e, v in facts if not _is_current_test(e, res) and cfg.by_ast.get(id(e)) in after_store]
    # reached on every path after the store when _current is None
    S = cfg.node_of(stores[0])
    has_edges = set()
    for nid in cfg.nodes("test"):
        lab = _is_current_test(cfg.ast[nid], res)
        if lab:
            for (b, l2) in cfg.succ[nid]:
                if l2 == ("T" if lab == "T" else "F") and lab == "T":
                    has_edges.add((nid, b, l2))
                if lab == "F" and l2 == "F":
                    has_edges.add((nid, b, l2))
    always = cfg.EXIT not in cfg.reach(S, avoid={cfg.node_of(c)}, avoid_edges=has_edges)
    same_obj = res.term(c.args[0]) == res.term(stores[0].value) if c.args else False
    rep.check(only_when_none and always and same_obj and not other_guards, "C17.R4", "AddUnitSystem:selects-iff-none-current",
              "the newly registered system becomes current exactly when no system is current",
              "AddUnitSystem: %s" % "; ".join(w for w, bad in (("SetCurrent is not guarded by exactly '_current is None'", not only_when_none),
                                                               ("a path with no current system skips SetCurrent", not always),
                                                               ("the selected object is not the registered one", not same_obj),
                                                               ("extra conditions guard the selection", bool(other_guards))) if bad), node=c, fn=add)
    rem = m.method(M, "RemoveUnitSystem")
    rres = Resolver(m, rem)
    rcfg = CFG(rem.node)
    rcalls = _calls(rem, "SetCurrent")
    rep.floor("C17.R4", "SetCurrent calls in RemoveUnitSystem", len(rcalls), 1)
    for c in rcalls:
        t = rres.term(c.args[0]) if c.args else ("const", None)
        from_registry = all(a == ("const", None) or any(s == ("field", "_unit_systems") or s == ("call", ("field", "GetUnitSystems"), (), ()) for s in walk(a)) for a in alternatives(t))
        rep.check(from_registry, "C17.R4", "RemoveUnitSystem:reselect:%s" % norm(ast.unparse(c)), "the re-selected system is drawn from the registry (or None)",
                  "RemoveUnitSystem selects %s, which does not come from the registry" % show(t), node=c, fn=rem)
        facts = rcfg.facts_at(rcfg.node_of(c))
        idtest = any(isinstance(e, ast.Compare) and isinstance(e.ops[0], ast.Eq) and v and any(s[0] == "call" and s[1][0] == "attr" and s[1][2] == "GetId" for s in walk(rres.term(e)))
                     and any(s[0] == "param" for s in walk(rres.term(e))) for e, v in facts)
        rep.check(idtest, "C17.R4", "RemoveUnitSystem:only-if-current-removed:%s" % norm(ast.unparse(c)), "re-selection happens only when the removed id is the current system's id",
                  "RemoveUnitSystem re-selects without testing that the removed system was the current one", node=c, fn=rem)
    # removing the current system must always re-select: the del is followed on the 'is current' path by a SetCurrent
    dels = [n for n, f, k in _state_writes(m, rem) if f == "_unit_systems"]
    if not dels:
        raise AnalysisError("RemoveUnitSystem: registry deletion not found")
    # public SetCurrent: membership guard
    sc = m.method(M, "SetCurrent")
    scfg = CFG(sc.node)
    sres = Resolver(m, sc)
    st = [n for n, f, k in _state_writes(m, sc) if f == "_current"][0]
    facts = scfg.facts_at(scfg.node_of(st))
    member = any(any(s == ("field", "_unit_systems") or s == ("call", ("field", "GetUnitSystems"), (), ()) for s in walk(sres.term(e))) for e, v in facts)
    rep.check(member, "C17.R4", "SetCurrent:membership-guard", "SetCurrent accepts only a registered system or None",
              "public SetCurrent stores its argument without testing that it is a registered system: an unregistered system can become current", node=st, fn=sc)


def r5_notify(rep, ctx):
    m = ctx.model
    for name, mut_kind in (("SetDefaultUnit", "store"), ("RemoveCategory", "del")):
        fn = m.method("UnitSystem", name)
        cfg = CFG(fn.node)
        res = Resolver(m, fn)
        muts = [n for n in own_nodes(fn.node) if (isinstance(n, ast.Assign) and isinstance(n.targets[0], ast.Subscript)) or isinstance(n, ast.Delete)
                or (isinstance(n, ast.Call) and isinstance(n.func, ast.Attribute) and n.func.attr in ("pop", "update", "setdefault") and res.term(n.func.value) == ("field", "_units_mapping"))]
        fires = [c for c in own_nodes(fn.node) if isinstance(c, ast.Call) and isinstance(c.func, ast.Attribute) and c.func.attr == "on_default_unit"]
        if not muts:
            raise AnalysisError("UnitSystem.%s: mutation of the mapping not found" % name)
        for mu in muts:
            mn = cfg.node_of(mu)
            fire_nodes = {cfg.node_of(c) for c in fires}
            after = bool(fire_nodes) and cfg.EXIT not in cfg.reach(mn, avoid=fire_nodes, avoid_edges={(mn, b, l) for (b, l) in cfg.succ[mn] if l == "exc"})
            before = any(mn in cfg.reach(f) and f not in cfg.reach(mn) for f in fire_nodes)
            rep.check(after and not before, "C17.R5", "UnitSystem.%s:notify-after-mutation" % name, "on_default_unit fires after the mapping was changed, on every mutating path",
                      "UnitSystem.%s: %s" % (name, "listeners are notified before the mapping is changed" if before else "a mutating path does not notify on_default_unit"), node=mu, fn=fn)
        # ... and only then: a notification is reached only through a statement that certainly changed the mapping
        # (a store, `del m[k]` / `m.pop(k)` which raise when there is nothing to remove, or a removal under `k in m`)
        from ..facts import facts as nfacts
        definite = set()
        for mu in muts:
            mn = cfg.node_of(mu)
            if isinstance(mu, (ast.Assign, ast.Delete)):
                definite.add(mn)
            elif isinstance(mu, ast.Call) and mu.func.attr == "pop":
                if len(mu.args) == 1 and not mu.keywords:
                    definite.add(mn)
                elif any(k == "in" and pos and r_ is not None and res.term(r_) == ("field", "_units_mapping") for k, l, r_, pos in nfacts(cfg, mn)):
                    definite.add(mn)
                elif not isinstance(getattr(mu, "_parent", None), ast.Expr):
                    raise AnalysisError("UnitSystem.%s: the result of `%s` is used: whether a notification follows only a real removal cannot be read off" % (name, norm(ast.unparse(mu))))
        done_edges = {(mn, b, l) for mn in definite for (b, l) in cfg.succ[mn] if l != "exc"}
        free = cfg.reach(cfg.ENTRY, avoid_edges=done_edges)
        for c in fires:
            rep.check(cfg.node_of(c) not in free, "C17.R5", "UnitSystem.%s:notify-only-after-mutation" % name, "on_default_unit fires only after the mapping was certainly changed",
                      "UnitSystem.%s can notify on_default_unit on a path where the mapping was not changed (nothing to remove): listeners hear of a default-unit change that did not happen" % name, node=c, fn=fn)
        for c in fires:
            args = [res.term(a) for a in c.args]
            cat_ok = len(args) == 2 and args[0][0] == "param" and args[0][2] == "category"
            unit_ok = len(args) == 2 and ((name == "SetDefaultUnit" and args[1][0] == "param" and args[1][2] == "unit") or (name == "RemoveCategory" and args[1] == ("const", None)))
            rep.check(cat_ok and unit_ok, "C17.R5", "UnitSystem.%s:notify-args" % name, "listeners receive (category, new unit)", "listeners receive %s" % [show(a) for a in args], node=c, fn=fn)
    fwd = m.method(M, "_CategoryUnitChange")
    res = Resolver(m, fwd)
    calls = [c for c in own_nodes(fwd.node) if isinstance(c, ast.Call) and isinstance(c.func, ast.Attribute) and c.func.attr == "on_unit_changed"]
    ok = len(calls) == 1 and [res.term(a) for a in calls[0].args] == [("param", 1, fwd.params[1]), ("param", 2, fwd.params[2])]
    rep.check(ok, "C17.R5", "_CategoryUnitChange:forwards", "the manager forwards (category, unit) unchanged to on_unit_changed", "_CategoryUnitChange does not forward its two arguments to on_unit_changed", fn=fwd)


def r6_capture(rep, ctx):
    m = ctx.model
    add = m.method(M, "AddUnitSystem")
    res = Resolver(m, add)
    ctor = [c for c in own_nodes(add.node) if isinstance(c, ast.Call) and isinstance(c.func, ast.Attribute) and c.func.attr == "_default_unit_system_class"]
    if len(ctor) != 1 or len(ctor[0].args) < 3:
        raise AnalysisError("AddUnitSystem: construction of the unit system not found")
    t = res.term(ctor[0].args[2])
    bad = []
    for a in alternatives(t):
        fresh = a[0] == "call" and a[1] in (("name", "deepcopy"), ("attr", ("name", "copy"), "deepcopy"), ("name", "dict")) or a == ("expr", "{}") or a[0] == "param" or (a[0] == "call" and a[1] == ("name", "dict"))
        if a[0] in ("expr",) and a[1] == "{}":
            fresh = True
        if not fresh:
            bad.append(show(a, 80))
    rep.check(not bad, "C17.R6", "AddUnitSystem:mapping-not-aliased", "the mapping given to a new system is the caller's own, a deep copy of the template's, or a new dict",
              "AddUnitSystem builds a system on %s: the system shares its mapping with the template (and with its siblings), so default-unit changes leak between systems without notification" % bad, node=ctor[0], fn=add)
    us = m.method("UnitSystem", "__init__")
    ures = Resolver(m, us)
    for st in own_statements(us.node):
        if isinstance(st, ast.Assign) and isinstance(st.targets[0], ast.Attribute) and st.targets[0].attr == "_units_mapping":
            t = ures.term(st.value)
            copied = all(a[0] == "call" and a[1] in (("name", "dict"), ("name", "deepcopy"), ("attr", ("name", "copy"), "deepcopy"), ("attr", ("name", "copy"), "copy")) or (a[0] == "call" and a[1][0] == "attr" and a[1][2] == "copy") for a in alternatives(t))
            rep.check(copied, "C17.R6", "UnitSystem.__init__:mapping-by-reference", "a unit system owns a copy of the mapping it was built from",
                      "UnitSystem keeps the caller's dict by reference and later mutates it (SetDefaultUnit / RemoveCategory): two systems built from one dict share defaults, and a change made through one is never notified by the other", node=st, fn=us)


def r7_convert(rep, ctx):
    m = ctx.model
    fn = m.method(M, "ConvertToCurrent")
    res = Resolver(m, fn)
    cfg = CFG(fn.node)
    P = {p: i for i, p in enumerate(fn.params)}
    rets = [r for r in own_nodes(fn.node) if isinstance(r, ast.Return) and r.value is not None]
    n_conv = 0
    for r in rets:
        t = res.term(r.value)
        key = "ConvertToCurrent:%s" % norm(ast.unparse(r))
        if t[0] != "tuple" or len(t[1]) != 2:
            rep.bad("C17.R7", key, "ConvertToCurrent does not return a (value, unit) pair", node=r, fn=fn)
            continue
        v, u = t[1]
        if v == ("param", P["value"], "value"):
            # unchanged arm: must return the given unit and be guarded by 'no default'
            # every path to the unchanged return passed a test about the current system / its default unit
            tests_ = {nid for nid in cfg.nodes("test") if any((s[0] == "call" and s[1][0] == "attr" and s[1][2] in ("GetDefaultUnit",)) or s in (("field", "current"), ("call", ("field", "GetCurrent"), (), ()), ("field", "_current")) for s in walk(res.term(cfg.ast[nid])))}
            guarded = bool(tests_) and cfg.node_of(r) not in cfg.reach(cfg.ENTRY, avoid=tests_)
            rep.check(u == ("param", P["unit"], "unit") and guarded, "C17.R7", key, "without a current default unit the inputs are returned unchanged",
                      "ConvertToCurrent returns the unconverted value with %s" % ("another unit" if u != ("param", P["unit"], "unit") else "no test that there is no default unit"), node=r, fn=fn)
            continue
        n_conv += 1
        ok = False
        for a in alternatives(v):
            if a[0] == "call" and a[1][0] == "attr" and a[1][2] == "Convert" and len(a[2]) == 4:
                cat, fr, to, val = a[2]
                to_ok = all(x[0] == "call" and x[1][0] == "attr" and x[1][2] == "GetDefaultUnit" and x[2] and x[2][0] == ("param", P["category"], "category") for x in alternatives(to))
                ok = cat == ("param", P["category"], "category") and fr == ("param", P["unit"], "unit") and val == ("param", P["value"], "value") and to_ok and u == to
        rep.check(ok, "C17.R7", key, "the value is converted from the given unit to the current system's default unit of the category, and that unit is returned",
                  "ConvertToCurrent returns %s" % show(t, 160), node=r, fn=fn)
    rep.floor("C17.R7", "converting returns", n_conv, 1)
    sc = m.method(M, "ConvertScalarToCurrent")
    sres = Resolver(m, sc)
    calls = _calls(sc, "ConvertToCurrent")
    if len(calls) != 1:
        raise AnalysisError("ConvertScalarToCurrent: call of ConvertToCurrent not found")
    args = [sres.term(a) for a in calls[0].args]
    def getter(t, names):
        return t[0] == "call" and t[1][0] == "attr" and t[1][1][0] == "param" and t[1][2] in names and not t[2] or (t[0] == "attr" and t[1][0] == "param" and t[2] in names)
    ok = len(args) >= 3 and getter(args[0], ("GetCategory", "category")) and getter(args[1], ("GetUnit", "unit")) and getter(args[2], ("GetValue", "value", "GetAbstractValue"))
    rep.check(ok, "C17.R7", "ConvertScalarToCurrent:args", "the scalar's own category, unit and value are handed to ConvertToCurrent in that order",
              "ConvertScalarToCurrent passes %s" % [show(a) for a in args], node=calls[0], fn=sc)
