"""C18  Fractional values keep their numeric meaning."""
import ast

from ..cfg import CFG
from ..report import AnalysisError, borrow, norm
from ..srcmodel import own_nodes, own_statements, program_order
from ..terms import Resolver, alternatives, canon, show, walk

PROP = "C18"
EXHAUSTIVE = False
EXPLANATION = (
    "R1 FractionValue: __float__ is number + float(fraction); each of the four order dunders is defined explicitly and "
    "compares float(self) with float(other) using its own operator (deriving <=, >, >= from the structural __eq__ via "
    "total_ordering would be incoherent for equal amounts split differently); __copy__ rebuilds from the number and both "
    "parts of the fraction. R2 Fraction: every arithmetic dunder applies the matching operator to the wrapped "
    "fractions.Fraction (or is defined through another dunder in the algebraically right way); __eq__ and __lt__ share "
    "one comparison helper, which decides by the sign of the cross-multiplication with self's terms first. R3 sibling "
    "agreement: FractionScalar.__lt__ has the same guard, conversion and comparison as Scalar.__lt__ and its "
    "CheckValidity validates float(value) through the same Quantity.CheckValue; GetAbstractValue converts from the own "
    "unit to the requested one. R4 parts converted separately: ConvertFractionValue converts the number and the "
    "numerator by two separate unit conversions, which is only meaningful if no unit of the table has an offset; the "
    "table has affine rows (exhaustive over the registration log), so the amount changes for them."
)
ASSUMPTIONS = []
TRUSTED = ["fractions.Fraction implements exact rational arithmetic"]

ORDER = {"__lt__": ast.Lt, "__le__": ast.LtE, "__gt__": ast.Gt, "__ge__": ast.GtE}


def run(rep, ctx):
    rep.run_rule("C18.R1", "FractionValue: float is number + fraction; four explicit order dunders on float(); copy keeps both parts", r1_fraction_value, ctx)
    from . import c13
    rep.rule("C18.R6", "a FractionScalar keeps no state besides its value and quantity: validation is recomputed from the held value like a Scalar's (shared with C13.R1)")
    try:
        borrow(rep, c13.r1_writers, ctx, "C13.R1", "C18.R6", keep=lambda o: "FractionScalar" in o.key)
    except AnalysisError as e:
        rep.error("C18.R6", str(e))
    rep.run_rule("C18.R5", "FractionValue.CreateFromString hands the parsed number, numerator and denominator on unchanged (format -> parse keeps the amount)", r5_parse, ctx)
    rep.run_rule("C18.R2", "Fraction: arithmetic dunders apply the matching operator; == and < share one comparison", r2_fraction, ctx)
    rep.run_rule("C18.R3", "FractionScalar agrees with Scalar: ordering, validation and value access", r3_siblings, ctx)
    rep.run_rule("C18.R4", "fraction parts are converted separately: sound only for units without offset", r4_parts, ctx)
    rep.run_rule("C18.R7", "CreateFromFloat: the sign given to the fraction part is the sign of the value itself", r7_sign, ctx)
    rep.run_rule("C18.R8", "CreateFromFloat: a helper that cuts the digits out of str(float) at the '.' also looks for the exponent ('1e-05')", r8_exponent, ctx)
    rep.not_decided += [
        "CreateFromFloat beyond its sign and exponent-notation handling (continued fractions steered by str() of floats)",
        "the format -> parse round trip through the verbose regular expression",
        "exactness of Fraction's normalisation loop (`while abs(a - round(a)) > SMALL`)",
    ]


def r7_sign(rep, ctx):
    """CreateFromFloat works on abs(value) and puts the sign back at the end.  The numerator of the result must be
    multiplied by a faithful sign of the *value*: `value / abs(value)`, copysign, or +-1 chosen by comparing the value
    itself with 0.  A sign read off the truncated integer part (`int(value) < 0`) is lost for -1 < value < 0.
    Only this clause of CreateFromFloat is decided; the digits of the fraction are not."""
    from ..facts import facts as nfacts

    m = ctx.model
    fn = m.method("FractionValue", "CreateFromFloat")
    cfg = CFG(fn.node)
    res = Resolver(m, fn)
    P = ("param", fn.params.index("value"), "value")
    ABS = ("call", ("name", "abs"), (P,), ())

    def faithful(t):
        if t[0] == "op" and t[1] == "Div" and tuple(t[2]) in ((P, ABS), (ABS, P)):
            return True
        return t[0] == "call" and (t[1] == ("name", "copysign") or (t[1][0] == "attr" and t[1][2] == "copysign")) and len(t[2]) == 2 and t[2][1] == P and t[2][0][0] == "const" and t[2][0][1] in (1, 1.0)

    def truncating(t):
        return [s_ for s_ in walk(t) if s_[0] == "call" and (s_[1] in (("name", "int"), ("name", "round")) or (s_[1][0] == "attr" and s_[1][2] in ("trunc", "floor") and False) or (s_[1][0] == "attr" and s_[1][2] == "trunc")) and any(x == P for x in walk(s_))]

    n = 0
    for r in cfg.returns():
        node = cfg.ast[r]
        v = node.value
        if not (isinstance(v, ast.Call) and len(v.args) == 2 and isinstance(v.args[1], ast.Tuple) and len(v.args[1].elts) == 2):
            continue
        n += 1
        num = v.args[1].elts[0]
        verdict = None  # True ok / False lossy
        sides = [num.left, num.right] if isinstance(num, ast.BinOp) and isinstance(num.op, ast.Mult) else []
        why = ""
        for e in sides:
            te = res.term(e)
            if faithful(te):
                verdict = True
                break
            alts = [("const", -a_[2][0][1]) if a_[0] == "op" and a_[1] == "USub" and a_[2][0][0] == "const" and isinstance(a_[2][0][1], (int, float)) else a_ for a_ in alternatives(te)]
            if alts and all(a_[0] == "const" and a_[1] in (1, -1, 1.0, -1.0) for a_ in alts) and {a_[1] for a_ in alts} >= {1} and len({abs(a_[1]) for a_ in alts}) == 1 and len(alts) > 1:
                # +-1 chosen by a test: the test must compare the value itself with 0
                per = []
                for st_, t_ in res.origins(e):
                    site = cfg.node_of(st_) if st_ is not None else r
                    got = None
                    for k, l, r_, pos in nfacts(cfg, site):
                        if k in ("lt", "le", "gt", "ge") and r_ is not None:
                            lt_, rt_ = res.term(l), res.term(r_)
                            for x, y in ((lt_, rt_), (rt_, lt_)):
                                if y[0] == "const" and y[1] in (0, 0.0):
                                    if x == P:
                                        got = True
                                    elif truncating(x) and got is None:
                                        got = False
                                        why = show(x)
                    per.append(got)
                if per and all(g is True for g in per):
                    verdict = True
                    break
                if any(g is False for g in per):
                    verdict = False
        if verdict is None:
            t = res.term(num)
            if True:
                raise AnalysisError("CreateFromFloat: how the numerator `%s` gets its sign was not recognised (%s)" % (norm(ast.unparse(num)), show(t, 120)))
        rep.check(verdict, "C18.R7", "CreateFromFloat:numerator-sign:%s" % norm(ast.unparse(num))[:40], "the numerator carries the sign of the value itself",
                  "the numerator's sign is decided from %s, not from the value: for -1 < value < 0 the integer part is 0 and the sign is lost (CreateFromFloat(-0.375) denotes +0.375)" % why, node=node, fn=fn)
    rep.floor("C18.R7", "fraction-building returns of CreateFromFloat", n, 1)


_LOCATORS = ("find", "rfind", "index", "rindex", "split", "rsplit", "partition", "rpartition")
_TEXT_KEEPING = ("lower", "upper", "strip", "lstrip", "rstrip", "casefold")


def _own(fnode):
    """Nodes of a function definition without the bodies of nested definitions."""
    skip = (ast.FunctionDef, ast.AsyncFunctionDef, ast.Lambda, ast.ClassDef)
    todo = [n for n in fnode.body if not isinstance(n, skip)]
    while todo:
        n = todo.pop()
        yield n
        todo.extend(c for c in ast.iter_child_nodes(n) if not isinstance(c, skip))


def r8_exponent(rep, ctx):
    """str() of a float switches to exponent notation below 1e-4 and from 1e16 on ('1e-05', '1.5e+16').  A function of
    CreateFromFloat (the method body or one of its nested helpers) that takes str()/repr() of a number and then
    *locates the decimal point* in that text (find/index/split/partition on '.') is cutting digits out of it; the cut
    is only right when the same function also looks for the exponent marker in that text ('e' searched with
    find/index/split/partition/`in`, on the text or on its lower()/upper()).  Necessary condition of 'CreateFromFloat
    preserves the amount': without it every value whose fractional part prints with an exponent is read wrong
    (CreateFromFloat(1e-05) denoted 1e-06 before the fix 4f1625f).  A text that is only compared as a whole
    (str(a) == str(b)) carries no obligation.  Decides the presence of the exponent case per digit-cutting function,
    not the arithmetic done with the digits."""
    m = ctx.model
    fn = m.method("FractionValue", "CreateFromFloat")
    defs = [fn.node] + [n for n in ast.walk(fn.node) if isinstance(n, (ast.FunctionDef, ast.AsyncFunctionDef)) and n is not fn.node]
    # helpers hoisted out of the method: module-level functions and FractionValue methods of the same module that
    # CreateFromFloat (transitively) calls by name
    tree = m.trees[fn.path][0]
    toplevel = {n.name: n for n in tree.body if isinstance(n, (ast.FunctionDef, ast.AsyncFunctionDef))}
    methods = {}
    for c in tree.body:
        if isinstance(c, ast.ClassDef) and c.name == "FractionValue":
            methods = {n.name: n for n in c.body if isinstance(n, (ast.FunctionDef, ast.AsyncFunctionDef))}
    todo = list(defs)
    while todo:
        d = todo.pop()
        for n in _own(d):
            if not isinstance(n, ast.Call):
                continue
            callee = None
            if isinstance(n.func, ast.Name):
                callee = toplevel.get(n.func.id)
                if callee is None:
                    # imported from another module of the package: the one module-level function of that name
                    cands = [f for f in m.funcs.values() if f.name == n.func.id and f.cls is None and f.parent is None]
                    if len(cands) == 1:
                        callee = cands[0].node
            elif isinstance(n.func, ast.Attribute) and isinstance(n.func.value, ast.Name) and n.func.value.id in ("cls", "self", "FractionValue"):
                callee = methods.get(n.func.attr)
            if callee is not None and all(callee is not x for x in defs):
                defs.append(callee)
                todo.append(callee)
    sites = 0
    for d in defs:
        nodes = list(_own(d))
        texts = set()  # names holding (a slice / case variant of) the text of a number

        def is_text(e):
            if isinstance(e, ast.Call) and isinstance(e.func, ast.Name) and e.func.id in ("str", "repr") and len(e.args) == 1 and not e.keywords:
                return True
            if isinstance(e, ast.Name):
                return e.id in texts
            if isinstance(e, ast.Subscript):
                return is_text(e.value)
            if isinstance(e, ast.IfExp):
                return is_text(e.body) or is_text(e.orelse)
            if isinstance(e, ast.Call) and isinstance(e.func, ast.Attribute) and e.func.attr in _TEXT_KEEPING:
                return is_text(e.func.value)
            if isinstance(e, ast.NamedExpr):
                return is_text(e.value)
            return False

        changed = True
        while changed:
            changed = False
            for n in nodes:
                tgt = val = None
                if isinstance(n, ast.Assign) and len(n.targets) == 1 and isinstance(n.targets[0], ast.Name):
                    tgt, val = n.targets[0].id, n.value
                elif isinstance(n, ast.AnnAssign) and isinstance(n.target, ast.Name) and n.value is not None:
                    tgt, val = n.target.id, n.value
                elif isinstance(n, ast.NamedExpr) and isinstance(n.target, ast.Name):
                    tgt, val = n.target.id, n.value
                if tgt and tgt not in texts and is_text(val):
                    texts.add(tgt)
                    changed = True

        def searched(const_ok):
            out = []
            for n in nodes:
                if isinstance(n, ast.Call) and isinstance(n.func, ast.Attribute) and n.func.attr in _LOCATORS and n.args and isinstance(n.args[0], ast.Constant) and const_ok(n.args[0].value) and is_text(n.func.value):
                    out.append(n)
                if isinstance(n, ast.Compare) and len(n.ops) == 1 and isinstance(n.ops[0], (ast.In, ast.NotIn)) and isinstance(n.left, ast.Constant) and const_ok(n.left.value) and is_text(n.comparators[0]):
                    out.append(n)
            return out

        dots = searched(lambda c: c == ".")
        if not dots:
            continue
        sites += 1
        exps = searched(lambda c: isinstance(c, str) and c.lower() == "e")
        first = min(dots, key=lambda n: (n.lineno, n.col_offset))
        rep.check(bool(exps), "C18.R8", "CreateFromFloat:%s:digits-of-str" % d.name,
                  "%s locates the '.' in the text of a number and also looks for the exponent marker" % d.name,
                  "%s cuts the text of a float at the '.' (`%s`) without looking for an exponent: for a value printed as '1e-05' the cut digits are wrong and CreateFromFloat changes the amount" % (d.name, norm(ast.unparse(first))[:60]),
                  node=first, fn=fn)
    rep.floor("C18.R8", "functions of CreateFromFloat cutting digits out of str(float)", sites, 1)


def _single_return(fn):
    rets = [r for r in own_nodes(fn.node) if isinstance(r, ast.Return) and r.value is not None]
    return rets[0].value if len(rets) == 1 else None


def r1_fraction_value(rep, ctx):
    m = ctx.model
    ci = m.cls("FractionValue")
    fl = m.own_method("FractionValue", "__float__")
    v = _single_return(fl) if fl else None
    ok = False
    if v is not None:
        t = Resolver(m, fl).term(v)
        num = (("field", "_number"), ("field", "number"), ("call", ("field", "GetNumber"), (), ()))
        frac = (("field", "_fraction"), ("field", "fraction"), ("call", ("field", "GetFraction"), (), ()))
        if t[0] == "op" and t[1] == "Add" and len(t[2]) == 2:
            a_, b_ = t[2]
            is_f = lambda x: x[0] == "call" and x[1] == ("name", "float") and len(x[2]) == 1 and x[2][0] in frac
            ok = (a_ in num and is_f(b_)) or (b_ in num and is_f(a_))
    rep.check(ok, "C18.R1", "FractionValue.__float__", "float(value) is number + float(fraction)", "FractionValue.__float__ returns %s" % (ast.unparse(v) if v is not None else None), fn=fl)
    for d, opcls in ORDER.items():
        fn = ci.methods.get(d)
        if fn is None:
            deco = any("total_ordering" in x for x in ci.decorators)
            rep.bad("C18.R1", "FractionValue.%s" % d, "FractionValue does not define %s itself%s" % (d, ": total_ordering derives it from __lt__ and the *structural* __eq__, so 1 1/2 <= 1.5 is False although the amounts are equal" if deco else " (the operator falls back to Python's default and raises TypeError)"), fn=fl)
            continue
        v = _single_return(fn)
        other = fn.params[1]
        want = ("op", "cmp:" + opcls.__name__, (("call", ("name", "float"), (("self",),), ()), ("call", ("name", "float"), (("param", 1, other),), ())))
        ok = v is not None and Resolver(m, fn).term(v) == want
        rep.check(ok, "C18.R1", "FractionValue.%s" % d, "%s compares float(self) %s float(other)" % (d, {ast.Lt: "<", ast.LtE: "<=", ast.Gt: ">", ast.GtE: ">="}[opcls]),
                  "FractionValue.%s returns `%s`, expected float(self) %s float(other)" % (d, ast.unparse(v) if v is not None else None, {ast.Lt: "<", ast.LtE: "<=", ast.Gt: ">", ast.GtE: ">="}[opcls]), fn=fn)
    cp = m.own_method("FractionValue", "__copy__")
    v = _single_return(cp) if cp else None
    txt = show(Resolver(m, cp).term(v), 300).replace(" ", "") if v is not None else ""
    ok = "self._number" in txt and "self._fraction.numerator" in txt and "self._fraction.denominator" in txt and txt.index("numerator") < txt.index("denominator")
    rep.check(ok, "C18.R1", "FractionValue.__copy__", "a copy is rebuilt from the number and (numerator, denominator) of the fraction", "FractionValue.__copy__ returns %s" % txt, fn=cp)
    eq = m.own_method("FractionValue", "__eq__")
    reads = {x.attr for x in ast.walk(eq.node) if isinstance(x, ast.Attribute)}
    rep.check({"_number", "_fraction"} <= reads, "C18.R1", "FractionValue.__eq__:both-parts", "equality compares the number and the fraction", "FractionValue.__eq__ reads only %s" % sorted(reads), fn=eq)


def r2_fraction(rep, ctx):
    m = ctx.model
    ci = m.cls("Fraction")
    SELF = ("self",)
    X = ("field", "x")
    # the accessors, or what they are verified (below) to return: the parts of the wrapped exact fraction
    NUM = [("field", "numerator"), ("call", ("field", "get_numerator"), (), ()), ("attr", X, "numerator")]
    DEN = [("field", "denominator"), ("call", ("field", "get_denominator"), (), ()), ("attr", X, "denominator")]

    def other_like(t):
        """The other operand, possibly lifted: other | Fraction(other) | <new helper>(other) (inlined as phi)."""
        return all(a[0] == "param" or (a[0] == "call" and a[1] == ("name", "Fraction") and len(a[2]) == 1 and a[2][0][0] == "param") for a in alternatives(t))

    def oattr(t, name):
        return t[0] == "attr" and t[2] == name and other_like(t[1])

    def frac_of(t, inner):
        """Fraction(<X>.numerator, <X>.denominator) with inner(X)."""
        return (t[0] == "call" and t[1] == ("name", "Fraction") and len(t[2]) == 2 and t[2][0][0] == "attr" and t[2][0][2] == "numerator"
                and t[2][1][0] == "attr" and t[2][1][2] == "denominator" and t[2][0][1] == t[2][1][1] and inner(t[2][0][1]))

    def binop(t, op, a, b):
        return t[0] == "op" and t[1] == op and len(t[2]) == 2 and a(t[2][0]) and b(t[2][1])

    is_x = lambda t: t == X
    is_self = lambda t: t == SELF
    is_other = lambda t: all(a[0] == "param" for a in alternatives(t))
    preds = {
        "__add__": lambda t: frac_of(t, lambda x: binop(x, "Add", is_x, lambda y: oattr(y, "x"))),
        "__radd__": lambda t: binop(t, "Add", is_self, is_other),
        "__neg__": lambda t: frac_of(t, lambda x: x == ("op", "USub", (X,))),
        "__sub__": lambda t: binop(t, "Add", is_self, lambda y: y[0] == "op" and y[1] == "USub" and is_other(y[2][0])),
        "__rsub__": lambda t: t[0] == "op" and t[1] == "USub" and binop(t[2][0], "Sub", is_self, is_other),
        "__mul__": lambda t: (t[0] == "call" and t[1] == ("name", "Fraction") and len(t[2]) == 2
                              and binop(t[2][0], "Mult", lambda a: a in NUM, lambda b: oattr(b, "numerator"))
                              and binop(t[2][1], "Mult", lambda a: a in DEN, lambda b: oattr(b, "denominator"))),
        "__truediv__": lambda t: binop(t, "Mult", is_self, lambda y: y[0] == "call" and y[1][0] == "attr" and y[1][2] == "inv" and other_like(y[1][1]) and not y[2]),
        "__rtruediv__": lambda t: binop(t, "Mult", lambda y: y == ("call", ("field", "inv"), (), ()), is_other),
        "__mod__": lambda t: frac_of(t, lambda x: binop(x, "Mod", is_x, lambda y: oattr(y, "x"))),
        "inv": lambda t: frac_of(t, lambda x: binop(x, "Div", lambda a: a == ("const", 1), is_x)),
        "__float__": lambda t: t == ("call", ("name", "float"), (X,), ()),
        "__abs__": lambda t: t[0] == "call" and t[1] == ("name", "Fraction") and len(t[2]) == 2 and t[2][0][0] == "call" and t[2][0][1] == ("name", "abs") and t[2][0][2][0] in NUM and t[2][1] in DEN,
        "copy": lambda t: t[0] == "call" and t[1] == ("name", "Fraction") and len(t[2]) == 2 and t[2][0] in NUM and t[2][1] in DEN,
        "get_numerator": lambda t: t == ("attr", X, "numerator"),
        "get_denominator": lambda t: t == ("attr", X, "denominator"),
    }
    for name, pred in preds.items():
        fn = ci.methods.get(name)
        if fn is None:
            rep.bad("C18.R2", "Fraction.%s" % name, "Fraction.%s is missing" % name, fn=ci.methods.get("__init__"))
            continue
        res_ = Resolver(m, fn)
        rets = sorted((r for r in own_nodes(fn.node) if isinstance(r, ast.Return) and r.value is not None), key=program_order(fn.node))
        # the result of the operation is the last return; earlier returns delegate unusual operands (`other * self`)
        main = rets[-1] if rets else None
        t = res_.term(main.value) if main is not None else None
        ok = t is not None and all(pred(a) for a in alternatives(t))
        # earlier returns: only the hand-over of a sequence operand to its own operator (`other * self`)
        for early in rets[:-1]:
            et = res_.term(early.value)
            for a in alternatives(et):
                handover = a[0] == "op" and a[1] in ("Mult", "Add", "Sub", "Div") and len(a[2]) == 2 and a[2][0][0] == "param" and a[2][1] == ("self",)
                if not (pred(a) or handover):
                    ok = False
                    t = et
        rep.check(ok, "C18.R2", "Fraction.%s" % name, "%s applies the matching exact operation" % name,
                  "Fraction.%s returns %s, which is not the matching operation on the wrapped exact fraction" % (name, show(t, 160) if t else None), fn=fn)
    # == accepts plain numbers: a `return False` of Fraction.__eq__ may only be taken for operands that are
    # neither Fractions nor numbers
    eqf_ = ci.methods.get("__eq__")
    if eqf_ is not None:
        from ..facts import facts as nfacts_
        ecfg = CFG(eqf_.node)
        eres = Resolver(m, eqf_)
        other_t = ("param", 1, eqf_.params[1])
        for rn in ecfg.returns():
            rst = ecfg.ast[rn]
            if not (isinstance(rst.value, ast.Constant) and rst.value.value is False):
                continue
            okf = False
            for k, l_, r_, pos in nfacts_(ecfg, rn):
                if k == "truth" and not pos and isinstance(l_, ast.Call) and isinstance(l_.func, ast.Name) and l_.func.id == "isinstance" and len(l_.args) == 2 and eres.term(l_.args[0]) == other_t:
                    tt_ = eres.term(l_.args[1])
                    names = {x[1] for x in walk(tt_) if x[0] == "name"}
                    okf = "Fraction" in names and ("NumberType" in names or {"int", "float"} <= names)
            rep.check(okf, "C18.R2", "Fraction.__eq__:numbers-compare", "Fraction.__eq__ answers False without comparing only for operands that are neither Fractions nor numbers",
                      "Fraction.__eq__ returns False for an operand class that includes plain numbers (the type guard does not admit int/float): Fraction(1, 2) == 0.5 is False", node=rst, fn=eqf_)
    # normalisation: the scaling loop stops when the numerator is within SMALL of round(numerator),
    # so the conversion to an integer after it must be that same rounding
    init = ci.methods.get("__init__")
    loops = [w for w in ast.walk(init.node) if isinstance(w, ast.While)]
    if len(loops) != 1:
        raise AnalysisError("Fraction.__init__: the scaling loop was not found")
    # shape of the loop test: abs(X - round(X)) > SMALL in any of its spellings; X is the scaled name
    tst = loops[0].test
    X = None
    if isinstance(tst, ast.Compare) and len(tst.ops) == 1 and isinstance(tst.ops[0], (ast.Gt, ast.Lt, ast.GtE, ast.LtE)):
        big, small = (tst.left, tst.comparators[0]) if isinstance(tst.ops[0], (ast.Gt, ast.GtE)) else (tst.comparators[0], tst.left)
        if isinstance(big, ast.Call) and isinstance(big.func, ast.Name) and big.func.id == "abs" and len(big.args) == 1 and isinstance(big.args[0], ast.BinOp) and isinstance(big.args[0].op, ast.Sub):
            l_, r_ = big.args[0].left, big.args[0].right
            for p_, q_ in ((l_, r_), (r_, l_)):
                if isinstance(p_, ast.Name) and isinstance(q_, ast.Call) and isinstance(q_.func, ast.Name) and q_.func.id == "round" and len(q_.args) == 1 and isinstance(q_.args[0], ast.Name) and q_.args[0].id == p_.id:
                    X = p_.id
    if X is None:
        raise AnalysisError("Fraction.__init__: the scaling loop does not test abs(x - round(x)) against a tolerance (normalisation idiom changed)")
    after = None
    order = program_order(init.node)
    inside = {id(x) for x in ast.walk(loops[0])}
    for st in sorted((x for x in ast.walk(init.node) if isinstance(x, ast.Assign)), key=order):
        # (the first conversion of the scaled name after the loop, whatever local receives it)
        if after is None and isinstance(st.targets[0], ast.Name) and isinstance(st.value, ast.Call) and order(st) > order(loops[0]) and id(st) not in inside \
                and len(st.value.args) >= 1 and isinstance(st.value.args[0], ast.Name) and st.value.args[0].id == X:
            fname = st.value.func.id if isinstance(st.value.func, ast.Name) else st.value.func.attr if isinstance(st.value.func, ast.Attribute) else None
            if fname in ("round", "int", "floor", "ceil", "trunc"):
                after = (st, fname)
    if after is None:
        raise AnalysisError("Fraction.__init__: the conversion of the scaled numerator to an integer was not found after the loop")
    rep.check(after[1] == "round", "C18.R2", "Fraction.__init__:rounding", "the numerator is scaled until it is within SMALL of round(a) and then converted with that same round(a)",
              "Fraction.__init__ scales the numerator until it is within a tolerance of round(%s) but converts it with `%s`: a scaled value just below an integer (0.57*100 = 56.99999999999999) is truncated" % (X, ast.unparse(after[0].value)), fn=init)
    # number operands are lifted before use: with `other` an int, a float or a Fraction, every attribute
    # the dunder reads from `other` must exist (type-state analysis; the lifting may be inline or in a helper)
    from ..guards import GuardAnalysis, show_state
    ga = GuardAnalysis(m)
    start = (frozenset([("cls", "Fraction"), ("builtin", "int"), ("builtin", "float")]), frozenset())
    for name in ("__add__", "__mul__", "__truediv__", "__mod__", "__old_cmp__"):
        fn = ci.methods.get(name)
        if fn is None:
            continue
        uses, _, _ = ga.analyze(fn, fn.params[1], start)
        bad = [u for u in uses if not getattr(u, "ok", False) and u.need in ("x", "numerator", "denominator", "inv")]
        rep.check(not bad, "C18.R2", "Fraction.%s:lifts-numbers" % name, "a plain number operand is lifted to a Fraction before its parts are read",
                  "Fraction.%s reads `other.%s` while other may still be a plain number (%s)" % (name, bad[0].need if bad else "", show_state(bad[0].state) if bad else ""), fn=fn)
    # == and < through one helper (term-based: guards may be merged into the returned expression)
    from ..facts import norm_fact
    eqf, ltf, cmpf = ci.methods.get("__eq__"), ci.methods.get("__lt__"), ci.methods.get("__old_cmp__")
    if eqf is None or ltf is None or cmpf is None:
        raise AnalysisError("Fraction: __eq__ / __lt__ / __old_cmp__ not found")

    def decides_by_helper(fn, const):
        res_ = Resolver(m, fn)
        found = False
        for r in own_nodes(fn.node):
            if isinstance(r, ast.Return) and r.value is not None:
                if isinstance(r.value, ast.Constant) and r.value.value is False:
                    continue  # a type guard answering False
                t = res_.term(r.value)
                hit = [x for x in walk(t) if x[0] == "op" and x[1] == "cmp:Eq" and len(x[2]) == 2 and x[2][0][0] == "call" and x[2][0][1] == ("field", "__old_cmp__")
                       and x[2][0][2] == (("param", 1, fn.params[1]),) and x[2][1] in (("const", const), ("op", "USub", (("const", -const),)))]
                if not hit:
                    return False
                found = True
        return found

    rep.check(decides_by_helper(eqf, 0) and decides_by_helper(ltf, -1), "C18.R2", "Fraction:eq-lt-share-helper", "== is helper(other) == 0 and < is helper(other) == -1",
              "Fraction.__eq__ / __lt__ do not both decide through __old_cmp__(other) == 0 / == -1", fn=ltf)
    cres = Resolver(m, cmpf)
    ccfg = CFG(cmpf.node)
    tdefs = [st for st in own_statements(cmpf.node) if isinstance(st, ast.Assign) and isinstance(st.targets[0], ast.Name) and isinstance(st.value, ast.BinOp) and isinstance(st.value.op, ast.Sub)]
    cross_ok = False
    tvar = None
    for st in tdefs:
        tt = cres.term(st.value)
        def mult(x, a, b):
            return x[0] == "op" and x[1] == "Mult" and len(x[2]) == 2 and a(x[2][0]) and b(x[2][1])
        selfnum = lambda x: x in (("field", "numerator"), ("call", ("field", "get_numerator"), (), ()), ("attr", ("field", "x"), "numerator"))
        selfden = lambda x: x in (("field", "denominator"), ("call", ("field", "get_denominator"), (), ()), ("attr", ("field", "x"), "denominator"))
        othnum = lambda x: all(a[0] == "attr" and a[2] == "numerator" for a in alternatives(x))
        othden = lambda x: all(a[0] == "attr" and a[2] == "denominator" for a in alternatives(x))
        if tt[0] == "op" and tt[1] == "Sub" and mult(tt[2][0], selfnum, othden) and mult(tt[2][1], othnum, selfden):
            cross_ok = True
            tvar = st.targets[0].id
    sign_ok = False
    if tvar:
        got = {}
        for st in own_statements(cmpf.node):
            c_ = None
            if isinstance(st, ast.Return) and isinstance(st.value, (ast.Constant, ast.UnaryOp)):
                try:
                    c_ = ast.literal_eval(st.value)
                except Exception:
                    c_ = None
            elif isinstance(st, ast.Assign) and isinstance(st.value, (ast.Constant, ast.UnaryOp)) and isinstance(st.targets[0], ast.Name):
                try:
                    c_ = ast.literal_eval(st.value)
                except Exception:
                    c_ = None
            if c_ in (-1, 0, 1):
                fs = set()
                for e, v in ccfg.facts_at(ccfg.node_of(st)):
                    k, l_, r_, pos = norm_fact(e, v)
                    if isinstance(l_, ast.Name) and l_.id == tvar and isinstance(r_, ast.Constant) and r_.value == 0 and pos:
                        fs.add(k)
                got.setdefault(c_, []).append(fs)
        sign_ok = (any("lt" in f for f in got.get(-1, [])) and any("gt" in f for f in got.get(1, []))
                   and any({"ge", "le"} <= f for f in got.get(0, [])))
    rep.check(cross_ok and sign_ok, "C18.R2", "Fraction.__old_cmp__", "the helper returns the sign of numerator*other.denominator - other.numerator*denominator",
              "Fraction.__old_cmp__ does not compute the sign of the cross-multiplication (self first): cross term %s, sign mapping %s" % (cross_ok, sign_ok), fn=cmpf)
    deco = any("total_ordering" in x for x in ci.decorators)
    others = [d for d in ("__le__", "__gt__", "__ge__") if d in ci.methods]
    rep.check(deco and not others, "C18.R2", "Fraction:total-ordering", "the remaining order operators derive from the shared helper through total_ordering", "Fraction is %s" % ("not @total_ordering" if not deco else "defining %s separately" % others), fn=ltf)


def _norm_lt(model, fn):
    """Shape of a __lt__ body independent of temporaries and formatting: the guards (test term, raised
    exception types) and the term of every returned comparison."""
    res = Resolver(model, fn)
    guards = []
    rets = []
    for st in ast.walk(fn.node):
        if isinstance(st, ast.If):
            raises = sorted({ast.unparse(r.exc.func) for r in ast.walk(st) if isinstance(r, ast.Raise) and isinstance(r.exc, ast.Call)})
            if raises:
                guards.append((show(canon(model, res.term(st.test)), 300), tuple(raises)))
        elif isinstance(st, ast.Return) and st.value is not None:
            rets.append(show(canon(model, res.term(st.value)), 300))
    return sorted(guards), sorted(rets)


def r3_siblings(rep, ctx):
    m = ctx.model
    a = m.own_method("Scalar", "__lt__")
    b = m.own_method("FractionScalar", "__lt__")
    if a is None or b is None:
        raise AnalysisError("__lt__ of Scalar / FractionScalar not found")
    na, nb = _norm_lt(m, a), _norm_lt(m, b)
    rep.check(na == nb, "C18.R3", "FractionScalar.__lt__:same-as-Scalar", "FractionScalar.__lt__ has the same guard, conversion and comparison as Scalar.__lt__", "FractionScalar.__lt__ (%s) differs from Scalar.__lt__ (%s)" % (nb, na), fn=b)
    from . import c08, c12
    borrow(rep, c08.r3_orientation, ctx, "C08.R3", "C18.R3", keep=lambda o: "FractionScalar" in o.key)
    borrow(rep, c12.r3_scan, ctx, "C12.R3", "C18.R3", keep=lambda o: o.key.startswith("FractionScalar.") or o.key.startswith("Scalar.CheckValidity"))
    # value access converts from the own unit
    g = m.own_method("FractionScalar", "GetAbstractValue")
    res = Resolver(m, g)
    ok = False
    from ..facts import ordered_args
    cfv = m.method("FractionScalar", "ConvertFractionValue")
    for r in own_nodes(g.node):
        if isinstance(r, ast.Return) and isinstance(r.value, ast.Call) and isinstance(r.value.func, ast.Attribute) and r.value.func.attr == "ConvertFractionValue":
            args = [canon(m, res.term(a)) if a is not None else None for a in ordered_args(r.value, cfv)]
            ok = args == [("field", "_value"), ("field", "_quantity"), ("call", ("field", "GetUnit"), (), ()), ("param", 1, "unit")]
    rep.check(ok, "C18.R3", "FractionScalar.GetAbstractValue", "the stored FractionValue is converted from the own unit to the requested unit under the own quantity", "FractionScalar.GetAbstractValue passes other roles to ConvertFractionValue", fn=g)
    # the registered FractionValue conversion goes through the same routine
    reg = m.funcs.get(m.method("FractionScalar", "RegisterFractionScalarConversion").qual + ".ConvertFractionScalar")
    if reg is None:
        raise AnalysisError("the registered FractionValue conversion function was not found")
    rres = Resolver(m, reg)
    calls = [c for c in own_nodes(reg.node) if isinstance(c, ast.Call) and isinstance(c.func, ast.Attribute) and c.func.attr == "ConvertFractionValue"]
    ok = len(calls) == 1 and [ast.unparse(x) for x in calls[0].args] == ["value", "quantity_type", "from_unit", "to_unit"]
    rep.check(ok, "C18.R3", "registered-conversion", "UnitDatabase.Convert on a FractionValue goes through ConvertFractionValue(value, quantity type, from, to)", "the registered FractionValue conversion does not call ConvertFractionValue with (value, quantity_type, from_unit, to_unit)", fn=reg)


def r4_parts(rep, ctx):
    m = ctx.model
    fn = m.method("FractionScalar", "ConvertFractionValue")
    res = Resolver(m, fn)
    P = {p_: ("param", i_, p_) for i_, p_ in enumerate(fn.params)}
    convs = sorted((c for c in own_nodes(fn.node) if isinstance(c, ast.Call) and isinstance(c.func, ast.Attribute) and c.func.attr in ("ConvertScalarValue", "Convert")), key=program_order(fn.node))
    parts = []
    src_ok = bool(convs)
    for c in convs:
        vt = res.term(c.args[0]) if c.args else ("const", None)
        v = show(vt, 200)
        to = res.term(c.args[1]) if len(c.args) > 1 else None
        parts.append((v, to))
        rep.check(to == P["to_unit"], "C18.R4", "ConvertFractionValue:%s" % norm(v), "the part is converted to the requested unit", "a part is converted to %s" % (show(to) if to else None), node=c, fn=fn)
        # the quantity that converts is built from from_unit
        recv = res.term(c.func.value)
        src_ok = src_ok and all(a_[0] == "call" and a_[1] == ("name", "ObtainQuantity") and a_[2] and a_[2][0] == P["from_unit"] for a_ in alternatives(recv))
    separate = len(convs) >= 2 and any("GetNumber" in v for v, _ in parts) and any("numerator" in v for v, _ in parts)
    whole = any("float(" in v for v, _ in parts)
    if not separate and not whole:
        raise AnalysisError("ConvertFractionValue: neither the parts nor the whole amount are converted (idiom changed)")
    rep.check(src_ok, "C18.R4", "ConvertFractionValue:source-unit", "the parts are converted from `from_unit`", "the conversion quantity is not built from from_unit", fn=fn)
    if separate:
        from ..convmodel import ConvModel
        cm = ConvModel(m)
        tb = ctx.tables["posc"]
        affine = []
        n_rows = 0
        for u in tb.units.values():
            so = cm.slope_offset(u)
            if so is None:
                continue
            n_rows += 1
            if so[1] != 0:
                affine.append(u.symbol)
        affine.sort()
        rep.floor("C18.R4", "table rows with a known to-base function", n_rows, 1000)
        rep.analysed["affine units of the table"] = affine
        rep.check(not affine, "C18.R4", "ConvertFractionValue:parts-vs-affine-units",
                  "number and numerator are converted separately and no unit of the table has an offset",
                  "ConvertFractionValue converts the number and the numerator by two separate unit conversions; %d units of the table have an offset (%s), so the offset is applied to each part: 5 1/2 degC becomes 415.2 K instead of 278.65 K"
                  % (len(affine), ", ".join(affine)), fn=fn, facts={"affine_units": affine})


# ------------------------------------------------------------------------------------------------
def r5_parse(rep, ctx):
    """The formatter writes `number numerator/denominator` with the additive meaning number + numerator/denominator
    (C18.R1: __float__).  The parser keeps that meaning only if each parsed group reaches the constructed value
    as parsed: FractionValue(<parse(group 'float')> | 0.0, Fraction(<parse(group 'numerator')>, <parse(group 'denominator')>) | Fraction(0.0, 1.0))."""
    m = ctx.model
    fn = m.method("FractionValue", "CreateFromString")
    res = Resolver(m, fn)
    rets = [r for r in own_nodes(fn.node) if isinstance(r, ast.Return) and r.value is not None]
    if not rets:
        raise AnalysisError("FractionValue.CreateFromString has no return")

    def parsed_group(t, group):
        """parse(<match>.group(group)) for some parsing callable, nothing else"""
        if t[0] != "call" or len(t[2]) != 1:
            return False
        g = t[2][0]
        is_group = lambda a_: a_[0] == "call" and a_[1][0] == "attr" and a_[1][2] == "group" and a_[2] == (("const", group),)
        # (a None alternative is the 'group absent' case, which the code tests before parsing)
        return any(is_group(a_) for a_ in alternatives(g)) and all(is_group(a_) or a_ == ("const", None) for a_ in alternatives(g))

    n = 0
    for r in rets:
        t = res.term(r.value)
        for a_ in alternatives(t):
            if not (a_[0] == "call" and a_[1] in (("name", "FractionValue"), ("param", 0, fn.params[0])) and len(a_[2]) == 2):
                raise AnalysisError("FractionValue.CreateFromString returns %s: not FractionValue(number, fraction)" % show(a_, 100))
            n += 1
            num_t, frac_t = a_[2]
            ok_num = all(x == ("const", 0.0) or x == ("const", 0) or parsed_group(x, "float") for x in alternatives(num_t))
            rep.check(ok_num, "C18.R5", "CreateFromString:number", "the number part is the parsed 'float' group (or 0.0 when absent)",
                      "the number part handed to FractionValue is %s, not the parsed text of the number" % show(num_t, 100), node=r, fn=fn)
            ok_frac = True
            why = ""
            for f_ in alternatives(frac_t):
                if not (f_[0] == "call" and f_[1] == ("name", "Fraction") and len(f_[2]) == 2):
                    ok_frac, why = False, show(f_, 100)
                    continue
                nu, de = f_[2]
                for x in alternatives(nu):
                    if not (x in (("const", 0.0), ("const", 0)) or parsed_group(x, "numerator")):
                        ok_frac, why = False, "numerator " + show(x, 100)
                for x in alternatives(de):
                    if not (x in (("const", 1.0), ("const", 1)) or parsed_group(x, "denominator")):
                        ok_frac, why = False, "denominator " + show(x, 100)
            rep.check(ok_frac, "C18.R5", "CreateFromString:fraction", "the fraction is Fraction(parsed numerator, parsed denominator) (or 0/1 when absent)",
                      "the fraction handed to FractionValue is built from %s: the parsed text is altered on the way (sign, scaling), so formatting followed by parsing does not give the amount back" % why, node=r, fn=fn)
    rep.floor("C18.R5", "constructing returns of CreateFromString", n, 1)
