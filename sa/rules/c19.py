"""C19  Equivalent construction forms build equal objects."""
import ast
import string

from .. import legacy, tablechecks
from ..cfg import CFG
from ..report import borrow, AnalysisError, norm
from ..srcmodel import own_nodes
from ..terms import Resolver, alternatives, show, walk

PROP = "C19"
EXHAUSTIVE = True
EXPLANATION = (
    "R1 (exhaustive over all units of the shipped table): the no-category form resolves through the unit's "
    "default_category, else the category named like its quantity type; every unit resolves to a registered category of "
    "its own quantity type (a wrong or dangling default_category on one row is exactly one failing instance). R1b: "
    "GetDefaultCategory implements that resolution order and ObtainQuantity feeds its result into the constructed "
    "Quantity. R2: the positional rotation of the shared constructor delivers (value, unit, category) from every "
    "documented form to ObtainQuantity(unit, category) and to the internal constructor, the tuple form of Scalar unpacks "
    "(value, unit) in order, and the category-only form takes default value and default unit from the same CategoryInfo. "
    "R3: Scalar.__repr__ prints (value, unit, category) in the order of the (value, unit, category) constructor "
    "overload and no unit symbol or category name of the table contains a quote or backslash (exhaustive)."
)
TRUSTED = ["str.format placeholder order"]
ASSUMPTIONS = ["equality of the built objects is by (value, quantity); quantity interning is C07's concern"]


def run(rep, ctx):
    rep.run_rule("C19.R1", "every unit of the shipped table resolves to a category of its own quantity type (exhaustive)", r1_table, ctx)
    rep.run_rule("C19.R1b", "GetDefaultCategory prefers the unit's default_category, then the quantity-type-named category; ObtainQuantity uses it", r1b_mechanism, ctx)
    rep.run_rule("C19.R2", "constructor forms deliver value / unit / category to the same places", r2_ctor, ctx)
    rep.run_rule("C19.R3", "Scalar.__repr__ agrees with the (value, unit, category) constructor form; names are quote-free (exhaustive)", r3_repr, ctx)
    from . import c07
    from ..report import borrow
    from . import c11
    rep.rule("C19.R5", "every FixedArray construction form reaches the same gate: dimension >= 2 and len(values) == dimension (shared with C11.R1 / C11.R2)")
    try:
        borrow(rep, c11.r1_gate, ctx, "C11.R1", "C19.R5")
        borrow(rep, c11.r2_routes, ctx, "C11.R2", "C19.R5")
    except AnalysisError as e:
        rep.error("C19.R5", str(e))
    rep.run_rule("C19.R6", "FixedArray / Array / Scalar constructors hand all of (category, value(s), unit) to the shared constructor, in order", r6_ctor_forwarding, ctx)
    rep.rule("C19.R4", "the intern table answers a category-less request only with the object of the unit's default category (shared with C07.R5: keys are made of the request's own components)")
    try:
        borrow(rep, c07.r5_interning, ctx, "C07.R5", "C19.R4")
    except AnalysisError as e:
        rep.error("C19.R4", str(e))
    rep.not_decided.append("numeric equality of sampled values across forms (float(value) coercion is the same call in every form)")


def r1_table(rep, ctx):
    tb = ctx.tables["posc"]
    tablechecks.check_unit_resolution(rep, "C19.R1", tb)
    tablechecks.check_unit_resolution(rep, "C19.R1", ctx.tables["simple"])
    rep.floor("C19.R1", "units", len(tb.units), 1000)
    # category-only form: default unit must be one of the type's units (so Scalar(category) can be built)
    pairs, _, _ = legacy.chain(ctx.model)
    qt_units = {qt: {r.symbol for r in rows} for qt, rows in tb.qts.items()}
    for name, c in tb.cats.items():
        qt = c.qt
        if not isinstance(qt, str) or qt not in qt_units:
            continue  # C14/R6 reports it
        du = c.default_unit
        key = "posc:category-default:%s" % name
        if du is None:
            # base unit of the type, or the first valid unit when the base is not valid
            first = tb.qts[qt][0].symbol
            vu = c.valid_units
            eff = first if (not vu or first in vu) else legacy.apply(pairs, vu[0])
        else:
            eff = legacy.apply(pairs, du) if isinstance(du, str) else None
        rep.check(eff in qt_units[qt], "C19.R1", key, "category %r alone builds an object in unit %r of its quantity type" % (name, eff),
                  "category %r: the default unit %r is not a unit of %r" % (name, eff, qt), file=c.reg.path, line=c.reg.line)


def r1b_mechanism(rep, ctx):
    m = ctx.model
    fn = m.func("UnitDatabase.GetDefaultCategory")
    res = Resolver(m, fn)
    cfg = CFG(fn.node)
    kinds = {}
    for r in cfg.returns():
        st = cfg.ast[r]
        t = res.term(st.value)
        for alt in alternatives(t):
            if alt[0] == "attr" and alt[2] in ("default_category", "quantity_type"):
                info = alt[1]
                from_map = any(s == ("field", "unit_to_unit_info") for s in walk(info))
                kinds.setdefault(alt[2], []).append((r, st, from_map))
            elif alt[0] == "call" and alt[1] == ("field", "GetQuantityType") and alt[2]:
                # the quantity type looked up through the public getter: same kind as info.quantity_type
                kinds.setdefault("quantity_type", []).append((r, st, True))
            elif alt == ("const", None):
                pass
            else:
                kinds.setdefault("other", []).append((r, st, show(alt, 80)))
    key = "GetDefaultCategory:order"
    problems = []
    if "default_category" not in kinds:
        problems.append("never returns the unit's own default_category")
    if "quantity_type" not in kinds:
        problems.append("never falls back to the category named like the quantity type")
    for r, st, what in kinds.get("other", []):
        problems.append("can return %s, which is neither the unit's default_category nor its quantity type" % what)
    if not problems:
        for r, st, from_map in kinds["default_category"] + kinds["quantity_type"]:
            if not from_map:
                problems.append("a returned value does not come from the info registered for the requested unit")
        # the default_category return must be guarded by its truthiness; the fallback by its falsity + membership
        for r, st, _ in kinds["default_category"]:
            facts = cfg.facts_at(r)
            if not any(val and _is_attr_term(res, e, "default_category") for e, val in facts):
                problems.append("default_category is returned without testing that it is set")
        for r, st, _ in kinds["quantity_type"]:
            facts = cfg.facts_at(r)
            # (every value the tested name can hold must be a unit info's default_category: a constant None
            # on one path means that path never consulted the unit's own default category)
            if not any((not val) and _is_attr_term(res, e, "default_category", every=True) for e, val in facts):
                problems.append("the quantity-type fallback is not reserved for units without default_category")
            from ..facts import norm_fact
            nf = [norm_fact(e, val) for e, val in facts]
            if not any(k == "in" and pos and any(s == ("field", "categories_to_quantity_types") for s in walk(res.term(r_))) for k, l_, r_, pos in nf):
                problems.append("the quantity-type fallback is returned without checking that such a category is registered")
    rep.check(not problems, "C19.R1b", key, "returns info.default_category when set, else info.quantity_type when it is a registered category",
              "; ".join(sorted(set(problems))), fn=fn)
    # ObtainQuantity: the no-category arm builds the quantity from GetDefaultCategory(unit)
    oq = m.func("ObtainQuantity")
    ores = Resolver(m, oq)
    hit = False
    for c in own_nodes(oq.node):
        if isinstance(c, ast.Call) and isinstance(c.func, ast.Name) and c.func.id == "Quantity" and c.args:
            t = ores.term(c.args[0])
            for alt in alternatives(t):
                if alt[0] == "call" and alt[1][0] == "attr" and alt[1][2] == "GetDefaultCategory":
                    arg = alt[2][0] if alt[2] else None
                    if arg is not None and any(s[0] == "param" and s[1] == 0 for s in walk(arg)):
                        hit = True
    rep.check(hit, "C19.R1b", "ObtainQuantity:default-category", "the quantity built without an explicit category uses GetDefaultCategory(unit)",
              "no Quantity(...) in ObtainQuantity takes its category from GetDefaultCategory(unit)", fn=oq)


def _is_attr_term(res, e, attr, every=False):
    t = res.term(e)
    return (all if every else any)(a[0] == "attr" and a[2] == attr for a in alternatives(t))


def _param_set(t):
    return {a[1] for a in alternatives(t) if a[0] == "param"}


def r2_ctor(rep, ctx):
    m = ctx.model
    init = m.func("AbstractValueWithQuantityObject.__init__")
    res = Resolver(m, init)
    P = {name: i for i, name in enumerate(init.params)}
    if not all(k in P for k in ("category", "value", "unit")) or [P["category"], P["value"], P["unit"]] != [1, 2, 3]:
        raise AnalysisError("shared constructor signature is no longer (self, category, value, unit)")
    oq = [c for c in own_nodes(init.node) if isinstance(c, ast.Call) and isinstance(c.func, ast.Name) and c.func.id == "ObtainQuantity"]
    if not oq:
        raise AnalysisError("shared constructor: ObtainQuantity call not found")
    # (the forms may be served by one call each or by one call fed with alternatives: the calls are judged together)
    for c in oq:
        if len(c.args) < 2:
            raise AnalysisError("shared constructor: ObtainQuantity is not called with (unit, category)")
    us = [res.term(c.args[0]) for c in oq]
    cats = [res.term(c.args[1]) for c in oq]
    up = set().union(*[_param_set(u) for u in us])
    cp = set().union(*[_param_set(t_) for t_ in cats])
    ok = up == {2, 3} and cp == {1, 3}
    rep.check(ok, "C19.R2", "ctor:ObtainQuantity(unit, category)",
              "ObtainQuantity receives as unit the 3rd or (value-first forms) the 2nd argument and as category the 1st or (value-first forms) the 3rd",
              "ObtainQuantity receives unit from argument positions %s and category from %s (expected {2,3} and {1,3})" % (sorted(up), sorted(cp)), node=oq[0], fn=init,
              facts={"unit": [show(u, 200) for u in us], "category": [show(t_, 200) for t_ in cats]})
    # category-only form: default unit of the same category info
    du = [a for u in us for a in alternatives(u) if a[0] == "attr" and a[2] == "default_unit"]
    ok_du = bool(du) and all(any(s[0] == "call" and s[1][0] == "attr" and s[1][2] == "GetCategoryInfo" for s in walk(a)) for a in du)
    rep.check(ok_du, "C19.R2", "ctor:category-only:unit", "without a unit, the category's registered default unit is used",
              "the category-only form does not take the unit from GetCategoryInfo(category).default_unit", node=oq[0], fn=init)
    ic = [c for c in own_nodes(init.node) if isinstance(c, ast.Call) and isinstance(c.func, ast.Attribute) and c.func.attr == "_InternalCreateWithQuantity"]
    if not ic:
        raise AnalysisError("shared constructor: _InternalCreateWithQuantity call not found")
    for c in ic:
        if len(c.args) < 2:
            raise AnalysisError("shared constructor: _InternalCreateWithQuantity(quantity, value, ...) not recognised")
    vs = [res.term(c.args[1]) for c in ic]
    vp = set().union(*[_param_set(v) for v in vs])
    dv = [a for v in vs for a in alternatives(v) if a[0] == "call" and a[1] in (("field", "_GetDefaultValue"), ("attr", ("self",), "_GetDefaultValue"))]
    rep.check(vp == {1, 2}, "C19.R2", "ctor:value", "the stored value is the 2nd or (value-first forms) the 1st argument",
              "the stored value comes from argument positions %s (expected {1,2})" % sorted(vp), node=ic[0], fn=init, facts={"value": [show(v, 300) for v in vs]})
    rep.check(bool(dv), "C19.R2", "ctor:category-only:value", "without a value, the category default value is used (via _GetDefaultValue)",
              "the value-less forms do not take the category default value", node=ic[0], fn=init)
    qs = [a for c in ic for a in alternatives(res.term(c.args[0]))]
    is_first = lambda a: a[0] == "param" and a[1] == 1
    is_obtained = lambda a: a[0] == "call" and a[1] == ("name", "ObtainQuantity")
    qok = any(is_first(a) for a in qs) and any(is_obtained(a) for a in qs) and all(is_first(a) or is_obtained(a) for a in qs)
    rep.check(qok, "C19.R2", "ctor:quantity", "the quantity is either the Quantity passed first or ObtainQuantity(unit, category)",
              "the quantity handed to the internal constructor is %s" % [show(a, 120) for a in qs], node=ic[0], fn=init)
    # the value-first forms Scalar(value, unit, category): what reaches ObtainQuantity(unit, category) is the
    # 3rd-or-2nd argument as unit and the 1st-or-3rd as category (positions of the constructor's parameters)
    oq_calls = [c for c in own_nodes(init.node) if isinstance(c, ast.Call) and isinstance(c.func, ast.Name) and c.func.id == "ObtainQuantity" and len(c.args) == 2]
    if not oq_calls:
        raise AnalysisError("shared constructor: ObtainQuantity(unit, category) call not found")
    for c in oq_calls:
        u_alts = [a_ for a_ in alternatives(res.term(c.args[0])) if a_[0] == "param"]
        c_alts = [a_ for a_ in alternatives(res.term(c.args[1])) if a_[0] == "param"]
        up, cp = {a_[1] for a_ in u_alts}, {a_[1] for a_ in c_alts}
        ok = up == {2, 3} and cp == {1, 3}
        rep.check(ok, "C19.R2", "ctor:rotation", "value-first forms rotate (value, unit, category) <- (1st, 2nd, 3rd argument)",
                  "ObtainQuantity receives its unit from argument position(s) %s (expected {2, 3}) and its category from %s (expected {1, 3}): the value-first construction forms do not build the same object as the category-first one" % (sorted(up), sorted(cp)),
                  node=c, fn=init)
    # Scalar tuple form
    sinit = m.func("Scalar.__init__")
    sres = Resolver(m, sinit)
    calls = [c for c in own_nodes(sinit.node) if isinstance(c, ast.Call) and isinstance(c.func, ast.Attribute) and c.func.attr == "__init__"]
    tuple_ok = False
    plain_ok = False
    for c in calls:
        args = [a for a in c.args]
        terms_ = [sres.term(a) for a in args]
        kws = {k.arg: sres.term(k.value) for k in c.keywords}
        # drop the explicit self
        if terms_ and terms_[0] == ("self",):
            terms_ = terms_[1:]
        if len(terms_) == 2 and terms_[0] == ("sub", ("param", 1, sinit.params[1]), ("const", 0)) and terms_[1] == ("sub", ("param", 1, sinit.params[1]), ("const", 1)):
            tuple_ok = True
        full = dict(zip(["category", "value", "unit"], terms_))
        full.update(kws)
        if all(k in full for k in ("category", "value", "unit")) and [full[k][1] if full[k][0] == "param" else None for k in ("category", "value", "unit")] == [1, 2, 3]:
            plain_ok = True
    rep.check(tuple_ok, "C19.R2", "Scalar.__init__:tuple-form", "Scalar((value, unit)) forwards element 0 as value and element 1 as unit",
              "the tuple form of Scalar does not forward (tuple[0], tuple[1]) as (value, unit)", fn=sinit)
    rep.check(plain_ok, "C19.R2", "Scalar.__init__:plain-form", "the other forms forward (category, value, unit) unchanged to the shared constructor",
              "Scalar.__init__ does not forward its three arguments in order", fn=sinit)
    # Array / FixedArray forward their arguments positionally
    for cls, want in (("Array", [1, 2, 3]), ("FixedArray", [2, 3, 4])):
        f = m.own_method(cls, "__init__")
        if f is None:
            raise AnalysisError("%s.__init__ not found" % cls)
        r_ = Resolver(m, f)
        ok = False
        for c in own_nodes(f.node):
            if isinstance(c, ast.Call) and isinstance(c.func, ast.Attribute) and c.func.attr == "__init__":
                ts = [r_.term(a) for a in c.args]
                if ts and ts[0] == ("self",):
                    ts = ts[1:]
                order = ["category", "value", "unit"]
                full = dict(zip(order, ts))
                for k in c.keywords:
                    full[{"values": "value"}.get(k.arg, k.arg)] = r_.term(k.value)
                got = [full[k][1] if k in full and full[k][0] == "param" else None for k in order]
                if got == want:
                    ok = True
        rep.check(ok, "C19.R2", "%s.__init__:forward" % cls, "%s forwards (category, values, unit) in order to its base constructor" % cls,
                  "%s.__init__ does not forward (category, values, unit) in order" % cls, fn=f)


def r3_repr(rep, ctx):
    m = ctx.model
    fn = m.own_method("Scalar", "__repr__")
    if fn is None:
        raise AnalysisError("Scalar.__repr__ not found")
    res = Resolver(m, fn)
    rets = [n for n in own_nodes(fn.node) if isinstance(n, ast.Return) and n.value is not None]
    if len(rets) != 1:
        raise AnalysisError("Scalar.__repr__: expected one return")
    e = rets[0].value
    fields = None
    if isinstance(e, ast.Call) and isinstance(e.func, ast.Attribute) and e.func.attr == "format" and isinstance(e.func.value, ast.Constant):
        tmpl = e.func.value.value
        args = [res.term(a) for a in e.args]
        parsed = list(string.Formatter().parse(tmpl))
        auto = 0
        fields = []
        for lit, name, spec, conv in parsed:
            if name is None:
                continue
            if name == "":
                idx = auto
                auto += 1
            elif name.isdigit():
                idx = int(name)
            else:
                raise AnalysisError("Scalar.__repr__: named placeholder")
            fields.append((lit, args[idx]))
    elif isinstance(e, ast.JoinedStr):
        fields = []
        lit = ""
        for v in e.values:
            if isinstance(v, ast.Constant):
                lit += v.value
            else:
                fields.append((lit, res.term(v.value)))
                lit = ""
    elif isinstance(e, ast.BinOp) and isinstance(e.op, ast.Mod) and isinstance(e.left, ast.Constant) and isinstance(e.right, ast.Tuple):
        parts = e.left.value.split("%")
        fields = [(parts[i], res.term(a)) for i, a in enumerate(e.right.elts)]
    if fields is None:
        raise AnalysisError("Scalar.__repr__: format idiom not recognised")

    def role(t):
        for a in alternatives(t):
            if a == ("field", "_value") or (a[0] == "call" and a[1] in (("field", "GetValue"), ("field", "GetAbstractValue")) and not a[2]) or a == ("field", "value"):
                return "value"
            if (a[0] == "call" and a[1] == ("field", "GetUnit")) or a == ("field", "unit"):
                return "unit"
            if (a[0] == "call" and a[1] == ("field", "GetCategory")) or a == ("field", "category"):
                return "category"
            if a[0] == "attr" and a[2] == "__name__":
                return "class"
        return "?"

    roles = [role(t) for _, t in fields]
    rep.check(roles == ["class", "value", "unit", "category"], "C19.R3", "Scalar.__repr__:order",
              "repr prints Class(value, 'unit', 'category'), the (value, unit, category) constructor overload",
              "repr prints its fields in the order %s, which the (value, unit, category) constructor form reads differently" % roles[1:], node=rets[0], fn=fn)
    quoted = [lit for lit, t in fields if role(t) in ("unit", "category")]
    rep.check(all(l.endswith("'") or l.endswith('"') for l in quoted) or all("!r" in ast.unparse(e) for _ in [0]), "C19.R3", "Scalar.__repr__:quoting",
              "unit and category are printed as quoted strings", "unit/category are not printed as string literals", node=rets[0], fn=fn)
    # names must survive being wrapped in plain quotes
    tb = ctx.tables["posc"]
    bad_syms = [s for s in tb.units if "'" in s or "\\" in s or '"' in s and False]
    bad_cats = [c for c in tb.cats if "'" in c or "\\" in c]
    rep.check(not bad_syms, "C19.R3", "table:quote-free-units", "none of the %d unit symbols contains a quote or backslash" % len(tb.units),
              "unit symbols %r contain a quote or backslash and do not survive repr -> eval" % bad_syms[:5])
    rep.check(not bad_cats, "C19.R3", "table:quote-free-categories", "none of the %d category names contains a quote or backslash" % len(tb.cats),
              "category names %r contain a quote or backslash and do not survive repr -> eval" % bad_cats[:5])


# ------------------------------------------------------------------------------------------------
def r6_ctor_forwarding(rep, ctx):
    """Every subclass constructor that calls a base `__init__` passes the three positional arguments it received
    ((category, value(s), unit), whatever form they are in - the rotation of the value-first forms happens in the
    shared constructor only) in their own order, on every path."""
    m = ctx.model
    n = 0
    for cname in ("FixedArray", "Array", "FractionScalar"):
        fn = m.own_method(cname, "__init__")
        if fn is None:
            continue
        res = Resolver(m, fn)
        data = [p for p in fn.params[1:] if p != "dimension"]
        if fn.node.args.vararg is not None:
            continue  # forwards *args / **kwargs wholesale
        if len(data) != 3:
            raise AnalysisError("%s.__init__: expected (category, value(s), unit) parameters, found %s" % (cname, data))
        P = [("param", fn.params.index(p), p) for p in data]
        calls = [c for c in own_nodes(fn.node) if isinstance(c, ast.Call) and isinstance(c.func, ast.Attribute) and c.func.attr == "__init__"]
        if not calls:
            raise AnalysisError("%s.__init__ does not call a base constructor" % cname)
        for c in calls:
            n += 1
            args = [res.term(a) for a in c.args]
            if args and args[0] == ("self",):
                args = args[1:]
            kw = {k.arg: res.term(k.value) for k in c.keywords if k.arg}
            base = m.lookup(c.func.value.id, "__init__") if isinstance(c.func.value, ast.Name) and c.func.value.id in m.classes else None
            if base is not None:
                bp = [p for p in base.params[1:]]
                for k, v in kw.items():
                    if k in bp and bp.index(k) >= len(args):
                        while len(args) < bp.index(k):
                            args.append(("const", None))
                        args.append(v)
            ok = len(args) == 3 and all(args[i] == P[i] for i in range(3))
            rep.check(ok, "C19.R6", "%s.__init__:forwards:%s" % (cname, norm(ast.unparse(c))[:50]), "the base constructor receives (category, value(s), unit) unchanged",
                      "%s.__init__ calls the base constructor with (%s): an argument is dropped or re-ordered for some call form, so that form builds a different object than the equivalent forms" % (cname, ", ".join(show(a, 40) for a in args)), node=c, fn=fn)
    rep.floor("C19.R6", "base-constructor calls", n, 1)
