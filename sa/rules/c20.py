"""C20  Derived unit, category and type strings render every factor unambiguously."""
import ast

from ..cfg import CFG
from ..report import AnalysisError, norm
from ..srcmodel import own_nodes, own_statements, program_order
from ..strbuild import DEN, NEG, NUM, POS, Builder
from ..accum import accumulations as _accumulations, entry_path as _entry_path
from ..terms import Resolver, alternatives, show, walk

PROP = "C20"
EXHAUSTIVE = True
EXPLANATION = (
    "R1 separator typestate: the two string builders (_MakeStr for category / quantity type / unit name, "
    "_CreateUnitsWithJoinedExponentsString for the unit) are abstractly interpreted over all abstract states "
    "(region before/after the '/', what the accumulator ends with, sign of the current exponent, boolean locals; loop "
    "fixpoint): no factor may start right after another factor, a positive-exponent factor is only emitted before the "
    "'/', a negative one only after it, at most one '/' is emitted, no result ends with a separator, exponents in the "
    "denominator are rendered unsigned. R2 alphabet: the separators and literal text the builders can emit are exactly "
    "those of the table's unit grammar ('.', '/', '1/', decimal suffix) and of the ' * ' / ' / ' / '(x) ** n' notation; "
    "each region renders the exponent. R3: a simple quantity's category, quantity type and unit fields are stored from "
    "the category argument, its registered quantity type and the validated unit. R4: repr/str/formatted suffix of value "
    "objects take the unit from GetUnit() or the requested unit. R5: GetUnitName returns _MakeStr over (unit name, "
    "exponent) pairs gathered from every entry of the composing map; the derived branch of the constructor feeds the "
    "builders from every entry of the composing map."
)
TRUSTED = ["classification of appended expressions by provenance (constant / mentions the factor variable / mentions only the exponent)"]
ASSUMPTIONS = ["atomic table symbols do not themselves end in a digit where that matters for re-parsing (not decided)"]

BUILDERS = {
    "_MakeStr": {"seps": {" * ", " / ", "1 / "}, "lits": {"(", ") ** "}},
    "_CreateUnitsWithJoinedExponentsString": {"seps": {".", "/", "1/"}, "lits": set()},
}

EVENT_TEXT = {
    "no-separator": "a factor is appended directly after another factor (no separator): e.g. 'm/skg', 'length / timemass'",
    "wrong-side": "a factor is emitted on the wrong side of the '/': a positive-exponent factor after it or a negative one before it",
    "second-slash": "a second '/' can be emitted",
    "dangling-sep": "the result can end with a separator",
    "misplaced-sep": "a separator can be emitted where no factor precedes it: the text starts with it ('.m/s') or doubles it",
    "suffix-without-factor": "an exponent suffix is appended where no factor precedes it",
    "leading-slash": "the '/' can be emitted with nothing before it: a pure reciprocal renders as '/s' instead of '1/s'",
    "one-after-factor": "the reciprocal prefix '1/' can be emitted after a factor: 'm1/s'",
    "signed-exponent": "a negative exponent is rendered with its sign after the '/'",
}


def run(rep, ctx):
    rep.run_rule("C20.R1", "separator/region typestate of the two string builders over all abstract states", r1_typestate, ctx)
    rep.run_rule("C20.R2", "the builders emit exactly the grammar's separators and literals; both regions render exponents, unsigned in the denominator", r2_alphabet, ctx)
    rep.run_rule("C20.R3", "a simple quantity stores its category argument, that category's quantity type and the validated unit", r3_simple, ctx)
    rep.run_rule("C20.R4", "repr/str/formatted suffix of value objects show GetUnit() or the requested unit", r4_repr, ctx)
    from . import c10
    from ..report import borrow
    rep.rule("C20.R7", "str()/repr() of an Array do not depend on the container kind: no truth test on the values container (shared with C10.R8)")
    try:
        borrow(rep, c10.r8_no_truth_test_on_values, ctx, "C10.R8", "C20.R7", keep=lambda o: ".__str__:" in o.key or ".__repr__:" in o.key or o.key == "truth-contexts-examined")
    except AnalysisError as e:
        rep.error("C20.R7", str(e))
    rep.run_rule("C20.R6", "a composing request is degraded to a simple quantity only when its single factor has exponent 1", r6_simple_shortcut, ctx)
    rep.run_rule("C20.R5", "derived strings are built from every entry of the composing map (no shortcut, no memo keyed by less)", r5_sources, ctx)
    rep.not_decided += [
        "that parsing recovers the exponents when an atomic symbol itself ends in a digit",
        "the numeric formatting of values inside repr/str",
    ]


def _appends(fn_node, acc):
    out = []
    for n in own_nodes(fn_node):
        if isinstance(n, ast.AugAssign) and isinstance(n.target, ast.Name) and n.target.id in acc:
            out.append((n, n.value))
        elif isinstance(n, ast.Assign) and any(isinstance(t, ast.Name) and t.id in acc for t in n.targets) and isinstance(n.value, ast.BinOp):
            out.append((n, n.value.right))
    return out


def r1_typestate(rep, ctx):
    m = ctx.model
    total = 0
    for name in BUILDERS:
        fn = m.method("Quantity", name)
        b = Builder(fn.node).run()
        if b.n_loops < 1 or not b.exit_states:
            raise AnalysisError("%s: no loop / no exit state found by the string-builder interpreter" % name)
        by_node = {}
        for kind, node, st in b.events:
            by_node.setdefault(id(node), []).append((kind, st))
        for node, _ in sorted(_appends(fn.node, b.family), key=lambda x, _k=program_order(fn.node): _k(x[0])):
            total += 1
            key = "%s:%s" % (name, norm(ast.unparse(node)))
            evs = by_node.get(id(node), [])
            if not evs:
                rep.ok("C20.R1", key, "append is well-placed in every abstract state that reaches it", node=node, fn=fn)
            for kind, st in evs:
                rep.bad("C20.R1", key + "|" + kind, "%s: %s (reached in state %r)" % (name, EVENT_TEXT.get(kind, kind), st), node=node, fn=fn,
                        facts={"state": repr(st), "event": kind})
        for kind, node, st in b.events:
            if kind == "dangling-sep":
                rep.bad("C20.R1", "%s:return|dangling-sep" % name, "%s: %s (state %r)" % (name, EVENT_TEXT[kind], st), node=node, fn=fn)
        rep.ok("C20.R1", "%s:exit-states" % name, "%d abstract exit states explored: %s" % (len(b.exit_states), sorted(map(repr, b.exit_states))), fn=fn)
    rep.floor("C20.R1", "append statements", total, 8)


def _fstring_literals(e):
    out = set()
    for n in ast.walk(e):
        if isinstance(n, ast.JoinedStr):
            for v in n.values:
                if isinstance(v, ast.Constant) and isinstance(v.value, str):
                    out.add(v.value)
    return out


def r2_alphabet(rep, ctx):
    m = ctx.model
    for name, spec in BUILDERS.items():
        fn = m.method("Quantity", name)
        b = Builder(fn.node).run()
        seps = set(b.seps)
        rep.check(seps == spec["seps"], "C20.R2", "%s:separators" % name,
                  "separators emitted are exactly %s" % sorted(spec["seps"]),
                  "%s emits separators %s, the grammar has %s" % (name, sorted(seps), sorted(spec["seps"])), fn=fn)
        lits = set()
        for node, e, roles in b.append_exprs:
            if roles:
                lits |= b.literals(e)
        rep.check(lits <= spec["lits"], "C20.R2", "%s:literals" % name,
                  "literal text inside factors is within %s" % sorted(spec["lits"]),
                  "%s renders factors with unexpected literal text %s" % (name, sorted(lits - spec["lits"])), fn=fn)
        # each loop renders the exponent; the denominator renders it unsigned (both decided on the abstract
        # states of the string-builder interpreter: an append reached with a negative exponent whose text
        # derives from the exponent other than through abs() / unary minus)
        loops = [n for n in own_statements(fn.node) if isinstance(n, ast.For) and id(n) in b.loop_renders_exp]
        if len(loops) < 1:
            raise AnalysisError("%s: no loop" % name)
        for i, lp in enumerate(loops):
            rep.check(b.loop_renders_exp[id(lp)], "C20.R2", "%s:loop%d:renders-exponent" % (name, i),
                      "loop %d renders the exponent of a factor" % i, "%s: loop %d never renders the exponent: 'm2' and 'm' become indistinguishable" % (name, i), node=lp, fn=fn)
        signed = {id(node) for kind, node, st in b.events if kind == "signed-exponent"}
        for node, e, roles in b.append_exprs:
            if roles & {"exp", "uexp"} and any(st.sign == "NEG" for st in b.append_states.get(id(node), ())):
                rep.check(id(node) not in signed, "C20.R2", "%s:unsigned:%s" % (name, norm(ast.unparse(node))),
                          "a denominator exponent is rendered through abs()", "%s renders a negative exponent with its sign after the '/'" % name, node=node, fn=fn)


def r3_simple(rep, ctx):
    m = ctx.model
    fn = m.method("Quantity", "__init__")
    res = Resolver(m, fn)
    cat_i = fn.params.index("category")
    unit_i = fn.params.index("unit")
    stores = {}
    for st in own_statements(fn.node):
        if isinstance(st, ast.Assign):
            for t in st.targets:
                if isinstance(t, ast.Attribute) and isinstance(t.value, ast.Name) and t.value.id == fn.params[0] and t.attr in ("_category", "_quantity_type", "_unit"):
                    stores.setdefault(t.attr, []).append(st)
    for attr in ("_category", "_quantity_type", "_unit"):
        sts = stores.get(attr, [])
        if len(sts) < 2:
            raise AnalysisError("Quantity.__init__: expected a derived and a simple store of %s, found %d" % (attr, len(sts)))
        st = sts[-1]  # the simple branch is the last store in source order
        t = res.term(st.value)
        alts = alternatives(t)
        key = "Quantity.__init__:simple:%s" % attr
        if attr == "_category":
            ok = all(a == ("param", cat_i, "category") for a in alts)
            rep.check(ok, "C20.R3", key, "the category string of a simple quantity is the category argument", "simple quantity stores %s as its category, not the category it was asked for" % show(t), node=st, fn=fn)
        elif attr == "_quantity_type":
            def qt_ok(a):
                if a[0] == "call" and a[1][0] == "attr" and a[1][2] == "GetCategoryQuantityType" and len(a[2]) == 1:
                    return all(x == ("param", cat_i, "category") for x in alternatives(a[2][0]))
                if a[0] == "attr" and a[2] == "quantity_type":
                    return any(s[0] == "call" and s[1][0] == "attr" and s[1][2] == "GetCategoryInfo" for s in walk(a))
                return False
            rep.check(all(qt_ok(a) for a in alts), "C20.R3", key, "the quantity type of a simple quantity is the registered quantity type of its category",
                      "simple quantity stores %s as its quantity type" % show(t), node=st, fn=fn)
        else:
            kinds = set()
            for a in alts:
                if a == ("param", unit_i, "unit"):
                    kinds.add("given")
                elif a[0] == "attr" and a[2] == "default_unit":
                    kinds.add("default")
                elif any(s[0] == "call" and s[1] == ("name", "FixUnitIfIsLegacy") for s in walk(a)):
                    kinds.add("legacy")
                else:
                    kinds.add("other:" + show(a, 60))
            ok = "given" in kinds and not any(k.startswith("other") for k in kinds)
            rep.check(ok, "C20.R3", key, "the unit string of a simple quantity is the validated unit argument (or the category default when none was given, or its legacy rewrite): %s" % sorted(kinds),
                      "simple quantity's unit comes from %s: the unit that was asked for is not what is stored" % sorted(kinds), node=st, fn=fn)


def _unit_sources(m, fn, expr, res=None):
    """Classify where a displayed unit comes from."""
    res = res or Resolver(m, fn)
    t = res.term(expr)
    kinds = set()
    for a in alternatives(t):
        if a[0] == "param":
            kinds.add("requested")
        elif a == ("call", ("field", "GetUnit"), (), ()) or a == ("field", "unit") or a == ("call", ("attr", ("field", "_quantity"), "GetUnit"), (), ()) or a == ("attr", ("field", "_quantity"), "unit"):
            kinds.add("own")
        elif a == ("const", None):
            kinds.add("none")
        else:
            kinds.add("other:" + show(a, 60))
    return kinds


def r4_repr(rep, ctx):
    m = ctx.model
    n = 0
    # Scalar.__repr__ / Array.__repr__: a format argument is the own unit
    for cname in ("Scalar", "Array", "FractionScalar"):
        fn = m.own_method(cname, "__repr__")
        if fn is None:
            raise AnalysisError("%s.__repr__ not found" % cname)
        res = Resolver(m, fn)
        found = False
        for r in own_nodes(fn.node):
            if isinstance(r, ast.Return) and r.value is not None:
                t = res.term(r.value)
                for s in walk(t):
                    if s in (("call", ("field", "GetUnit"), (), ()), ("field", "unit"), ("call", ("attr", ("field", "_quantity"), "GetUnit"), (), ())):
                        found = True
        n += 1
        rep.check(found, "C20.R4", "%s.__repr__:shows-unit" % cname, "%s.__repr__ formats the object's own unit" % cname, "%s.__repr__ does not show the object's unit" % cname, fn=fn)
    # __str__: every way of producing the text ends with the unit (the suffix, or a formatting method that appends it)
    SHOWS = ("GetFormattedSuffix", "GetFormatted", "GetUnit", "__repr__")
    for cname in ("Scalar", "Array", "FractionScalar", "FixedArray"):
        fn = m.own_method(cname, "__str__")
        if fn is None:
            continue
        res = Resolver(m, fn)
        rets = [r for r in own_nodes(fn.node) if isinstance(r, ast.Return)]
        for i_, r in enumerate(sorted(rets, key=program_order(fn.node))):
            n += 1
            t = res.term(r.value) if r.value is not None else ("const", None)
            ok = all(any((s_[0] == "call" and s_[1][0] in ("field", "attr") and (s_[1][1] if s_[1][0] == "field" else s_[1][2]) in SHOWS) or s_ == ("field", "unit") for s_ in walk(a_)) for a_ in alternatives(t))
            rep.check(ok, "C20.R4", "%s.__str__:shows-unit:%d" % (cname, i_), "every text %s.__str__ can return carries the unit" % cname,
                      "%s.__str__ can return `%s`, which does not show the unit (a shortcut for some contents: the value prints without its unit)" % (cname, norm(ast.unparse(r.value))[:60] if r.value is not None else None), node=r, fn=fn)
    # GetFormattedSuffix: unit defaults to GetUnit(), and the unit is what is formatted
    fn = m.method("AbstractValueWithQuantityObject", "GetFormattedSuffix")
    res = Resolver(m, fn)
    for r in own_nodes(fn.node):
        if isinstance(r, ast.Return) and r.value is not None:
            n += 1
            e = r.value
            arg = e.right if isinstance(e, ast.BinOp) and isinstance(e.op, ast.Mod) else None
            if arg is None and isinstance(e, ast.Call):
                arg = e.args[0] if e.args else None
            if arg is None:
                raise AnalysisError("GetFormattedSuffix: return is not a format of the unit")
            kinds = _unit_sources(m, fn, arg, res)
            ok = kinds <= {"requested", "own"} and "own" in kinds and ("requested" in kinds or "unit" not in fn.params)
            rep.check(ok, "C20.R4", "GetFormattedSuffix:unit", "the suffix shows the requested unit, or the object's own unit when none was requested", "the suffix is formatted from %s" % sorted(kinds), node=r, fn=fn)
    # __str__ / GetFormatted of Scalar pass the same unit to value and suffix
    for cname in ("Scalar", "FractionScalar"):
        fn = m.own_method(cname, "GetFormatted")
        if fn is None:
            raise AnalysisError("%s.GetFormatted not found" % cname)
        res = Resolver(m, fn)
        calls = [c for c in own_nodes(fn.node) if isinstance(c, ast.Call) and isinstance(c.func, ast.Attribute) and c.func.attr in ("GetFormattedValue", "GetFormattedSuffix")]
        n += 1
        units = []
        for c in calls:
            u = c.args[0] if c.args else next((k.value for k in c.keywords if k.arg == "unit"), None)
            units.append((c.func.attr, res.term(u) if u is not None else ("const", None)))
        same = len(units) == 2 and units[0][1] == units[1][1] and units[0][1][0] == "param"
        # the suffix (unit text) is appended to the formatted value, never fed through the value's format pattern
        nested = [c for c in calls if c.func.attr == "GetFormattedSuffix" and any(isinstance(p_, ast.Call) and isinstance(p_.func, ast.Attribute) and p_.func.attr in ("GetFormattedValue", "FormatFloat") and any(c is y for y in ast.walk(p_) if y is not p_)
                                                                                     for p_ in own_nodes(fn.node))]
        rep.check(not nested, "C20.R4", "%s.GetFormatted:suffix-not-formatted" % cname, "the unit suffix is concatenated after the formatted value",
                  "%s.GetFormatted passes the unit suffix into the value's %%-format pattern: a unit symbol containing '%%' (percent) breaks str() of the value" % cname, fn=fn)
        rep.check(same, "C20.R4", "%s.GetFormatted:same-unit" % cname, "value and suffix are formatted for the same requested unit",
                  "%s.GetFormatted formats the value and the suffix for different units: %s" % (cname, [(a, show(b)) for a, b in units]), fn=fn)
    rep.floor("C20.R4", "display sites", n, 3)


MAPF = ("field", "_category_to_unit_and_exps")


def _filtered_views(fn):
    """Comprehensions over the composing map that drop entries (have an `if`)."""
    return [x for x in ast.walk(fn.node) if isinstance(x, (ast.GeneratorExp, ast.ListComp, ast.SetComp, ast.DictComp))
            and any(g.ifs for g in x.generators) and any(isinstance(y, ast.Attribute) and y.attr == "_category_to_unit_and_exps" for g in x.generators for y in ast.walk(g.iter))]


def _sums_exponents(m, fn, res, maps, key_pred, what):
    """An accumulation over every entry of the composing map that adds the entry's exponent under a key
    accepted by key_pred(map, key term).  Returns the accumulation or None; raises when entries are filtered."""
    for acc in _accumulations(m, fn, res):
        am, ap = _entry_path(acc["added"])
        if am is None or ap != (1, 1) or not any(am == x for x in maps):
            continue
        if not key_pred(am, acc["key"]):
            continue
        if acc["conditional"] or _filtered_views(fn):
            raise AnalysisError("%s: %s skips some entries of the composing map: the checker cannot tell whether only irrelevant ones are dropped" % (fn.qual, what))
        return acc
    return None


def _derives_from(res, expr, acc):
    """Does expr read the dictionary filled by the accumulation (same defining statement of the local)?"""
    want = {id(st) for st, _ in res.origins(acc["dict"])}

    def rec(e, depth):
        for x in ast.walk(e):
            if isinstance(x, ast.Name) and isinstance(x.ctx, ast.Load):
                sts = [st for st, _ in res.origins(x)]
                if {id(st) for st in sts} & want:
                    return True
                if depth < 3:
                    # a local computed from the dictionary (`pairs = list(d.items())`): look into what it was computed from
                    for st in sts:
                        v = getattr(st, "value", None)
                        if st is not None and isinstance(st, (ast.Assign, ast.AnnAssign)) and v is not None and rec(v, depth + 1):
                            return True
        return False

    return rec(expr, 0)


def r5_sources(rep, ctx):
    m = ctx.model
    # GetUnitName: every return is _MakeStr(...) over the per-unit-name sums of the composing map's exponents
    fn = m.method("Quantity", "GetUnitName")
    res = Resolver(m, fn)
    rets = [r for r in own_nodes(fn.node) if isinstance(r, ast.Return) and r.value is not None]
    if not rets:
        raise AnalysisError("Quantity.GetUnitName has no return")

    def unit_name_key(mp, k):
        return any(_entry_path(x) == (mp, (1, 0)) for x in walk(k))

    acc = _sums_exponents(m, fn, res, [MAPF], unit_name_key, "the accumulation of GetUnitName")
    for r in rets:
        t = res.term(r.value)
        for a in alternatives(t):
            ok = a[0] == "call" and a[1] == ("field", "_MakeStr")
            fed = ok and acc is not None and _derives_from(res, r.value, acc)
            rep.check(bool(ok and fed), "C20.R5", "GetUnitName:%s" % norm(ast.unparse(r))[:60],
                      "the unit name is _MakeStr over pairs gathered from the composing map",
                      "GetUnitName can return %s, which is not built from this quantity's composing map (a memo keyed by less than the map, or a shortcut)" % show(a, 80), node=r, fn=fn)
    rep.check(acc is not None, "C20.R5", "GetUnitName:accumulates-exponents", "each entry's exponent is accumulated per unit name", "GetUnitName does not accumulate the exponents of the composing map", fn=fn)
    # derived branch of __init__: _category, _quantity_type, _unit come from the builders fed by the map
    init = m.method("Quantity", "__init__")
    ires = Resolver(m, init)
    PCAT = ("param", init.params.index("category"), "category")
    want = {"_category": "_MakeStr", "_quantity_type": "_MakeStr", "_unit": "_CreateUnitsWithJoinedExponentsString"}
    seen = {}
    for st in own_statements(init.node):
        if isinstance(st, ast.Assign):
            for t in st.targets:
                if isinstance(t, ast.Attribute) and isinstance(t.value, ast.Name) and t.value.id == init.params[0] and t.attr in want and t.attr not in seen:
                    seen[t.attr] = st

    def qt_key(mp, k):
        return any(x[0] == "call" and x[1][0] == "attr" and x[1][2] == "GetCategoryQuantityType" and x[2] and _entry_path(x[2][0]) == (mp, (0,)) for x in walk(k))

    iacc = _sums_exponents(m, init, ires, [MAPF, PCAT], qt_key, "the accumulation of the quantity-type string")
    for attr, builder in want.items():
        st = seen.get(attr)
        if st is None:
            raise AnalysisError("Quantity.__init__: derived store of %s not found" % attr)
        t = ires.term(st.value)
        ok = all(a[0] == "call" and a[1] == ("field", builder) for a in alternatives(t))
        if builder != "_MakeStr":
            fed = True
        elif attr == "_quantity_type":
            fed = iacc is not None and _derives_from(ires, st.value, iacc)
        else:
            # the category string lists every (category, exponent) entry of the map
            fed = any(x[0] == "gen" and x[1][0] == "tuple" and len(x[1][1]) == 2 and _entry_path(x[1][1][0])[1] == (0,) and _entry_path(x[1][1][1])[1] == (1, 1)
                      and _entry_path(x[1][1][0])[0] in (MAPF, PCAT) for x in walk(t)) and not _filtered_views(init)
            if not fed:
                # or a list filled, entry by entry, in a loop over the composing map
                from ..accum import appends
                for ap in appends(m, init, ires):
                    e_ = ap["elt"]
                    if e_[0] == "tuple" and len(e_[1]) == 2 and _entry_path(e_[1][0])[1] == (0,) and _entry_path(e_[1][1])[1] == (1, 1) and _entry_path(e_[1][0])[0] in (MAPF, PCAT) \
                            and not ap["conditional"] and _derives_from(ires, st.value, {"dict": ap["list"]}):
                        fed = True
            if not fed and any(x[0] == "gen" for x in walk(t)) is False:
                raise AnalysisError("Quantity.__init__: the category string is not built from a comprehension over the composing map (idiom changed)")
        rep.check(ok and fed, "C20.R5", "Quantity.__init__:derived:%s" % attr, "derived %s is %s over the composing map" % (attr, builder),
                  "derived %s is %s" % (attr, show(t, 100)), node=st, fn=init)
    # joined exponents: one accumulator keyed by unit over *all* entries of the composing map
    je = m.method("Quantity", "GetComposingUnitsJoiningExponents")
    jres = Resolver(m, je)
    accs = _accumulations(m, je, jres)
    jacc = _sums_exponents(m, je, jres, [MAPF], lambda mp, k: True, "the accumulation of the joined exponents")
    loops_over_map = [lp for lp in own_statements(je.node) if isinstance(lp, ast.For) and any(x == MAPF for x in walk(jres.term(lp.iter)))]
    if jacc is None and not accs and not loops_over_map:
        # a mapping built directly from the (unit, exponent) pairs keeps only the last exponent of a repeated unit
        for st in own_statements(je.node):
            v = getattr(st, "value", None)
            if v is None:
                continue
            for x in walk(jres.term(v)):
                if x[0] == "call" and x[1] in (("name", "dict"), ("name", "OrderedDict")) and x[2] and x[2][0][0] == "gen":
                    elt = x[2][0][1]
                    if elt[0] == "tuple" and len(elt[1]) == 2 and _entry_path(elt[1][0]) == (MAPF, (1, 0)) and _entry_path(elt[1][1]) == (MAPF, (1, 1)):
                        rep.bad("C20.R5", "joined-exponents:accumulate-by-unit", "the joined exponents are a mapping built directly from the (unit, exponent) pairs: for a unit that occurs under several categories the last exponent wins instead of the sum", node=st, fn=je)
                        return _unit_builder_rule(rep, m)
    if jacc is None and not accs and not loops_over_map:
        raise AnalysisError("Quantity.GetComposingUnitsJoiningExponents: the accumulation loop over the composing map was not found (another joining algorithm: the checker cannot tell whether non-adjacent repeats of a unit are joined)")
    acc_ok = jacc is not None and _entry_path(jacc["key"]) == (MAPF, (1, 0))
    rep.check(acc_ok, "C20.R5", "joined-exponents:accumulate-by-unit", "exponents are accumulated in a mapping keyed by the unit over all entries", "the joined exponents are not accumulated per unit", fn=je)
    _unit_builder_rule(rep, m)


def _unit_builder_rule(rep, m):
    # the unit builder iterates the joined composing units of this quantity
    ub = m.method("Quantity", "_CreateUnitsWithJoinedExponentsString")
    loops = [lp for lp in own_statements(ub.node) if isinstance(lp, ast.For)]
    ures = Resolver(m, ub)
    JOINED = ("call", ("field", "GetComposingUnitsJoiningExponents"), (), ())

    def derives(t, depth=0):
        """the joined units themselves, or an order-preserving view of them: enumerate / list / tuple of them, a
        comprehension over them that passes the items on unchanged (possibly filtered)"""
        if t == JOINED:
            return True
        if depth > 4:
            return False
        if t[0] == "call" and t[1] in (("name", "enumerate"), ("name", "list"), ("name", "tuple")) and len(t[2]) == 1 and not t[3]:
            return derives(t[2][0], depth + 1)
        if t[0] == "gen" and len(t) >= 3:
            its = t[2] if isinstance(t[2], tuple) else (t[2],)
            if len(its) != 1 or not derives(its[0], depth + 1):
                return False
            el = ("elem", its[0])
            elt = t[1]
            return elt == el or (elt[0] == "tuple" and all(x == ("sub", el, ("const", i)) for i, x in enumerate(elt[1])))
        return False

    ok = bool(loops) and all(any(derives(a) for a in alternatives(ures.term(lp.iter))) and all(derives(a) for a in alternatives(ures.term(lp.iter))) for lp in loops)
    rep.check(ok, "C20.R5", "unit-builder:iterates-joined-units", "the unit builder iterates GetComposingUnitsJoiningExponents() in every loop",
              "a loop of the unit builder does not iterate the joined composing units", fn=ub)


# ------------------------------------------------------------------------------------------------
def _first_entry(t):
    """t denotes the first [unit, exp] entry of a composing request: `X[0]` (list form),
    `next(iter(X.values()))` or `next(iter(X.items()))[1]` (mapping form) -> X, else None."""
    if t[0] == "sub" and t[2] == ("const", 0):
        return t[1]
    if t[0] == "sub" and t[2] == ("const", 1):
        inner = t[1]
        if inner[0] == "call" and inner[1] == ("name", "next") and inner[2] and inner[2][0][0] == "call" and inner[2][0][1] == ("name", "iter") and inner[2][0][2]:
            v = inner[2][0][2][0]
            if v[0] == "call" and v[1][0] == "attr" and v[1][2] == "items":
                return v[1][1]
    if t[0] == "call" and t[1] == ("name", "next") and t[2] and t[2][0][0] == "call" and t[2][0][1] == ("name", "iter") and t[2][0][2]:
        v = t[2][0][2][0]
        if v[0] == "call" and v[1][0] == "attr" and v[1][2] == "values":
            return v[1][1]
    return None


def r6_simple_shortcut(rep, ctx):
    """ObtainQuantity may turn a one-factor composing request into a simple quantity by rebinding `unit` to
    the factor's symbol; the exponent is dropped by that step, so every such rebinding needs the dominating fact
    `<that factor's exponent> == 1`."""
    from ..facts import facts as nfacts

    m = ctx.model
    fn = m.func("ObtainQuantity")
    cfg = CFG(fn.node)
    res = Resolver(m, fn)
    n = 0
    for st in own_statements(fn.node):
        if not isinstance(st, ast.Assign):
            continue
        names = [x.id for t_ in st.targets for x in ast.walk(t_) if isinstance(x, ast.Name) and isinstance(x.ctx, ast.Store)]
        if "unit" not in names:
            continue
        # the value that `unit` receives from this statement
        nid = cfg.node_of(st)
        idx = [i for i, d in enumerate(res.defs.get("unit", [])) if res.def_stmt.get(("unit", i)) is st]
        # (a value copied from a definition made under a test carries the facts of that definition site: the
        # result variable of an extracted helper)
        per_origin = []
        if isinstance(st.value, ast.Name) and len(idx) == 1:
            org = res.origins(st.value)
            for (ost, ot), chain in zip(org, list(res.origin_chains)):
                sites = [nid] + [cfg.node_of(x) for x in [ost] + chain if x is not None]
                per_origin += [(a_, sites) for a_ in alternatives(ot)]
        else:
            for i in idx:
                per_origin += [(a_, [nid]) for a_ in alternatives(res._name_def("unit", i))]
        if True:
            for a_, sites in per_origin:
                # symbol component ([..][0]) of the first entry of a composing request
                if not (a_[0] == "sub" and a_[2] == ("const", 0)):
                    continue
                src = _first_entry(a_[1])
                if src is None:
                    continue
                n += 1
                ok = False
                for k, l_, r_, pos in [f_ for s_ in sites for f_ in nfacts(cfg, s_)]:
                    if k == "eq" and pos and r_ is not None:
                        for x_, y_ in ((l_, r_), (r_, l_)):
                            if isinstance(y_, ast.Constant) and y_.value == 1:
                                tx = res.term(x_)
                                if tx[0] == "sub" and tx[2] == ("const", 1) and _first_entry(tx[1]) == src:
                                    ok = True
                rep.check(ok, "C20.R6", "ObtainQuantity:simple-shortcut:%s" % norm(ast.unparse(st))[:60], "the single factor is taken as a simple unit only under the fact that its exponent is 1",
                          "`%s` turns a one-factor composing request into a simple quantity without the factor's exponent being known to be 1: ObtainQuantity([['m', 2]], ['length']) becomes plain 'm' and every string of the quantity loses the exponent" % norm(ast.unparse(st))[:80],
                          node=st, fn=fn)
    rep.floor("C20.R6", "shortcuts from a composing request to a simple quantity", n, 1)
